"""Multi-threaded pipeline checks (C08, C09, C10, MT parts of C13/C18): TLC model checking of
MtReader / MtWriter, transition tours replayed into the real code on the deterministic runtime,
randomized schedules with oracles, TLC validation of recorded traces."""
import json, os, re, collections, random, time
from . import core
from .core import log, ToolError

# as-built variant constants (what the current tree does); justified by trace validation
ASBUILT = {"CloseLock": "TRUE", "WakeOnError": "TRUE", "EofIsError": "TRUE", "PanicGuard": "TRUE"}
ASBUILT_FILE = os.path.join(core.VERIF, "spec", "asbuilt.json")
if os.path.exists(ASBUILT_FILE):
    ASBUILT.update(json.load(open(ASBUILT_FILE)).get("mt", {}))

SILENT_READER = {"CCall", "CL0Hit", "CRetEof"}


def tla_seq(xs):
    return "<<" + ",".join('"%s"' % x for x in xs) + ">>"


def tla_set(xs):
    return "{" + ",".join(str(x) for x in xs) + "}"


def reader_consts(kind, workers, chunks, terminated=True, bad=(), panic=(), empty=(), drop_after=None, variant=None,
                  calls_after_err=0):
    c = {"Kind": '"%s"' % kind, "MaxWorkers": str(workers), "Chunks": list(chunks),
         "Terminated": "TRUE" if terminated else "FALSE", "BadUnits": tla_set(bad), "PanicUnits": tla_set(panic),
         "EmptyUnits": tla_set(empty), "DropAfter": str(99 if drop_after is None else drop_after),
         "CallsAfterErr": str(calls_after_err)}
    c.update(ASBUILT)
    if variant:
        c.update(variant)
    return c


def write_model(base, consts, **kw):
    kw.setdefault("seq_consts", ("Chunks", "Calls"))
    return core.write_model(base, consts, **kw)


READER_INV = ["TypeOK", "InOrder", "NoFalseSuccess", "StickyError", "WorkerBound", "PushSeesOpen"]
READER_PROPS = ["CallsReturn", "WorkersReleased", "Terminates"]


def model_check(base, consts, invariants, properties, workers=4, timeout=600, dump=None, spec=None):
    d, mod, cfg = write_model(base, consts, spec=spec or ("Spec" if properties else "SpecSafe"),
                              invariants=invariants, properties=properties)
    return core.run_tlc(mod, cfg, workers=workers, timeout=timeout, cwd=d, dump=dump)


# --------------------------------------------------------------------------- tours
_edge_re = re.compile(r'^(-?\d+) -> (-?\d+) \[label="((?:[^"\\]|\\.)*)"')
_node_re = re.compile(r'^(-?\d+) \[label=.*style = filled\]')


def load_graph(dot):
    edges = collections.defaultdict(list)
    init = None
    n = 0
    with open(dot) as f:
        for line in f:
            m = _edge_re.match(line)
            if m:
                edges[m.group(1)].append((m.group(2), m.group(3).replace('\\"', '"')))
                n += 1
                continue
            if init is None:
                m = _node_re.match(line)
                if m:
                    init = m.group(1)
    return init, edges, n


def tour(init, edges):
    """Greedy edge-covering tour: list of paths (each a list of (src, label, dst)) from the initial state
    that together traverse every edge of the graph."""
    parent = {init: None}
    order = [init]
    dq = collections.deque([init])
    while dq:
        u = dq.popleft()
        for (v, l) in edges.get(u, []):
            if v not in parent:
                parent[v] = (u, l)
                dq.append(v)
                order.append(v)

    def path_to(u):
        p = []
        while parent[u] is not None:
            pu, l = parent[u]
            p.append((pu, l, u))
            u = pu
        return p[::-1]

    covered = set()
    paths = []
    for u in order:
        for idx, (v, l) in enumerate(edges.get(u, [])):
            if (u, idx) in covered:
                continue
            p = path_to(u)
            for (a, lab, b) in p:
                for j, (vv, ll) in enumerate(edges[a]):
                    if vv == b and ll == lab:
                        covered.add((a, j))
                        break
            cur = u
            nxt = (idx, v, l)
            while nxt is not None:
                j, vv, ll = nxt
                covered.add((cur, j))
                p.append((cur, ll, vv))
                cur = vv
                nxt = None
                for j2, (v2, l2) in enumerate(edges.get(cur, [])):
                    if (cur, j2) not in covered:
                        nxt = (j2, v2, l2)
                        break
            # extend to a terminal state along BFS-shortest continuation is not needed: the runtime's
            # default policy finishes the run after the guided prefix
            paths.append(p)
    return paths


_lab_re = re.compile(r'^(\w+)(?:\((.*)\))?$')


def parse_label(lab):
    m = _lab_re.match(lab)
    name, args = m.group(1), m.group(2)
    a = [x.strip().strip('"') for x in args.split(",")] if args else []
    return name, a


def label_tid(name, args):
    if name.startswith("C"):
        return 0
    return int(args[0])


def guided_steps(path, edges, silent, notify_names=("CSNotifyW",)):
    """Converts a tour path into runtime decisions: [tid, enabled tids per spec, compare?, waiter]."""
    steps = []
    for (src, lab, dst) in path:
        name, args = parse_label(lab)
        if name in silent or name == "Done":
            continue
        en_labels = [parse_label(l) for (_, l) in edges[src]]
        any_silent = any(n in silent for (n, _) in en_labels)
        en = sorted(set(label_tid(n, a) for (n, a) in en_labels))
        waiter = -1
        if name in notify_names:
            waiter = int(args[-1])
            if waiter == 0:
                waiter = -1
        steps.append([label_tid(name, args), en, (not any_silent), waiter])
    return steps


# --------------------------------------------------------------------------- running scenarios
def run_scenarios(scns, nproc=None, timeout=1200):
    """Runs scenario dicts through vh_mt in parallel batches; returns results in order."""
    if not scns:
        return []
    nproc = nproc or min(core.NCPU, 14)
    nb = max(1, min(nproc * 2, len(scns) // 20 + 1))
    batches = [[] for _ in range(nb)]
    for i, s in enumerate(scns):
        batches[i % nb].append((i, s))
    jobs = [([], "\n".join(json.dumps(s) for (_, s) in b) + "\n") for b in batches]
    res = core.run_bin_parallel("vh_mt", jobs, timeout=timeout, nproc=nproc)
    out = [None] * len(scns)
    for b, r in zip(batches, res):
        lines = [x for x in r.stdout.splitlines() if x.strip()]
        if r.returncode != 0 or len(lines) != len(b):
            raise ToolError(f"vh_mt failed rc={r.returncode}: got {len(lines)} of {len(b)} results\n{r.stderr[-2000:]}")
        for (i, _), line in zip(b, lines):
            out[i] = json.loads(line)
    return out


def expected_reader(s):
    """What the property demands for a reader scenario: 'ok' (all data then eof) or 'err'."""
    fails = bool(s.get("bad")) or bool(s.get("panic")) or ("X" in s.get("chunks", []))
    if s["family"] == "lzma2_reader" and not s.get("terminated", True):
        fails = True
    if s["family"] == "lzip_reader" and (not s.get("chunks") or s.get("lzip_damage")):
        fails = True
    return "err" if fails else "ok"


def writer_dict(s):
    """Dictionary size a writer scenario is run with (harness mt.rs): `dict_size` if given, else min(64 KiB, unit), >= 4 KiB."""
    return max(4096, s["dict_size"]) if s.get("dict_size") else min(65536, max(4096, s["unit_len"]))


def writer_unit(s):
    """Unit size the property speaks of: the configured chunk / member size, raised to the dictionary size when smaller."""
    return max(max(1, s["unit_len"]), writer_dict(s))


def judge(s, r):
    """Property-level oracles on one run. Returns list of (property, what, sig)."""
    v = []
    fam = s["family"]
    cls = scenario_class(s)
    fault = next((f for f in ("worker_panic", "bad_unit", "source_fail", "no_terminator", "sink_error") if f in cls.split("+")), "none")
    base = {"family": fam, "class": cls, "fault": fault}
    if r.get("step_limit"):
        raise ToolError(f"step limit reached in scenario {s['id']} (infrastructure bound, not a verdict)")
    if r.get("budget_blown"):
        v.append(("C09", f"{fam}: the call did not finish within {s.get('op_budget')} source operations "
                         f"(a file of {r.get('file_len')} bytes; {cls})", dict(base, outcome="unbounded_source_ops")))
        return v
    if r["deadlock"]:
        v.append(("C09", f"{fam}: caller blocked forever in {r.get('last_call')}() ({cls}); blocked threads {r['blocked']}",
                  dict(base, outcome="deadlock")))
        if r.get("last_call") in ("finish", "drop"):
            # finishing / dropping must never block (C10): the object, and with it its threads, is never released
            v.append(("C10", f"{fam}: {r.get('last_call')}() blocks forever ({cls}); blocked threads {r['blocked']}",
                      dict(base, outcome="teardown_blocked")))
        return v
    if r["leak"]:
        v.append(("C10", f"{fam}: worker thread never terminates after drop ({cls}); blocked {r['blocked']}",
                  dict(base, outcome="leak")))
    if 0 in r.get("panicked", []):
        v.append(("C09", f"{fam}: the calling thread panicked ({cls})", dict(base, outcome="caller_panic")))
    if r["max_live"] > max(1, min(256, s["workers"])):
        v.append(("C10", f"{fam}: {r['max_live']} live workers exceed the limit {s['workers']}",
                  dict(base, outcome="worker_bound")))
    if fam.endswith("reader"):
        exp = expected_reader(s)
        if not r["out_is_prefix"] or (r.get("st_ok") and not r.get("mt_is_prefix_of_st", True)):
            v.append(("C08", f"{fam}: bytes returned differ from the single-threaded content ({cls})",
                      dict(base, outcome="wrong_bytes")))
        if exp == "ok" and not r.get("st_ok", True):
            raise ToolError(f"single-threaded reader rejects the stream generated for {s['id']} (generator or ST reader problem, not an MT verdict)")
        if r["outcome"] == "eof":
            if exp == "err":
                v.append(("C09", f"{fam}: end of stream reported although the input is faulty ({cls})",
                          dict(base, outcome="false_success")))
            elif not r["out_complete"] or not r.get("mt_equals_st", True):
                v.append(("C08", f"{fam}: end of stream with {r['out_len']} of {r['expected_len']} bytes ({cls})",
                          dict(base, outcome="missing_bytes")))
            elif r["unit_count"] != r["expected_units"] and r["expected_len"] > 0:
                v.append(("C18", f"{fam}: reports {r['unit_count']} units, stream has {r['expected_units']}",
                          dict(base, outcome="unit_count")))
        if any(x != "err" for x in r.get("post_err", [])):
            v.append(("C09", f"{fam}: a call after the error reported success ({r['post_err']}) ({cls})",
                      dict(base, outcome="error_not_sticky")))
        elif r["outcome"] == "err" and exp == "ok":
            v.append(("C08", f"{fam}: valid stream rejected: {r['err_kind']} {r['err_msg']} ({cls})",
                      dict(base, outcome="spurious_error")))
    else:
        calls = [c["op"] for c in s["calls"]]
        fin = "finish" in calls and r["outcome"] == "finished"
        faulty = bool(s.get("panic")) or s.get("sink_err_at") is not None
        if r["outcome"] == "err" and not faulty:
            v.append(("C08", f"{fam}: call failed without any fault: {r['call_results']} ({cls})",
                      dict(base, outcome="spurious_error")))
        if fin and s.get("panic"):
            v.append(("C09", f"{fam}: finish reported success although a worker failed ({cls})",
                      dict(base, outcome="false_success")))
        if fin and not faulty:
            if not r["decode_ok"] or not r["decoded_complete"]:
                v.append(("C08", f"{fam}: output does not decode to the written bytes (decoded {r['decoded_len']} of {r['input_len']}) ({cls})",
                          dict(base, outcome="wrong_bytes")))
            us = r["unit_sizes"]
            unit = writer_unit(s)
            # flush points legitimately cut units early; without flush every unit except the last is exact
            if "flush" not in calls and us and any(u != unit for u in us[:-1]):
                v.append(("C18", f"{fam}: unit sizes {us} with configured size {unit}", dict(base, outcome="unit_size")))
            if any(u > unit for u in us):
                v.append(("C18", f"{fam}: unit larger than configured size: {us} > {unit}", dict(base, outcome="unit_size")))
    return v


def scenario_class(s):
    fam = s["family"]
    if fam.endswith("reader"):
        parts = []
        if not s.get("chunks"):
            parts.append("zero_units")
        if s.get("bad"):
            parts.append("bad_unit")
        if s.get("panic"):
            parts.append("worker_panic")
        if "X" in s.get("chunks", []):
            parts.append("source_fail")
        if fam == "lzma2_reader" and not s.get("terminated", True):
            parts.append("no_terminator")
        if s.get("drop_after") is not None:
            parts.append("early_drop")
        if s.get("empty"):
            parts.append("empty_unit")
        if s.get("lzip_damage"):
            parts.append("trailer_damage")
        return "+".join(parts) or "valid"
    parts = []
    if s.get("panic"):
        parts.append("worker_panic")
    if s.get("sink_err_at") is not None:
        parts.append("sink_error")
    ops = [c["op"] for c in s["calls"]]
    if "finish" not in ops:
        parts.append("early_drop")
    if "flush" in ops:
        parts.append("flush")
    return "+".join(parts) or "valid"


def trace_lines(r):
    return [json.dumps(e) for e in r["log"]]


def scan_events(r):
    """NDJSON events of the LZIPReaderMT constructor's backward member scan, derived from the seeks observed on
    the source (see spec/Trace_LzipScan.tla)."""
    ev = [{"ev": "Reset", "len": r["file_len"]}]
    seeks = r["seeks"][: r["seeks_at_new"]]
    # seeks[0] is SeekFrom::End(0); then alternately trailer / header positions
    body = seeks[1:]
    for i, (k, p) in enumerate(body):
        ev.append({"ev": "Trailer" if i % 2 == 0 else "Header", "pos": p})
    ok = not (r["outcome"] == "err" and r["err_msg"].startswith("new:"))
    ev.append({"ev": "Done", "ok": 1 if ok else 0, "n": r["unit_count"] if ok else 0})
    return ev
