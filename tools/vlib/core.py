"""Shared machinery of every check: TLC runs, harness builds, verdicts, evidence.

Exit codes: 0 = property held on everything explored (KNOWN-FINDING lines allowed),
1 = at least one VIOLATION line was printed, 2 = infrastructure problem (no verdict).
"""
import json, os, re, shutil, subprocess, sys, time, hashlib, glob

VERIF = os.path.dirname(os.path.dirname(os.path.dirname(os.path.abspath(__file__))))
SPEC = os.path.join(VERIF, "spec")
HARNESS = os.path.join(VERIF, "harness")
WORK = os.path.join(VERIF, "work")
PWORK = os.path.join(WORK, f"p{os.getpid()}")   # per-process scratch, removed at exit
# VERIF_REPO: build the harness against a scratch copy of the repository instead of /repo (mutation testing by
# builders; registered commands never set it). VERIF_OUT: where evidence/ and replays/ go (default /verif).
REPO = os.environ.get("VERIF_REPO", "/repo").rstrip("/")
OUT = os.environ.get("VERIF_OUT", VERIF)
EVID = os.path.join(OUT, "evidence")
REPLAYS = os.path.join(OUT, "replays")
JAR = "/opt/veriftools/tla/tla2tools.jar:/opt/veriftools/tla/CommunityModules-deps.jar"
NCPU = os.cpu_count() or 4


class ToolError(Exception):
    pass


_T0 = time.time()


def log(*a):
    print(f"[{time.time()-_T0:6.1f}]", *a, file=sys.stderr, flush=True)


def sh(cmd, cwd=None, env=None, timeout=None, input=None):
    e = dict(os.environ)
    if env:
        e.update(env)
    return subprocess.run(cmd, cwd=cwd, env=e, timeout=timeout, input=input,
                          stdout=subprocess.PIPE, stderr=subprocess.STDOUT, text=True)


# --------------------------------------------------------------------------- TLC
class TlcResult:
    def __init__(self):
        self.ok = False            # finished without error
        self.states = 0            # generated
        self.distinct = 0
        self.depth = 0
        self.violated = None       # name of violated invariant / property, or "deadlock"
        self.trace = []            # list of (action_label, state_text) for a counter-example
        self.coverage = {}         # action -> (count, distinct)
        self.out = ""
        self.wall = 0.0
        self.printed = []          # lines produced by Print / PrintT

    def __repr__(self):
        return f"<TLC ok={self.ok} gen={self.states} distinct={self.distinct} violated={self.violated} {self.wall:.1f}s>"


_cov_re = re.compile(r"^<(\w+) line \d+, col \d+ to line \d+, col \d+ of module (\w+)>: (\d+):(\d+)")


def scratch_spec(files):
    """Creates a scratch directory holding symlinks to every spec/*.tla plus the generated `files`
    ({name: text}); returns its path (under the per-process work dir)."""
    global _scratch_n
    _scratch_n += 1
    d = os.path.join(PWORK, f"spec{_scratch_n}")
    os.makedirs(d, exist_ok=True)
    for f in glob.glob(os.path.join(SPEC, "*.tla")):
        dst = os.path.join(d, os.path.basename(f))
        if not os.path.exists(dst):
            os.symlink(f, dst)
    for name, text in files.items():
        with open(os.path.join(d, name), "w") as fh:
            fh.write(text)
    return d


_scratch_n = 0
_tlc_n = 0


def run_tlc(module, cfg, workers=4, timeout=600, simulate=None, depth=None, dump=None, env=None,
            coverage=True, heap="4g", tag=None, deque=False, seed=None, continue_=False, cwd=None, xss="64m"):
    """Runs TLC on spec/<module>.tla with spec/<cfg>. Returns TlcResult. Raises ToolError on
    parse errors / crashes / timeouts."""
    global _tlc_n
    _tlc_n += 1
    tag = tag or f"{module}_{_tlc_n}"
    meta = os.path.join(PWORK, "tlc", tag)
    tmp = os.path.join(PWORK, "tmp")
    os.makedirs(meta, exist_ok=True)
    os.makedirs(tmp, exist_ok=True)
    jopts = f"-Djava.io.tmpdir={tmp} -Xss{xss}"
    if deque:
        jopts += " -Dtlc2.tool.queue.IStateQueue=StateDeque"
    cmd = ["java", "-XX:+UseSerialGC" if heap in ("2g", "4g") else "-XX:+UseParallelGC", "-XX:CICompilerCount=2", f"-Xmx{heap}"] + jopts.split() + ["-cp", JAR, "tlc2.TLC",
           "-workers", str(workers), "-metadir", meta, "-noGenerateSpecTE",
           "-config", cfg]
    if coverage and not simulate:
        cmd += ["-coverage", "1"]
    if simulate:
        cmd += ["-simulate", f"num={simulate}"]
        if seed is not None:
            cmd += ["-seed", str(seed)]
    if depth:
        cmd += ["-depth", str(depth)]
    if dump:
        cmd += ["-dump", "dot,actionlabels", dump]
    if continue_:
        cmd += ["-continue"]
    cmd += [module + ".tla"]
    t0 = time.time()
    try:
        p = sh(cmd, cwd=cwd or SPEC, env=env, timeout=timeout)
    except subprocess.TimeoutExpired:
        shutil.rmtree(meta, ignore_errors=True)
        raise ToolError(f"TLC timeout after {timeout}s: {module} {cfg}")
    r = TlcResult()
    r.wall = time.time() - t0
    r.out = p.stdout
    shutil.rmtree(meta, ignore_errors=True)
    out = p.stdout
    m = re.search(r"(\d+) states generated, (\d+) distinct states found", out)
    if m:
        r.states, r.distinct = int(m.group(1)), int(m.group(2))
    m = re.search(r"The depth of the complete state graph search is (\d+)", out)
    if m:
        r.depth = int(m.group(1))
    for line in out.splitlines():
        mm = _cov_re.match(line)
        if mm:
            r.coverage[mm.group(1)] = (int(mm.group(3)), int(mm.group(4)))
        if line.startswith('"') or line.startswith("<<") or line.startswith("[") or line.startswith("{"):
            r.printed.append(line)
    m = re.search(r"Error: Invariant (\w+) is violated", out)
    if m:
        r.violated = m.group(1)
    elif "Error: Deadlock reached" in out:
        r.violated = "deadlock"
    elif re.search(r"Error: Temporal properties were violated", out):
        r.violated = "temporal"
    elif re.search(r"Error: Action property .* is violated", out):
        r.violated = "actionprop"
    m2 = re.search(r"Error: The postcondition.*|Error: Evaluating postcondition.*|Error: Postcondition.*", out)
    if m2 and not r.violated:
        r.violated = "postcondition"
    if r.violated:
        r.trace = parse_cex(out)
    hard = re.search(r"(Parsing or semantic analysis failed|Error: TLC threw an unexpected exception|"
                     r"java\.lang\.\w+Error|Error: The .* could not be evaluated|was not found in|Error: In evaluation|"
                     r"Error: Attempted to|Error: TLC encountered|Unknown operator|Error: The spec)", out)
    finished = "Model checking completed. No error has been found." in out or \
               (simulate and "Simulation" in out) or "Finished in" in out
    if hard and not r.violated:
        raise ToolError(f"TLC error in {module} {cfg}:\n" + out[-3000:])
    if not simulate and not r.violated and not re.search(r"\d+ states generated", out):
        # TLC ended without exploring anything and without a verdict (out of memory during Init, a constant the
        # configuration does not assign, ...): never a pass
        m3 = re.search(r"Error: .*", out)
        raise ToolError(f"TLC explored no state in {module} {cfg}: {m3.group(0) if m3 else out[-600:]}")
    if hard and r.violated and "Error: The" in (hard.group(0)):
        pass
    r.ok = r.violated is None and finished
    if not r.ok and r.violated is None:
        raise ToolError(f"TLC did not finish: {module} {cfg}:\n" + out[-3000:])
    return r


def parse_cex(out):
    """Counter-example as list of dicts {label, text, vars{name: text}}."""
    states = []
    cur = None
    for line in out.splitlines():
        m = re.match(r"^State (\d+): <(.*)>$", line) or re.match(r"^State (\d+): (Stuttering)", line)
        if m:
            cur = {"n": int(m.group(1)), "label": m.group(2), "text": "", "vars": {}}
            states.append(cur)
            continue
        if cur is not None:
            if line.strip() == "" and cur["text"]:
                cur = None
                continue
            if line.startswith("/\\ "):
                mm = re.match(r"^/\\ (\w+) = (.*)$", line)
                if mm:
                    cur["vars"][mm.group(1)] = mm.group(2)
                    cur["last"] = mm.group(1)
            elif cur.get("last"):
                cur["vars"][cur["last"]] += " " + line.strip()
            cur["text"] += line + "\n"
    for s in states:
        s.pop("last", None)
        lab = s["label"]
        mm = re.match(r"^(\w+)(\(.*\))? line", lab)
        s["action"] = (mm.group(1) + (mm.group(2) or "")) if mm else lab
    return states


def run_apalache(module, args, timeout=1800):
    """apalache-mc check on spec/<module>.tla (in a scratch copy: Apalache writes _apalache-out next to the spec).
    Returns (ok, outcome_text)."""
    d = scratch_spec({})
    out = os.path.join(d, "_apa")
    try:
        p = sh(["apalache-mc", "check", f"--out-dir={out}"] + list(args) + [module + ".tla"], cwd=d, timeout=timeout,
               env={"JVM_ARGS": "-Xmx4g"})
    except subprocess.TimeoutExpired:
        raise ToolError(f"apalache timeout after {timeout}s: {module} {args}")
    m = re.search(r"The outcome is: (\w+)", p.stdout)
    if not m:
        raise ToolError("apalache produced no outcome:\n" + p.stdout[-2000:])
    return m.group(1) == "NoError", m.group(1)


def sany(module):
    p = sh(["java", "-Djava.io.tmpdir=" + os.path.join(PWORK, "tmp"), "-cp", JAR, "tla2sany.SANY", module + ".tla"], cwd=SPEC, timeout=120)
    return ("Semantic errors" not in p.stdout and "rror" not in p.stdout.replace("errors: 0", "")), p.stdout


def validate_trace(module, cfg, trace_path, timeout=300, heap="2g", extra_env=None, cwd=None):
    """Trace validation: TLC on a Trace_* module with IOEnv.TRACE. Returns (accepted, reached, total, TlcResult)."""
    env = {"TRACE": os.path.abspath(trace_path)}
    if extra_env:
        env.update(extra_env)
    try:
        r = run_tlc(module, cfg, workers=1, timeout=timeout, env=env, coverage=False, heap=heap, deque=True, cwd=cwd, xss="512m")
    except ToolError as e:
        raise
    reached = total = None
    m = re.search(r'TRACE-REACHED", (\d+), "OF", (\d+)', r.out)
    if m:
        reached, total = int(m.group(1)), int(m.group(2))
    accepted = r.violated is None and (reached is None or reached == total)
    return accepted, reached, total, r


def tla_seq(xs):
    return "<<" + ",".join(('"%s"' % x) if isinstance(x, str) else str(x) for x in xs) + ">>"


def tla_set(xs):
    return "{" + ",".join(('"%s"' % x) if isinstance(x, str) else str(x) for x in xs) + "}"


def write_model(base, consts, spec="Spec", invariants=(), properties=(), postcondition=None, extra_defs="",
                seq_consts=(), deadlock=False, constraint=None, view=None, mod="MCgen"):
    """Generates an MC wrapper module extending `base` plus its .cfg in a scratch directory.
    consts: {name: TLA+ text}; names listed in seq_consts (or whose value is a python list/tuple) are defined in
    the wrapper and substituted with `<-` (TLC .cfg files accept neither tuples nor negative numbers).
    Returns (dir, module, cfg)."""
    defs = []
    lines = [f"SPECIFICATION {spec}", "CONSTANTS"]
    for k, v in consts.items():
        if k in seq_consts or isinstance(v, (list, tuple)):
            txt = tla_seq(v) if isinstance(v, (list, tuple)) else v
            defs.append(f"K_{k} == {txt}")
            lines.append(f" {k} <- K_{k}")
        else:
            lines.append(f" {k} = {v}")
    if invariants:
        lines.append("INVARIANTS " + " ".join(invariants))
    if properties:
        lines.append("PROPERTIES " + " ".join(properties))
    if constraint:
        lines.append("CONSTRAINT " + constraint)
    if view:
        lines.append("VIEW " + view)
    if postcondition:
        lines.append("POSTCONDITION " + postcondition)
    lines.append("CHECK_DEADLOCK " + ("TRUE" if deadlock else "FALSE"))
    text = f"---- MODULE {mod} ----\nEXTENDS {base}\n" + "\n".join(defs) + "\n" + extra_defs + "\n====\n"
    d = scratch_spec({mod + ".tla": text, mod + ".cfg": "\n".join(lines) + "\n"})
    return d, mod, mod + ".cfg"


def validate_events(trace_module, consts, events, invariants=("Track",), timeout=600, seq_consts=()):
    """Trace validation of a list of event dicts (or JSON strings) against spec/<trace_module>.tla, which must
    follow the conventions of Trace_MtReader.tla (Rec == ndJsonDeserialize(IOEnv.TRACE), TSpec, Track, Accepted
    printing TRACE-REACHED). Returns (accepted, reached, total, TlcResult)."""
    d, mod, cfg = write_model(trace_module, consts, spec="TSpec", invariants=invariants, postcondition="Accepted",
                              seq_consts=seq_consts)
    tp = os.path.join(d, "trace.ndjson")
    with open(tp, "w") as f:
        for e in events:
            f.write((e if isinstance(e, str) else json.dumps(e)) + "\n")
    return validate_trace(mod, cfg, tp, cwd=d, timeout=timeout)


# --------------------------------------------------------------------------- harness
_built = {}


_TWIN_RE = re.compile(r"#\[cfg\((not\()?lzma_rust2_verif\)?\)\]\n(?:#\[cfg\(feature = \"std\"\)\]\n)?fn set_error\((.*?)\) \{\n(.*?)\n\}\n", re.S)


def sync_logic_twins():
    """Hook H2 needs a cfg twin of `set_error` (src/lib.rs) because its parameter types name std::sync; the twin's
    BODY is a copy of production logic. If the two bodies ever differ (someone edited only the production copy),
    the instrumented build would not represent the code: in that case build against a scratch copy of the
    repository in which the twin's body is replaced by the production body."""
    global REPO
    src = open(os.path.join(REPO, "src", "lib.rs")).read()
    found = {("verif" if m.group(1) is None else "prod"): m for m in _TWIN_RE.finditer(src)}
    if "verif" not in found or "prod" not in found:
        return
    norm = lambda b: re.sub(r"\s+", " ", b).strip()
    if norm(found["verif"].group(3)) == norm(found["prod"].group(3)):
        return
    log("[twins] set_error: production body differs from the cfg twin; building against a re-synced scratch copy")
    scratch = os.path.join(PWORK, "twinsync", "repo")
    os.makedirs(scratch, exist_ok=True)
    p = sh(["rsync", "-a", "--delete", "--exclude", "target", "--exclude", ".git", REPO + "/", scratch + "/"])
    if p.returncode != 0:
        raise ToolError("rsync for twin sync failed: " + p.stdout)
    m = found["verif"]
    new = src[:m.start(3)] + found["prod"].group(3) + src[m.end(3):]
    open(os.path.join(scratch, "src", "lib.rs"), "w").write(new)
    REPO = scratch


def build_harness(features=None, target=None):
    """cargo build --release of the harness against /repo's working tree. Returns bin dir."""
    key = (tuple(features or ()), target)
    if key in _built:
        return _built[key]
    if not _built:
        sync_logic_twins()
    cmd = ["cargo", "build", "--release", "--offline"]
    env = {"CARGO_NET_OFFLINE": "true"}
    hdir = HARNESS
    if REPO != "/repo":
        # shadow copy of the harness with its path dependency pointing at the scratch repository
        hdir = os.path.join(os.path.dirname(REPO), "vh_shadow")
        os.makedirs(hdir, exist_ok=True)
        p = sh(["rsync", "-a", "--delete", "--exclude", "target", HARNESS + "/", hdir + "/"])
        if p.returncode != 0:
            raise ToolError("rsync of harness failed: " + p.stdout)
        ct = open(os.path.join(hdir, "Cargo.toml")).read().replace('path = "/repo"', f'path = "{REPO}"')
        open(os.path.join(hdir, "Cargo.toml"), "w").write(ct)
    tdir = os.path.join(hdir, "target")
    if target:
        tdir = os.path.join(hdir, "target", "alt_" + target)
        cmd += ["--target-dir", tdir]
    if features is not None:
        cmd += ["--no-default-features"]
        if features:
            cmd += ["--features", ",".join(features)]
    t0 = time.time()
    p = sh(cmd, cwd=hdir, env=env, timeout=1800)
    if p.returncode != 0:
        raise ToolError("harness build failed:\n" + p.stdout[-6000:])
    log(f"[build] harness {key} built in {time.time()-t0:.1f}s")
    _built[key] = os.path.join(tdir, "release")
    return _built[key]


def run_bin(name, args=(), input=None, timeout=600, features=None, target=None, env=None):
    bindir = build_harness(features, target)
    try:
        p = subprocess.run([os.path.join(bindir, name)] + list(args), input=input, timeout=timeout,
                           stdout=subprocess.PIPE, stderr=subprocess.PIPE, text=True,
                           env=dict(os.environ, **(env or {})))
    except subprocess.TimeoutExpired:
        raise ToolError(f"harness binary {name} timed out after {timeout}s")
    return p


def run_bin_parallel(name, jobs, timeout=900, nproc=None, features=None, target=None, env=None):
    """jobs: list of (args, input_text). Runs up to nproc processes at a time. Returns list of CompletedProcess."""
    bindir = build_harness(features, target)
    os.makedirs(os.path.join(PWORK, "tmp"), exist_ok=True)
    nproc = nproc or min(NCPU, 14)
    procs = []
    results = [None] * len(jobs)
    pending = list(enumerate(jobs))
    running = []
    t_end = time.time() + timeout
    import tempfile
    while pending or running:
        while pending and len(running) < nproc:
            i, (args, inp) = pending.pop(0)
            fin = tempfile.TemporaryFile(mode="w+", dir=os.path.join(PWORK, "tmp"))
            if inp:
                fin.write(inp)
                fin.flush()
                fin.seek(0)
            fout = tempfile.TemporaryFile(mode="w+", dir=os.path.join(PWORK, "tmp"))
            ferr = tempfile.TemporaryFile(mode="w+", dir=os.path.join(PWORK, "tmp"))
            p = subprocess.Popen([os.path.join(bindir, name)] + list(args), stdin=fin, stdout=fout, stderr=ferr,
                                 env=dict(os.environ, **(env or {})))
            running.append((i, p, fin, fout, ferr))
        still = []
        for (i, p, fin, fout, ferr) in running:
            rc = p.poll()
            if rc is None:
                if time.time() > t_end:
                    p.kill()
                    raise ToolError(f"harness binary {name} job {i} timed out")
                still.append((i, p, fin, fout, ferr))
            else:
                fout.seek(0)
                ferr.seek(0)
                results[i] = subprocess.CompletedProcess(p.args, rc, fout.read(), ferr.read())
                fin.close(); fout.close(); ferr.close()
        running = still
        if running:
            time.sleep(0.01)
    return results


# --------------------------------------------------------------------------- check context
class Check:
    def __init__(self, pid, tier, level, seed=None):
        self.pid = pid
        self.tier = tier
        self.level = level
        self.seed = int(seed if seed is not None else os.environ.get("VERIF_SEED", "20260923"))
        self.t0 = time.time()
        self.violations = []
        self.known_hits = []
        self.drift = []
        self.cov = {"samples": []}
        self.assumptions = []
        self.known = [k for k in load_known() if k.get("property") == pid]
        os.makedirs(os.path.join(PWORK, "tmp"), exist_ok=True)
        os.makedirs(EVID, exist_ok=True)
        os.makedirs(REPLAYS, exist_ok=True)
        self.tlc_runs = []

    # ---- accounting helpers
    def add(self, key, n=1):
        self.cov[key] = self.cov.get(key, 0) + n

    def sample(self, s, cap=6):
        if len(self.cov["samples"]) < cap:
            self.cov["samples"].append(s)

    def note_tlc(self, name, r):
        self.tlc_runs.append({"run": name, "generated": r.states, "distinct": r.distinct, "depth": r.depth,
                              "violated": r.violated, "wall_s": round(r.wall, 1)})
        self.add("states", r.distinct)
        self.add("transitions", r.states)

    def tlc(self, module, cfg, name=None, expect_ok=True, **kw):
        r = run_tlc(module, cfg, **kw)
        self.note_tlc(name or f"{module}/{cfg}", r)
        log(f"[tlc] {module} {cfg}: {r}")
        if expect_ok and not r.ok:
            # a design-level counter-example on the as-built configuration is a model/tool matter unless
            # reproduced on the implementation; callers that expect counter-examples pass expect_ok=False
            raise ToolError(f"TLC reported {r.violated} for {module} {cfg} (as-built design should satisfy it):\n" +
                            "\n".join(f"  {s['n']}: {s['action']}" for s in r.trace[-40:]))
        return r

    def require_coverage(self, r, actions, what=""):
        missing = [a for a in actions if r.coverage.get(a, (0, 0))[0] == 0]
        if missing:
            raise ToolError(f"vacuous TLC run {what}: actions never taken: {missing}")

    # ---- verdicts
    def violation(self, what, sig, replay):
        """sig: dict identifying the failing class; replay: json-serialisable scenario."""
        for k in self.known:
            if k.get("status") == "known" and all(sig.get(a) == b for a, b in k["match"].items()):
                if k["id"] not in [h["id"] for h in self.known_hits]:
                    self.known_hits.append({"id": k["id"], "what": k["what"], "count": 1})
                else:
                    for h in self.known_hits:
                        if h["id"] == k["id"]:
                            h["count"] += 1
                return False
        key = json.dumps(sig, sort_keys=True)
        for v in self.violations:
            if v["key"] == key:
                v["count"] += 1
                return True
        h = hashlib.sha1((key + json.dumps(replay, sort_keys=True, default=str)).encode()).hexdigest()[:10]
        path = os.path.join(REPLAYS, f"{self.pid}_{h}.json")
        with open(path, "w") as f:
            json.dump({"property": self.pid, "what": what, "sig": sig, "seed": self.seed, "tier": self.tier,
                       "replay": replay}, f, indent=1, default=str)
        self.violations.append({"key": key, "what": what, "sig": sig, "path": path, "count": 1})
        return True

    def note_drift(self, what):
        if len(self.drift) < 20:
            self.drift.append(what)
        self.add("drift")

    def finish(self, extra=None):
        wall = time.time() - self.t0
        cov = dict(self.cov)
        if extra:
            cov.update(extra)
        cov["tlc_runs"] = self.tlc_runs
        cov["known_findings_hit"] = self.known_hits
        cov["drift_notes"] = self.drift
        if not cov.get("samples"):
            cov["samples"] = ["(none recorded)"]
        ev = {"property_id": self.pid, "tier": self.tier, "seed": self.seed, "level": self.level,
              "coverage": cov, "assumptions": self.assumptions, "wall_s": round(wall, 1),
              "violations": len(self.violations)}
        with open(os.path.join(EVID, f"{self.pid}.json"), "w") as f:
            json.dump(ev, f, indent=1, default=str)
        for d in self.drift[:5]:
            print(f"DRIFT: property={self.pid} {d}")
        for h in self.known_hits:
            print(f"KNOWN-FINDING: property={self.pid} {h['id']}: {h['what']} (x{h['count']})")
        for v in self.violations:
            print(f"VIOLATION property={self.pid} replay={v['path']}")
            print(f"  what: {v['what']} (x{v['count']})")
        clean_work()
        print(f"[{self.pid}] {self.tier}: violations={len(self.violations)} known={len(self.known_hits)} wall={wall:.1f}s")
        sys.exit(1 if self.violations else 0)


def load_known():
    out = []
    for p in [os.path.join(VERIF, "known_findings.json")] + sorted(glob.glob(os.path.join(VERIF, "known_findings.d", "*.json"))):
        if os.path.exists(p):
            with open(p) as f:
                out += json.load(f).get("findings", [])
    return out


def clean_work():
    shutil.rmtree(PWORK, ignore_errors=True)


def main_wrapper(fn):
    try:
        fn()
    except ToolError as e:
        print(f"TOOL-ERROR: {e}", file=sys.stderr)
        clean_work()
        sys.exit(2)
    except SystemExit:
        raise
    except BaseException:
        # a crash of the machinery is never a verdict
        import traceback
        traceback.print_exc()
        print("TOOL-ERROR: unexpected exception in the check (see traceback)", file=sys.stderr)
        clean_work()
        sys.exit(2)
