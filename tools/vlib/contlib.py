"""Container checks of group A (C02 C03 C12 C16 C18): TLC model checking of XzContainer / LzipContainer /
Lzma2Chunks / LzmaAlone, export of TLC behaviours as scenarios that vh_cont concretises into real calls, and
TLC validation of the records an independent strict parser extracts from the files the real writers produce."""
import json, os, re, random, collections, time
from concurrent.futures import ThreadPoolExecutor
from . import core
from .core import log, ToolError

ASBUILT_FILE = os.path.join(core.VERIF, "spec", "asbuilt_cont.json")
# what the current tree does (justified by the implementation-shaped trace pass: a wrong value leaves traces unexplained)
ASBUILT = json.load(open(ASBUILT_FILE))
REPAIRED = {"IndexCountsHeader": "TRUE", "EmptyInputWritesBlock": "FALSE", "BlockLimitPerByte": "TRUE",
            "MagicTestInverted": "FALSE", "DictByteRoundsUp": "TRUE", "UncClearsForce": "TRUE", "ReaderChecksIndex": "TRUE", "EofPaddingChecked": "TRUE"}
# the historical defects as regressed designs: (constant, regressed value, what)
REGRESSIONS = {
    "IndexCountsHeader": ("FALSE", "XZ index 'unpadded size' omits the block header (D5)"),
    "EmptyInputWritesBlock": ("TRUE", "XZWriter::finish without a block writes a check and an index record (D3)"),
    "BlockLimitPerByte": ("FALSE", "XZWriter::write tests the block limit once per call (D17)"),
    "MagicTestInverted": ("TRUE", "try_start_next_stream rejects the stream magic (D14)"),
    "DictByteRoundsUp": ("FALSE", "lzip dictionary-size byte rounds the size down (D4)"),
    "UncClearsForce": ("FALSE", "write_uncompressed leaves force_independent_chunk set (D2)"),
    "EofPaddingChecked": ("FALSE", "stream padding of 1-3 bytes followed by the end of the input is accepted"),
}

CHECK_NAME = {0: "none", 1: "crc32", 4: "crc64", 10: "sha256"}
CHECK_ID = {v: k for k, v in CHECK_NAME.items()}
UNIT = 2048            # bytes per abstract unit of uncompressed data
DICT_UNITS = 2         # dictionary = 4096 bytes
XZV = ("IndexCountsHeader", "EmptyInputWritesBlock", "BlockLimitPerByte", "MagicTestInverted", "ReaderChecksIndex", "EofPaddingChecked")

# filter chains by the block header size they produce (flags 1 + filter flags + crc 4, rounded up to 4)
CHAINS = {
    12: [[], [{"t": "delta", "p": 1}], [{"t": "x86", "p": 0}], [{"t": "delta", "p": 4}], [{"t": "arm64", "p": 0}],
         [{"t": "delta", "p": 256}], [{"t": "riscv", "p": 0}]],
    16: [[{"t": "delta", "p": 2}, {"t": "x86", "p": 0}], [{"t": "arm", "p": 4096}], [{"t": "delta", "p": 3}, {"t": "delta", "p": 7}],
         [{"t": "powerpc", "p": 0}, {"t": "sparc", "p": 0}, {"t": "delta", "p": 1}]],
    20: [[{"t": "x86", "p": 16}, {"t": "delta", "p": 5}], [{"t": "ia64", "p": 32}, {"t": "armthumb", "p": 0}, {"t": "delta", "p": 9}]],
}


# how the sink accepts bytes: everything, or at most k bytes per write call (short writes are legal for io::Write)
SINK_CHUNKS = [[], [], [], [1], [3], [5], [7], [1, 3, 5, 7], [4096, 1]]


def xz_variant(over=None):
    c = {k: ASBUILT[k] for k in XZV}
    if over:
        c.update(over)
    return c


# --------------------------------------------------------------------------- running scenarios
def run_scenarios(scns, nproc=None, timeout=1500, binary="vh_cont"):
    if not scns:
        return []
    nproc = nproc or min(core.NCPU, 14)
    nb = max(1, min(nproc * 3, len(scns) // 8 + 1))
    batches = [[] for _ in range(nb)]
    for i, s in enumerate(scns):
        batches[i % nb].append((i, s))
    jobs = [([], "\n".join(json.dumps(s) for (_, s) in b) + "\n") for b in batches]
    res = core.run_bin_parallel(binary, jobs, timeout=timeout, nproc=nproc)
    out = [None] * len(scns)
    for b, r in zip(batches, res):
        lines = [x for x in r.stdout.splitlines() if x.strip()]
        if r.returncode != 0 or len(lines) != len(b):
            raise ToolError(f"{binary} failed rc={r.returncode}: got {len(lines)} of {len(b)} results\n{r.stderr[-2000:]}")
        for (i, _), line in zip(b, lines):
            out[i] = json.loads(line)
    return out


# --------------------------------------------------------------------------- TLC helpers
def printed_json(r, tag=None):
    """JSON values printed by PrintT(ToJson(x)) (TLC prints the string as a TLA+ string literal)."""
    out = []
    for l in r.printed:
        if not l.startswith('"'):
            continue
        try:
            v = json.loads(json.loads(l))
        except Exception:
            continue
        if tag is None or (isinstance(v, dict) and v.get("tag") == tag):
            out.append(v)
    return out


def tviol(r):
    """(invariant, run id) pairs printed by the property-level trace invariants."""
    out = []
    for l in r.out.splitlines():
        m = re.match(r'^<<"TVIOL", "(\w+)", "([^"]*)">>', l)
        if m:
            out.append((m.group(1), m.group(2)))
    return out


EXPORT_XZ = r'''
StreamJ(s) == [check |-> s.check, limit |-> s.limit, dict |-> s.dict, hsize |-> s.hsize, units |-> s.units, calls |-> s.calls,
               us |-> BlockUs(s.recs, 1), nrec |-> Len(s.recs), wf |-> WellFormedF(s.recs), vli |-> VliClasses(s.recs)]
Scn(t) == [tag |-> t, streams |-> [i \in 1..Len(streams) |-> StreamJ(streams[i])], pads |-> pads, trail |-> trail, multi |-> rd.multi,
           st |-> rd.st, out |-> rd.out, pos |-> rd.pos, nstreams |-> rd.nstreams, phase |-> phase]
Export == (phase = "done") => PrintT(ToJson(Scn("scn")))
ExportW == (phase = "env") => PrintT(ToJson(Scn("scn")))
Cex(P) == P \/ (PrintT(ToJson(Scn("cex"))) /\ FALSE)
XWellFormed == Cex(WellFormed)
XContent == Cex(Content)
XSizeLimit == Cex(SizeLimit)
XBlocksFull == Cex(BlocksFull)
XRoundTrip == Cex(RoundTrip)
XConcat == Cex(Concat)
XConsumesExactly == Cex(ConsumesExactly)
'''


def xz_consts(variant=None, **kw):
    c = dict(CheckIds="{0,1}", LimitOpts="{0,1,3}", DictUnits=str(DICT_UNITS), HSizes="{12}", CSizes="{5,6,7,8}", MaxUnits="4",
             MaxWrite="4", MaxBlocks="3", AllowFlush="FALSE", MaxStreams="1", Pads="{0}", Trailings='{"none"}',
             Multis="{FALSE,TRUE}", VliBase="128")
    c.update(xz_variant(variant))
    c.update({k: str(v) for k, v in kw.items()})
    return c


def xz_model(consts, invariants, workers=4, timeout=900, coverage=True):
    d, mod, cfg = core.write_model("XzContainer, Json", consts, invariants=invariants, extra_defs=EXPORT_XZ)
    return core.run_tlc(mod, cfg, workers=workers, cwd=d, timeout=timeout, coverage=coverage)


# --------------------------------------------------------------------------- concretisation (XZ)
def chain_for(hsize, rnd):
    return rnd.choice(CHAINS[hsize])


def data_class_for(chain, rnd):
    # BCJ filters only change bytes that look like branch instructions; use classes that contain them sometimes
    return rnd.choice(["text", "seq", "periodic", "lowent", "mixed", "zeros"])


def xz_write_scn(sid, st, rnd, reads=None, unit=UNIT):
    """One abstract stream (as exported by StreamJ) -> vh_cont scenario of family xz_write."""
    chain = chain_for(st["hsize"], rnd)
    calls = []
    for (op, n) in st["calls"]:
        if op == "w":
            calls.append({"op": "write", "n": n * unit})
        elif op == "f":
            calls.append({"op": "flush"})
        else:
            calls.append({"op": "finish"})
    opt = {"preset": rnd.choice([0, 1, 3, 6]), "dict": st.get("dict", DICT_UNITS) * unit, "check": CHECK_NAME[st["check"]], "filters": chain}
    if st["limit"]:
        opt["limit"] = st["limit"] * unit
    return {"id": sid, "fam": "xz_write", "seed": rnd.getrandbits(32), "opt": opt, "class": data_class_for(chain, rnd),
            "calls": calls, "reads": reads or rnd.choice([[4096], [1], [7, 4096, 3], [65536], [1000]]),
            "sink_chunks": rnd.choice(SINK_CHUNKS), "abstract": st}


def xz_events(s, r):
    """Trace_XzContainer events of one xz_write run (or of any parsed .xz file with the same result fields)."""
    recs = r.get("recs") or []
    cz = [x["csize"] for x in recs if x["k"] == "Data"]
    bh = [x["hsize"] for x in recs if x["k"] == "BH"]
    opt = s["opt"]
    ev = [{"ev": "Reset", "id": s["id"], "check": CHECK_ID[opt.get("check") or "crc64"], "limit": opt.get("limit") or 0,
           "dict": opt.get("dict") or 0, "hsize": bh[0] if bh else 12, "cz": cz}]
    for c in r.get("calls", []):
        if c["op"] == "write" and c["ok"]:
            if c["n"] > 0:
                ev.append({"ev": "Write", "n": c["n"]})
        elif c["op"] == "flush":
            ev.append({"ev": "Flush"})
        elif c["op"] == "finish":
            ev.append({"ev": "Finish"})
    for x in recs:
        e = {"ev": "Rec"}
        for k, v in x.items():
            if k in ("at", "fprops", "filters", "why", "first", "ctrls"):
                continue
            e[k] = (False if v is None else v)
        ev.append(e)
    rt, rf = r["rt"], r["ref"]
    ev.append({"ev": "End", "rt_ok": bool(rt["ok"]), "rt_equal": bool(rt["cmp"]["equal"]), "ref_ok": bool(rf["ok"]),
               "ref_equal": bool(rf["equal"]), "consumed": r["consumed"], "stream_len": r["file_len"], "input_len": r["input_len"]})
    return ev


def validate(trace_module, consts, events, invariants, shaped, timeout=900):
    """One TLC pass over a batch of runs. Returns (accepted, reached, total, TlcResult, [(invariant, run id)])."""
    c = dict(consts)
    c["Shaped"] = "TRUE" if shaped else "FALSE"
    d, mod, cfg = core.write_model(trace_module, c, spec="TSpec", invariants=["Track"] + list(invariants), postcondition="Accepted")
    tp = os.path.join(d, "trace.ndjson")
    with open(tp, "w") as f:
        for e in events:
            f.write(json.dumps(e) + "\n")
    env = {"TRACE": tp}
    r = core.run_tlc(mod, cfg, workers=1, timeout=timeout, env=env, coverage=False, heap="4g", deque=True, cwd=d,
                     xss="512m")
    reached = total = None
    m = re.search(r'TRACE-REACHED", (\d+), "OF", (\d+)', r.out)
    if m:
        reached, total = int(m.group(1)), int(m.group(2))
    tv = tviol(r)
    accepted = (reached is not None and reached == total)
    return accepted, reached, total, r, tv


TRACE_CONSTS_XZ = dict(CheckIds="{0}", LimitOpts="{0}", DictUnits="1", HSizes="{12}", CSizes="{5}", MaxUnits="2000000000",
                       MaxWrite="1", MaxBlocks="1000000", AllowFlush="TRUE", MaxStreams="1", Pads="{0}", Trailings='{"none"}',
                       Multis="{FALSE}", VliBase="128")


def trace_consts_xz(variant=None):
    c = dict(TRACE_CONSTS_XZ)
    c.update(xz_variant(variant))
    return c


class Judge:
    """Collects verdicts of several properties from the same runs; a check reports only its own."""

    def __init__(self, ctx, props):
        self.ctx = ctx
        self.props = set(props)
        self.sibling = collections.Counter()
        self.classes = set()
        self.nruns = 0

    def violation(self, pid, what, sig, replay):
        if pid in self.props:
            self.ctx.violation(what, sig, replay)
        else:
            self.sibling[pid] += 1


def strip(s):
    t = {k: v for k, v in s.items() if k != "abstract"}
    return t


def filt_class(opt):
    ts = [f["t"] for f in opt.get("filters", [])]
    if not ts:
        return "nofilter"
    return "+".join("bcj" if t != "delta" else "delta" for t in ts)


def xz_sig(s):
    """Identifies the failing input class of an XZ writer run (subset-matched by known findings)."""
    opt = s["opt"]
    ts = [f["t"] for f in opt.get("filters", [])]
    nwrites = sum(1 for c in s["calls"] if c["op"] == "write")
    total = sum(c.get("n", 0) for c in s["calls"] if c["op"] == "write")
    return {"family": "xz_write", "empty": total == 0, "limit": "set" if opt.get("limit") else "none",
            "multi_write": nwrites > 1, "bcj": any(t != "delta" for t in ts), "delta": "delta" in ts}


def judge_xz_write(j, s, r, predicted=None, source="tlc-scn"):
    """Property-level oracles of one xz_write run. predicted: the abstract stream of the model (block sizes)."""
    opt = s["opt"]
    nwrites = sum(1 for c in s["calls"] if c["op"] == "write")
    total = sum(c.get("n", 0) for c in s["calls"] if c["op"] == "write")
    base = xz_sig(s)
    rep = {"scenario": strip(s), "source": source}
    j.nruns += 1
    if r["outcome"] != "ok":
        j.violation("C02", f"XZWriter failed on valid input: {r['outcome']} {r.get('err') or r.get('calls')}", dict(base, outcome=r["outcome"]), rep)
        return
    if any(not c["ok"] for c in r["calls"]):
        j.violation("C02", f"XZWriter call failed without any fault: {[c for c in r['calls'] if not c['ok']]}", dict(base, outcome="call_err"), rep)
        return
    us = [x["usize"] for x in r["recs"] if x["k"] == "Data"]
    j.classes.add(("xz_write", opt.get("check"), filt_class(opt), base["limit"], "empty" if total == 0 else ("1w" if nwrites == 1 else "nw"), len(us)))
    rt = r["rt"]
    if not (rt["ok"] and rt["cmp"]["equal"]):
        j.violation("C02", f"XZ file written by the crate is not decoded back by XZReader: {rt['err'] or 'wrong bytes'} (got {rt['cmp']['len']} of {r['input_len']} bytes)",
                    dict(base, outcome="roundtrip"), rep)
    if r.get("sink_equal") is False:
        j.violation("C02", f"XZWriter output into a sink that accepts at most {s.get('sink_chunks')} bytes per write() differs from the output into a Vec",
                    dict(base, outcome="short_write_sink"), rep)
    rf = r["ref"]
    if not (rf["ok"] and rf["equal"]):
        j.violation("C03", f"liblzma does not accept / reproduce the .xz file written by the crate: {rf['err'] or 'wrong bytes'}",
                    dict(base, outcome="ref_reject"), rep)
    if rt["ok"] and r["consumed"] != r["file_len"]:
        j.violation("C16", f"XZReader consumed {r['consumed']} bytes of a {r['file_len']}-byte stream", dict(base, outcome="consumed"), rep)
    lim = opt.get("limit")
    if lim:
        eff = max(lim, opt.get("dict") or 0)
        if any(u > eff for u in us):
            j.violation("C18", f"XZ block of {max(us)} bytes with block_size {lim} (dictionary {opt.get('dict')})",
                        dict(base, outcome="block_size"), rep)
    if predicted is not None:
        want = [u * UNIT for u in predicted["us"]]
        if us != want and r.get("strict_bad") is False:
            return f"block sizes {us} differ from the model's {want}"
    return None


# --------------------------------------------------------------------------- XZ writer family (C02 C03 C16 C18)
XZ_INV = ["TypeOK", "XWellFormed", "XContent", "XSizeLimit", "XBlocksFull", "XRoundTrip", "XConsumesExactly"]


def cex_scenarios(r):
    return printed_json(r, "cex")


def family_xz(ctx, j, quick, rnd, pool, cap=None, nrand=None):
    """Stages 1-3 for the XZ writer (single stream): design check, TLC behaviours replayed, traces validated."""
    t0 = time.time()
    # ---- stage 1: the as-built design, all properties; in parallel the regressed designs (probes) and the export run
    design_c = xz_consts(CheckIds="{0,1}" if quick else "{0,1,4,10}", HSizes="{12}" if quick else "{12,16}",
                         CSizes="{5,6,7}" if quick else "{5,6,7,8}", MaxUnits="3" if quick else "4", MaxWrite="3" if quick else "4")
    f_design = pool.submit(xz_model, design_c, XZ_INV, 2 if quick else 6)
    export_c = xz_consts(CheckIds="{0,1,4,10}", LimitOpts="{0,1,2,3}", HSizes="{12,16,20}" if not quick else "{12,16}", CSizes="{5}",
                         MaxUnits="4" if quick else "5", MaxWrite="4" if quick else "5", MaxBlocks="3" if quick else "4",
                         AllowFlush="TRUE", Multis="{FALSE}")
    f_export = pool.submit(xz_model, export_c, ["ExportW"], 2, 900, False)
    probes = []
    for k in ("IndexCountsHeader", "EmptyInputWritesBlock", "BlockLimitPerByte"):
        val, what = REGRESSIONS[k]
        if ASBUILT[k] != val:
            pc = xz_consts({k: val}, CheckIds="{1}", CSizes="{5,6}")
            probes.append((k, what, pool.submit(xz_model, pc, XZ_INV, 2, 600, False)))
    scns, meta = [], []
    r = f_design.result()
    ctx.note_tlc("XzContainer design (as built)", r)
    log(f"[tlc] XzContainer design: {r}")
    if r.ok:
        ctx.require_coverage(r, ["Finish", "RHeader", "RBlock", "RIndex", "RDone"], "XzContainer design")
    else:
        cx = cex_scenarios(r)
        if not cx:
            raise ToolError(f"XzContainer design: TLC reports {r.violated} without an exported counter-example\n{r.out[-2000:]}")
        for i, c in enumerate(cx[:3]):
            scns.append(xz_write_scn(f"cex-{r.violated}-{i}", c["streams"][-1], rnd))
            meta.append(("tlc-cex", c["streams"][-1], r.violated))
    for (k, what, f) in probes:
        pr = f.result()
        ctx.add("regression_models_checked")
        if pr.ok:
            raise ToolError(f"regressed design {k} does not violate any invariant: the probe is vacuous")
        for i, c in enumerate(cex_scenarios(pr)[:2]):
            scns.append(xz_write_scn(f"probe-{k}-{i}", c["streams"][-1], rnd))
            meta.append(("tlc-regression-cex:" + k, None, pr.violated))
            ctx.add("regression_probes")
    # ---- stage 2: every exported behaviour (write partition x limit x check x header size x flush x empty input)
    er = f_export.result()
    ctx.note_tlc("XzContainer scenario export", er)
    seen = set()
    exported = []
    for c in printed_json(er, "scn"):
        st = c["streams"][0]
        key = json.dumps([st["check"], st["limit"], st["hsize"], st["calls"]])
        if key not in seen:
            seen.add(key)
            exported.append(st)
    if len(exported) < 50:
        raise ToolError(f"scenario export produced only {len(exported)} behaviours")
    cap = cap or (700 if quick else 6000)
    if len(exported) > cap:
        # keep every empty-input / single-write behaviour, sample the rest
        must = [st for st in exported if len(st["calls"]) <= 2]
        rest = [st for st in exported if len(st["calls"]) > 2]
        if len(must) > cap // 2:
            must = rnd.sample(must, cap // 2)
        exported = must + rnd.sample(rest, min(len(rest), cap - len(must)))
    for i, st in enumerate(exported):
        scns.append(xz_write_scn(f"xz-{i}", st, rnd))
        meta.append(("tlc-scn", st, None))
    # ---- randomized driver: arbitrary byte sizes (not multiples of the unit), larger dictionaries, all presets
    nrand = nrand or (60 if quick else 600)
    for i in range(nrand):
        scns.append(random_xz_scn(f"xz-rand-{i}", rnd, quick))
        meta.append(("random", None, None))
    # BCJ pre-filters with a non-zero start offset at the filter's own alignment, one write (ours -> own reader / liblzma)
    for ci, chain in enumerate(REF_CHAINS_OFFSET):
        scns.append({"id": f"xz-bcjoff-{ci}", "fam": "xz_write", "seed": ci, "opt": {"preset": 0, "dict": 65536, "check": "crc32", "filters": chain},
                     "class": rnd.choice(["mixed", "random", "text"]), "calls": [{"op": "write", "n": 20000}, {"op": "finish"}], "reads": [4096]})
        meta.append(("directed", None, None))
    for i, d in enumerate([5000, 12345, 70000] if quick else [4097, 5000, 6145, 12345, 70000, 100000, 1500000]):
        scns.append({"id": f"xz-far-{d}", "fam": "xz_write", "seed": d, "opt": {"preset": rnd.choice([0, 6]), "dict": d, "check": "crc32", "filters": []},
                     "period": d - 3, "calls": [{"op": "write", "n": 3 * d}, {"op": "finish"}], "reads": [4096]})
        meta.append(("directed", None, None))
    res = run_scenarios(scns)
    log(f"[impl] xz_write: {len(scns)} runs of the real XZWriter/XZReader + liblzma in {time.time()-t0:.1f}s")
    ndiv = 0
    for s, r1, (src, st, inv) in zip(scns, res, meta):
        before = len(ctx.violations) + len(ctx.known_hits)
        div = judge_xz_write(j, s, r1, predicted=st if src == "tlc-scn" else None, source=src)
        if div:
            ndiv += 1
            if ndiv <= 3:
                ctx.note_drift(f"xz_write {s['id']}: {div}")
        if src == "tlc-cex":
            # a counter-example of the as-built design needs an implementation witness
            bad = (not r1.get("rt", {}).get("ok", False)) or (not r1.get("ref", {}).get("ok", False)) or r1.get("strict_bad") \
                or any(u > max(s["opt"].get("limit") or 1 << 60, s["opt"].get("dict") or 0) for u in [x["usize"] for x in r1.get("recs", []) if x["k"] == "Data"])
            if not bad:
                raise ToolError(f"TLC reports {inv} for the as-built XzContainer design but the implementation does not reproduce it "
                                f"({s['id']}): the model misrepresents the code")
    ctx.add("behaviours_replayed", len(exported))
    ctx.add("replay_divergences", ndiv)
    # ---- stage 3: traces of all runs, validated by TLC (property-level pass decides, shaped pass explains)
    runs = [(s, r1) for s, r1 in zip(scns, res) if r1.get("outcome") == "ok" and "recs" in r1]
    return scns, res, meta, runs


def random_xz_scn(sid, rnd, quick):
    # dictionary sizes that are and are not exactly representable in the LZMA2 dictionary-size property of the block header
    dict_size = rnd.choice([4096, 4096, 8192, 65536, 1 << 20, 5000, 12345, 70000, 100000])
    chain = rnd.choice(CHAINS[rnd.choice([12, 12, 16, 20])])
    total = rnd.choice([0, 1, 5, 100, 4095, 4096, 4097, 10000, 30000, 70000] + ([] if quick else [300000, 1 << 20]))
    calls = []
    left = total
    while left > 0:
        n = min(left, rnd.choice([1, 3, 100, 1000, 4096, 5000, 65536, left]))
        calls.append({"op": "write", "n": n})
        left -= n
        if rnd.random() < 0.15:
            calls.append({"op": "flush"})
    if rnd.random() < 0.1:
        calls.insert(0, {"op": "flush"})
    calls.append({"op": "finish"})
    opt = {"preset": rnd.choice([0, 1, 2, 4, 6, 9]), "dict": dict_size, "check": rnd.choice(list(CHECK_ID)), "filters": chain}
    if rnd.random() < 0.6:
        opt["limit"] = rnd.choice([1, 4096, 5000, 8192, 20000, 65536])
    # D1 (dict < 64 KiB + incompressible data after a window move) belongs to another group: keep small dictionaries on compressible data
    cls = rnd.choice(["text", "seq", "periodic", "lowent", "zeros"] + (["random", "mixed", "repeat_far"] if dict_size >= 65536 else []))
    s = {"id": sid, "fam": "xz_write", "seed": rnd.getrandbits(32), "opt": opt, "class": cls, "calls": calls,
         "reads": rnd.choice([[4096], [1], [7, 4096, 3], [65536], [1000]]), "sink_chunks": rnd.choice(SINK_CHUNKS)}
    if total > dict_size and not chain and rnd.random() < 0.6:
        # matches at a distance just below the dictionary size: the declared dictionary must cover the one the encoder used
        s["period"] = dict_size - rnd.randint(1, 16)
    return s


TRACE_INV = {"C02": ["TWellFormed", "TRoundTrip", "TContent"], "C03": ["TWellFormed", "TRef"], "C16": ["TConsumed"],
             "C18": ["TSizeLimit"]}
INV_PROP = {"WellFormed": ("C02", "C03"), "RoundTrip": ("C02",), "Content": ("C02",), "Ref": ("C03",), "Consumed": ("C16",),
            "SizeLimit": ("C18",)}


def validate_xz_runs(ctx, j, runs, pool, what="xz_write"):
    """Property-level pass (verdicts) and implementation-shaped pass (explanation) over the traces of `runs`."""
    if not runs:
        raise ToolError("no runs to validate")
    events = []
    index = {}
    for s, r1 in runs:
        index[s["id"]] = (s, r1)
        events.extend(xz_events(s, r1))
    invs = sorted(set(i for p in j.props for i in TRACE_INV.get(p, [])))
    trace_module, consts = "Trace_XzContainer", trace_consts_xz()
    fp = pool.submit(validate, trace_module, consts, events, invs, False)
    fs = pool.submit(validate, trace_module, consts, events, [], True)
    ok, reached, total, r, tv = fp.result()
    ctx.note_tlc(f"trace {what} (property level)", r)
    if not ok:
        raise ToolError(f"property-level trace pass did not consume the whole trace ({reached} of {total}):\n{r.out[-1500:]}")
    bad_runs = set()
    for (inv, rid) in tv:
        s, r1 = index[rid]
        bad_runs.add(rid)
        sig = dict(xz_sig(s), outcome="trace:" + inv)
        recs = [{k: v for k, v in x.items() if k in ("k", "hsize", "csize", "usize", "n", "recs", "backward", "why")} for x in r1["recs"]]
        for pid in INV_PROP[inv]:
            j.violation(pid, f"trace of the real writer rejected by the property-level spec Trace_XzContainer: invariant T{inv} "
                             f"violated on the file of run {rid}; strict-parser records {json.dumps(recs)[:600]}",
                        sig, {"scenario": strip(s), "source": "trace", "invariant": inv})
    ctx.cov["traces_validated_against_impl"] = ctx.cov.get("traces_validated_against_impl", 0) + len(runs) - len(bad_runs)
    ok2, reached2, total2, r2, _ = fs.result()
    ctx.note_tlc(f"trace {what} (implementation-shaped)", r2)
    evs = events
    unexplained = 0
    for attempt in range(4):
        if ok2:
            break
        # the run that could not be explained: report it as drift, drop it, validate the rest
        rid, start = "?", 0
        for i, e in enumerate(evs[:(reached2 or 0) + 1]):
            if e["ev"] == "Reset":
                rid, start = e["id"], i
        nxt = evs[reached2] if reached2 is not None and reached2 < len(evs) else "?"
        ctx.note_drift(f"Trace_{what} (as-built constants) cannot explain run {rid} at its event {reached2 - start}: next {json.dumps(nxt)[:300]}")
        unexplained += 1
        end = start + 1
        while end < len(evs) and evs[end]["ev"] != "Reset":
            end += 1
        evs = evs[:start] + evs[end:]
        if not evs or attempt == 3:
            break
        ok2, reached2, total2, r2, _ = validate(trace_module, consts, evs, [], True)
        ctx.note_tlc(f"trace {what} (implementation-shaped, retry)", r2)
    if ok2:
        ctx.add("traces_explained_by_asbuilt_design", len(runs) - unexplained)
    return bad_runs


# --------------------------------------------------------------------------- evidence / replay
def finish(ctx, j, scns, rule, extra=None):
    ctx.cov["evaluations"] = j.nruns
    ctx.cov["distinct_nontrivial"] = len(j.classes)
    ctx.cov["rule"] = rule
    ctx.cov["scenario_classes_sample"] = [list(x) for x in sorted(j.classes, key=str)[:40]]
    ctx.cov["violations_of_sibling_properties_seen"] = dict(j.sibling)
    ctx.cov.setdefault("traces_validated_against_impl", 0)
    for s in scns[:2] + scns[len(scns) // 2: len(scns) // 2 + 2] + scns[-2:]:
        ctx.sample(strip(s))
    if j.nruns == 0 or len(j.classes) < 2:
        raise ToolError("vacuous run: no scenario classes exercised")
    ctx.assumptions += [
        "TLC results hold for the stated small constants; byte-level fidelity is decided on the explored inputs only",
        "liblzma (static, via the liblzma crate) is the reference implementation; the strict parsers and the forge are cross-checked against it",
    ]
    if extra:
        ctx.cov.update(extra)
    ctx.finish()


JUDGES = {}


def run_replay(ctx, j, path):
    rp = json.load(open(path))
    s = rp["replay"]["scenario"]
    if rp["replay"].get("mt"):
        from . import mtlib
        r = mtlib.run_scenarios([s])[0]
        for (pid, what, sig) in mtlib.judge(s, r):
            j.violation(pid, what, sig, rp["replay"])
        print(json.dumps({k: v for k, v in r.items() if k != "log"})[:1500])
        ctx.cov.update({"evaluations": 1, "distinct_nontrivial": 1, "rule": "replay of one recorded MT scenario"})
        ctx.sample(s)
        return ctx.finish()
    if rp["replay"].get("isolated"):
        r = run_scenarios_isolated([s])[0]
        judge_long(j, s, r, source="replay")
        print(json.dumps({k: v for k, v in r.items() if k not in ("recs", "head")})[:1500])
        ctx.cov.update({"evaluations": 1, "distinct_nontrivial": 1, "rule": "replay of one recorded scenario"})
        ctx.sample(strip(s))
        return ctx.finish()
    r = run_scenarios([s])[0]
    fam = s["fam"]
    if fam not in JUDGES:
        raise ToolError(f"no judge for family {fam}")
    JUDGES[fam](j, s, r, source="replay")
    if rp["replay"].get("source") == "trace" and fam == "xz_write" and r.get("outcome") == "ok":
        from concurrent.futures import ThreadPoolExecutor
        validate_xz_runs(ctx, j, [(s, r)], ThreadPoolExecutor(max_workers=2))
    print(json.dumps({k: v for k, v in r.items() if k not in ("recs", "head")})[:1500])
    ctx.cov["evaluations"] = 1
    ctx.cov["distinct_nontrivial"] = 1
    ctx.cov["rule"] = "replay of one recorded scenario"
    ctx.sample(strip(s))
    ctx.finish()


JUDGES["xz_write"] = lambda j, s, r, source="replay": judge_xz_write(j, s, r, None, source)


# --------------------------------------------------------------------------- LZIP writer family (C02 C03 C12 C18)
EXPORT_LZ = r'''
ScnL(t) == [tag |-> t, dict |-> cfg.dict, limit |-> cfg.limit, far |-> cfg.far, calls |-> calls, members |-> MembersOf(Mine, 1),
            dictbyte |-> EncodeByte(cfg.dict), st |-> rd.st, out |-> rd.out, total |-> ws.total, phase |-> phase,
            hist |-> prev.hist, allmembers |-> MembersOf(file, 1)]
ExportL == (phase = "done") => PrintT(ToJson(ScnL("scn")))
CexL(P) == P \/ (PrintT(ToJson(ScnL("cex"))) /\ FALSE)
XWellFormed == CexL(WellFormed)
XContent == CexL(Content)
XSizeLimit == CexL(SizeLimit)
XMembersFull == CexL(MembersFull)
XScanOrder == CexL(ScanOrder)
XRoundTrip == CexL(RoundTrip)
'''
LZ_INV = ["TypeOK", "XWellFormed", "XContent", "XSizeLimit", "XMembersFull", "XScanOrder", "XRoundTrip"]


def lz_consts(variant=None, **kw):
    # (one huge write against a small member limit needs many members: 90000 / 4096 = 22)
    c = dict(Dicts="{4096,5000,65536,70000}", LimitOpts="{0,3000,6000,80000}", WriteSizes="{2500,6000,20000,90000}", MaxBytes="180000", MaxCalls="3", MaxFiles="1",
             MaxMembers="24", CSizes="{7}", Fars="{FALSE,TRUE}", DictByteRoundsUp=ASBUILT["DictByteRoundsUp"])
    if variant:
        c.update(variant)
    c.update({k: str(v) for k, v in kw.items()})
    return c


def lz_model(consts, invariants, workers=4, timeout=900, coverage=True):
    d, mod, cfg = core.write_model("LzipContainer, Json", consts, invariants=invariants, extra_defs=EXPORT_LZ)
    return core.run_tlc(mod, cfg, workers=workers, cwd=d, timeout=timeout, coverage=coverage)


def lz_write_scn(sid, a, rnd):
    calls = [{"op": "write", "n": n} if op == "w" else {"op": "finish"} for (op, n) in a["calls"]]
    if not calls or calls[-1]["op"] != "finish":
        calls.append({"op": "finish"})
    opt = {"preset": rnd.choice([0, 1, 4, 6]), "dict": a["dict"]}
    if a["limit"]:
        opt["limit"] = a["limit"]
    # lc / lp / pb of LZIPOptions::lzma_options are not LZIP options (the format fixes 3 / 0 / 2): whatever the caller sets must be
    # ignored (output identical to the default vector, decodable)
    if rnd.random() < 0.5:
        opt["lc"], opt["lp"], opt["pb"] = rnd.choice([(0, 0, 0), (3, 2, 2), (0, 4, 4), (4, 0, 0), (1, 1, 3), (3, 0, 0), (2, 2, 2)])
    s = {"id": sid, "fam": "lz_write", "seed": rnd.getrandbits(32), "opt": opt, "calls": calls,
         "reads": rnd.choice([[4096], [1], [7, 4096, 3], [65536]]), "sink_chunks": rnd.choice(SINK_CHUNKS), "abstract": a}
    if a.get("far"):
        s["period"] = a["dict"] - rnd.randint(1, 16)     # matches at a distance just below the dictionary size
    else:
        s["class"] = rnd.choice(["text", "seq", "lowent", "zeros", "mixed"])
    return s


def lz_sig(s):
    opt = s["opt"]
    total = sum(c.get("n", 0) for c in s["calls"] if c["op"] == "write")
    d = opt.get("dict") or 0
    # is the dictionary size exactly representable in the header byte?
    rep = any(d == (1 << b) - k * ((1 << b) // 16) for b in range(12, 30) for k in range(8))
    return {"family": "lz_write", "empty": total == 0, "limit": "set" if opt.get("limit") else "none",
            "dict_representable": rep, "far": bool(s.get("period"))}


def judge_lz_write(j, s, r, predicted=None, source="tlc-scn"):
    base = lz_sig(s)
    rep = {"scenario": strip(s), "source": source}
    j.nruns += 1
    if r["outcome"] != "ok" or any(not c["ok"] for c in r.get("calls", [])):
        j.violation("C02", f"LZIPWriter failed on valid input: {r['outcome']} {r.get('err') or r.get('calls')}", dict(base, outcome="call_err"), rep)
        return None
    ds = r.get("data_sizes") or []
    opt = s["opt"]
    j.classes.add(("lz_write", base["dict_representable"], base["far"], base["limit"], "empty" if base["empty"] else "data", len(ds)))
    rt, rf, mt = r["rt"], r["ref"], r["mt"]
    if not (rt["ok"] and rt["cmp"]["equal"]):
        j.violation("C02", f"LZIP file written by the crate (dict_size {opt.get('dict')}, header declares "
                           f"{[x.get('dict') for x in r['recs'] if x['k'] == 'Hdr'][:1]}) is not decoded back by LZIPReader: "
                           f"{rt['err'] or 'wrong bytes'} (got {rt['cmp']['len']} of {r['input_len']} bytes)", dict(base, outcome="roundtrip"), rep)
    if r.get("sink_equal") is False:
        j.violation("C02", f"LZIPWriter output into a sink that accepts at most {s.get('sink_chunks')} bytes per write() differs from the output into a Vec",
                    dict(base, outcome="short_write_sink"), rep)
    if r.get("lclppb_ignored") is False:
        j.violation("C02", f"LZIPWriter does not override lc/lp/pb = {opt.get('lc')}/{opt.get('lp')}/{opt.get('pb')} of lzma_options with the format's 3/0/2: "
                           f"the member differs from the one written with default options", dict(base, outcome="lclppb_not_overridden"), rep)
    if not (rf["ok"] and rf["equal"]):
        j.violation("C03", f"liblzma does not accept / reproduce the .lz file written by the crate (dict_size {opt.get('dict')}): {rf['err'] or 'wrong bytes'}",
                    dict(base, outcome="ref_reject"), rep)
    if rt["ok"] and rt["cmp"]["equal"] and not (mt.get("ok") and mt["cmp"]["equal"]):
        j.violation("C12", f"LZIPReaderMT does not return the members in order: {mt.get('err') or 'wrong bytes'}", dict(base, outcome="mt_order"), rep)
    if mt.get("ok") and r["input_len"] > 0 and not r.get("strict_bad") and mt.get("member_count") != len(ds):
        j.violation("C18", f"LZIPReaderMT::member_count() = {mt.get('member_count')} for a file of {len(ds)} members", dict(base, outcome="member_count"), rep)
    lim = opt.get("limit")
    if lim and ds and max(ds) > max(lim, min(max(opt.get("dict") or 0, 4096), 1 << 29)):
        j.violation("C18", f"LZIP member of {max(ds)} bytes with member_size {lim} (dictionary {opt.get('dict')})", dict(base, outcome="member_size"), rep)
    if predicted is not None and not r.get("strict_bad"):
        if ds != predicted["members"]:
            return f"member sizes {ds} differ from the model's {predicted['members']}"
        hb = [x["dictbyte"] for x in r["recs"] if x["k"] == "Hdr"]
        if hb and hb[0] != predicted["dictbyte"]:
            return f"dictionary byte {hb[0]} differs from the model's {predicted['dictbyte']}"
    return None


JUDGES["lz_write"] = lambda j, s, r, source="replay": judge_lz_write(j, s, r, None, source)


def lz_events(s, r):
    recs = r.get("recs") or []
    cz = [x["csize"] for x in recs if x["k"] == "Body"]
    opt = s["opt"]
    d = min(max(opt.get("dict") or 0, 4096), 1 << 29)
    ev = [{"ev": "Reset", "id": s["id"], "dict": d, "limit": opt.get("limit") or 0, "cz": cz}]
    for c in r.get("calls", []):
        if c["op"] == "write" and c["ok"]:
            if c["n"] > 0:
                ev.append({"ev": "Write", "n": c["n"]})
        elif c["op"] == "flush":
            ev.append({"ev": "Flush"})
        elif c["op"] == "finish":
            ev.append({"ev": "Finish"})
    for x in recs:
        e = {"ev": "Rec"}
        for k, v in x.items():
            if k in ("at", "why", "first_zero"):
                continue
            e[k] = (False if v is None else v)
        ev.append(e)
    rt, rf, mt = r["rt"], r["ref"], r["mt"]
    ev.append({"ev": "End", "rt_ok": bool(rt["ok"]), "rt_equal": bool(rt["cmp"]["equal"]), "ref_ok": bool(rf["ok"]),
               "ref_equal": bool(rf["equal"]), "mt_ok": bool(mt.get("ok")), "mt_equal": bool(mt.get("cmp", {}).get("equal")),
               "mt_members": mt.get("member_count", -1), "input_len": r["input_len"], "consumed": r["consumed"], "stream_len": r["file_len"]})
    return ev


def family_lzip(ctx, j, quick, rnd, pool, cap=None):
    t0 = time.time()
    f_design = pool.submit(lz_model, lz_consts(), LZ_INV, 2)
    f_export = pool.submit(lz_model, lz_consts(Dicts="{4096,4608,5000,65536,70000,131072}" if quick else "{4096,4097,4608,4609,5000,65536,70000,98304,131072}",
                                               WriteSizes="{2500,6000,20000,90000}" if quick else "{1,2500,6000,20000,70000,90000}",
                                               MaxBytes="180000" if quick else "200000", MaxCalls="3" if quick else "4", MaxMembers="24"), ["ExportL"], 2, 900, False)
    probes = []
    val, what = REGRESSIONS["DictByteRoundsUp"]
    if ASBUILT["DictByteRoundsUp"] != val:
        probes.append(("DictByteRoundsUp", what, pool.submit(lz_model, lz_consts({"DictByteRoundsUp": val}), LZ_INV, 2, 600, False)))
    scns, meta = [], []
    r = f_design.result()
    ctx.note_tlc("LzipContainer design (as built)", r)
    log(f"[tlc] LzipContainer design: {r}")
    if r.ok:
        ctx.require_coverage(r, ["Finish", "RMember", "RDone"], "LzipContainer design")
    else:
        cx = printed_json(r, "cex")
        if not cx:
            raise ToolError(f"LzipContainer design: TLC reports {r.violated} without an exported counter-example\n{r.out[-2000:]}")
        for i, c in enumerate(cx[:3]):
            # the writer-level invariants fail right after Finish: make sure the data needs the dictionary
            c = dict(c, far=True) if r.violated in ("XWellFormed",) else c
            if c["total"] == 0:
                c["calls"] = [["w", max(3 * c["dict"], 12000)], ["x", 0]]
            scns.append(lz_write_scn(f"cex-{r.violated}-{i}", c, rnd))
            meta.append(("tlc-cex", None, r.violated))
    for (k, what, f) in probes:
        pr = f.result()
        ctx.add("regression_models_checked")
        if pr.ok:
            raise ToolError(f"regressed design {k} does not violate any invariant: the probe is vacuous")
        for i, c in enumerate(printed_json(pr, "cex")[:2]):
            c = dict(c, far=True)
            if c["total"] == 0:
                c["calls"] = [["w", max(3 * c["dict"], 12000)], ["x", 0]]
            scns.append(lz_write_scn(f"probe-{k}-{i}", c, rnd))
            meta.append(("tlc-regression-cex:" + k, None, pr.violated))
            ctx.add("regression_probes")
    er = f_export.result()
    ctx.note_tlc("LzipContainer scenario export", er)
    seen, exported = set(), []
    for c in printed_json(er, "scn"):
        key = json.dumps([c["dict"], c["limit"], c["far"], c["calls"]])
        if key not in seen:
            seen.add(key)
            exported.append(c)
    if len(exported) < 30:
        raise ToolError(f"LZIP scenario export produced only {len(exported)} behaviours")
    cap = cap or (400 if quick else 4000)
    if len(exported) > cap:
        must = [c for c in exported if len(c["calls"]) <= 2]
        rest = [c for c in exported if len(c["calls"]) > 2]
        if len(must) > cap // 2:
            must = rnd.sample(must, cap // 2)
        exported = must + rnd.sample(rest, min(len(rest), max(0, cap - len(must))))
    for i, c in enumerate(exported):
        scns.append(lz_write_scn(f"lz-{i}", c, rnd))
        meta.append(("tlc-scn", c, None))
    for i in range(40 if quick else 400):
        scns.append(random_lz_scn(f"lz-rand-{i}", rnd, quick))
        meta.append(("random", None, None))
    res = run_scenarios(scns)
    log(f"[impl] lz_write: {len(scns)} runs of the real LZIPWriter/LZIPReader/LZIPReaderMT + liblzma in {time.time()-t0:.1f}s")
    ndiv = 0
    for s, r1, (src, st, inv) in zip(scns, res, meta):
        div = judge_lz_write(j, s, r1, predicted=st if src == "tlc-scn" else None, source=src)
        if div:
            ndiv += 1
            if ndiv <= 3:
                ctx.note_drift(f"lz_write {s['id']}: {div}")
        if src == "tlc-cex":
            bad = not (r1.get("rt", {}).get("ok") and r1["rt"]["cmp"]["equal"]) or not r1.get("ref", {}).get("ok")
            if not bad:
                raise ToolError(f"TLC reports {inv} for the as-built LzipContainer design but the implementation does not reproduce it "
                                f"({s['id']}): the model misrepresents the code")
    ctx.add("behaviours_replayed", len(exported))
    ctx.add("replay_divergences", ndiv)
    runs = [(s, r1) for s, r1 in zip(scns, res) if r1.get("outcome") == "ok" and "recs" in r1]
    return scns, res, runs


def random_lz_scn(sid, rnd, quick):
    d = rnd.choice([4096, 4097, 5000, 6000, 12345, 65536, 65537, 100000, 1 << 20, 1000, 3 << 19])
    total = rnd.choice([0, 1, 100, 4096, 5000, 20000, 70000] + ([] if quick else [300000, 1 << 20]))
    calls, left = [], total
    while left > 0:
        n = min(left, rnd.choice([1, 100, 4096, 5000, 65536, left]))
        calls.append({"op": "write", "n": n})
        left -= n
        if rnd.random() < 0.1:
            calls.append({"op": "flush"})
    calls.append({"op": "finish"})
    opt = {"preset": rnd.choice([0, 1, 3, 6]), "dict": d}
    if rnd.random() < 0.6:
        opt["limit"] = rnd.choice([1, 4096, 5000, 10000, 65536])
    if rnd.random() < 0.5:
        opt["lc"], opt["lp"], opt["pb"] = rnd.choice([(0, 0, 0), (3, 2, 2), (0, 4, 4), (4, 0, 0), (1, 1, 3)])
    s = {"id": sid, "fam": "lz_write", "seed": rnd.getrandbits(32), "opt": opt, "calls": calls,
         "reads": rnd.choice([[4096], [1], [7, 4096, 3], [65536]]), "sink_chunks": rnd.choice(SINK_CHUNKS)}
    if rnd.random() < 0.5 and total > 0:
        s["period"] = max(1, min(max(d, 4096), total) - rnd.randint(1, 16))
    else:
        s["class"] = rnd.choice(["text", "seq", "lowent", "random", "mixed"])
    return s


LZ_TRACE_INV = {"C02": ["TWellFormed", "TRoundTrip", "TContent"], "C03": ["TWellFormed", "TRef"], "C12": ["TMtOrder"],
                "C18": ["TSizeLimit", "TMtCount"]}
LZ_INV_PROP = {"WellFormed": ("C02", "C03"), "RoundTrip": ("C02",), "Content": ("C02",), "Ref": ("C03",), "MtOrder": ("C12",),
               "SizeLimit": ("C18",), "MtCount": ("C18",)}
TRACE_CONSTS_LZ = dict(Dicts="{4096}", LimitOpts="{0}", WriteSizes="{1}", MaxBytes="2000000000", MaxCalls="1000000", MaxFiles="1", MaxMembers="1000000", CSizes="{7}",
                       Fars="{FALSE}")


def validate_lz_runs(ctx, j, runs, pool):
    if not runs:
        raise ToolError("no LZIP runs to validate")
    events, index = [], {}
    for s, r1 in runs:
        index[s["id"]] = (s, r1)
        events.extend(lz_events(s, r1))
    invs = sorted(set(i for p in j.props for i in LZ_TRACE_INV.get(p, [])))
    consts = dict(TRACE_CONSTS_LZ, DictByteRoundsUp=ASBUILT["DictByteRoundsUp"])
    fp = pool.submit(validate, "Trace_LzipContainer", consts, events, invs, False)
    fs = pool.submit(validate, "Trace_LzipContainer", consts, events, [], True)
    ok, reached, total, r, tv = fp.result()
    ctx.note_tlc("trace lz_write (property level)", r)
    if not ok:
        raise ToolError(f"property-level LZIP trace pass did not consume the whole trace ({reached} of {total}):\n{r.out[-1500:]}")
    bad = set()
    for (inv, rid) in tv:
        s, r1 = index[rid]
        bad.add(rid)
        recs = [{k: v for k, v in x.items() if k in ("k", "dictbyte", "dict", "csize", "data_size", "member_size", "why")} for x in r1["recs"]][:9]
        for pid in LZ_INV_PROP[inv]:
            j.violation(pid, f"trace of the real LZIPWriter rejected by the property-level spec Trace_LzipContainer: invariant T{inv} violated "
                             f"on the file of run {rid} (dict_size {s['opt'].get('dict')}); strict-parser records {json.dumps(recs)[:500]}",
                        dict(lz_sig(s), outcome="trace:" + inv), {"scenario": strip(s), "source": "trace", "invariant": inv})
    ctx.cov["traces_validated_against_impl"] = ctx.cov.get("traces_validated_against_impl", 0) + len(runs) - len(bad)
    ok2, reached2, total2, r2, _ = fs.result()
    ctx.note_tlc("trace lz_write (implementation-shaped)", r2)
    if ok2:
        ctx.add("traces_explained_by_asbuilt_design", len(runs))
    else:
        rid = "?"
        for e in events[:(reached2 or 0) + 1]:
            if e["ev"] == "Reset":
                rid = e["id"]
        nxt = events[reached2] if reached2 is not None and reached2 < len(events) else "?"
        ctx.note_drift(f"Trace_LzipContainer (as-built constants) cannot explain run {rid} at event {reached2} of {total2}: next {json.dumps(nxt)[:300]}")
    return bad


# --------------------------------------------------------------------------- LZIP dictionary-size byte (C02)
def boundary_sizes():
    out = set()
    for b in range(12, 30):
        for k in range(8):
            for dl in (-1, 0, 1):
                d = (1 << b) - k * ((1 << b) // 16) + dl
                if 4096 <= d <= (1 << 29):
                    out.add(d)
    return sorted(out)


def dict_byte(ctx, j, quick, pool):
    """The dictionary-size byte function: TLC checks Covers / InRange / Minimal for all boundary sizes on the as-built
    transcription; the transcription is compared with the crate's function for every size and every byte value."""
    extra = 'ExportD == PrintT(ToJson([tag |-> "d", d |-> d, byte |-> EncodeByte(d), dec |-> Decode(Encode(d))]))\n' \
            'ExportB == PrintT(ToJson([tag |-> "bytes", v |-> [x \\in 0..255 |-> DecodeByte(x)]]))\n'
    d, mod, cfg = core.write_model("LzipDictMC, Json", dict(DictByteRoundsUp=ASBUILT["DictByteRoundsUp"]),
                                   invariants=["ExportD", "CoversInv", "InRangeInv", "MinimalInv", "DecodeTotal"], extra_defs=extra)
    r = core.run_tlc(mod, cfg, workers=1, cwd=d, timeout=600, coverage=False)
    ctx.note_tlc("LzipDictMC (as built)", r)
    log(f"[tlc] LzipDictMC: {r}")
    sizes = boundary_sizes()
    res = run_scenarios([{"id": "dictbyte", "fam": "dictbyte", "sizes": sizes}])[0]
    real = {x["d"]: x for x in res["rows"]}
    # ---- property oracle on the real function: the declared dictionary covers the requested one
    uncovered = [x for x in res["rows"] if x["dec"] < x["d"]]
    j.nruns += len(sizes)
    j.classes.add(("dictbyte", "covered", len(sizes) - len(uncovered)))
    if uncovered:
        # implementation witness: a member written with such a dictionary and data whose matches lie between the declared
        # and the used dictionary size (take the small size with the widest gap)
        # (the smallest such size keeps the witness cheap: the encoder touches its whole window)
        cands = [x for x in uncovered if x["d"] - x["dec"] >= 2 and x["dec"] > 0] or uncovered
        small = [x for x in cands if x["d"] <= (1 << 20)]
        w = max(small, key=lambda x: (x["d"] - x["dec"]) / x["d"]) if small else min(cands, key=lambda x: x["d"])
        d0 = w["d"]
        s = {"id": f"dictbyte-{d0}", "fam": "lz_write", "seed": 7, "opt": {"preset": 0, "dict": d0}, "period": (d0 + w["dec"]) // 2 + 1,
             "calls": [{"op": "write", "n": 3 * d0}, {"op": "finish"}], "reads": [4096]}
        r1 = run_scenarios([s])[0]
        judge_lz_write(j, s, r1, None, "dictbyte-boundary")
        j.classes.add(("dictbyte", "uncovered", len(uncovered)))
        if r1.get("rt", {}).get("ok") and r1["rt"]["cmp"]["equal"]:
            raise ToolError(f"encode_dict_size under-declares the dictionary for {len(uncovered)} sizes (e.g. {d0} -> {w['dec']}) but the member still decodes")
    if not r.ok:
        if not uncovered and r.violated in ("CoversInv",):
            raise ToolError(f"TLC reports {r.violated} for the as-built LzipDict but the crate's function covers all sizes: the model misrepresents the code")
        if r.violated not in ("CoversInv",):
            ctx.note_drift(f"LzipDictMC: {r.violated} violated on the as-built transcription (header size not minimal / out of range)")
    # ---- conformance of the transcription: same byte for every size, same decode for every byte
    model = {x["d"]: x for x in printed_json(r, "d")} if r.ok else {}
    if r.ok and len(model) != len(sizes):
        raise ToolError(f"LzipDictMC enumerated {len(model)} sizes, expected {len(sizes)}")
    diff = [(d1, model[d1]["byte"], real[d1]["enc"]) for d1 in model if model[d1]["byte"] != real[d1]["enc"]]
    hdiff = [(x["d"], x["hdr"], x["enc"]) for x in res["rows"] if x["hdr"] >= 0 and x["hdr"] != x["enc"]]
    if diff or hdiff:
        ctx.note_drift(f"lzip dictionary byte: model and code differ for {len(diff)} sizes (first {diff[:2]}); header byte differs from encode_dict_size for {hdiff[:2]}")
    ctx.add("dictbyte_sizes_compared", len(model))
    ctx.add("dictbyte_header_bytes_compared", sum(1 for x in res["rows"] if x["hdr"] >= 0))


# --------------------------------------------------------------------------- generic two-pass trace validation
def validate_generic(ctx, j, module, consts, events, index, trace_inv, inv_prop, sig_of, what):
    """Property-level pass (TVIOL -> violations of the caller's properties) + implementation-shaped pass (drift)."""
    from concurrent.futures import ThreadPoolExecutor
    invs = sorted(set(i for p in j.props for i in trace_inv.get(p, [])))
    with ThreadPoolExecutor(max_workers=2) as tp:
        fp = tp.submit(validate, module, consts, events, invs, False)
        fs = tp.submit(validate, module, consts, events, [], True)
        ok, reached, total, r, tv = fp.result()
        ok2, reached2, total2, r2, _ = fs.result()
    ctx.note_tlc(f"trace {what} (property level)", r)
    ctx.note_tlc(f"trace {what} (implementation-shaped)", r2)
    if not ok:
        raise ToolError(f"property-level pass of {module} did not consume the whole trace ({reached} of {total}):\n{r.out[-1500:]}")
    bad = set()
    for (inv, rid) in tv:
        s, r1 = index[rid]
        bad.add(rid)
        for pid in inv_prop[inv]:
            j.violation(pid, f"trace of the real code rejected by the property-level spec {module}: invariant T{inv} violated on run {rid}: "
                             f"{json.dumps([{k: v for k, v in x.items() if k not in ('at',)} for x in (r1.get('recs') or [])][:10])[:500]}",
                        dict(sig_of(s), outcome="trace:" + inv), {"scenario": strip(s), "source": "trace", "invariant": inv})
    nruns = sum(1 for e in events if e["ev"] == "Reset")
    ctx.cov["traces_validated_against_impl"] = ctx.cov.get("traces_validated_against_impl", 0) + nruns - len(bad)
    if ok2:
        ctx.add("traces_explained_by_asbuilt_design", nruns)
    else:
        rid = "?"
        for e in events[:(reached2 or 0) + 1]:
            if e["ev"] == "Reset":
                rid = e["id"]
        nxt = events[reached2] if reached2 is not None and reached2 < len(events) else "?"
        ctx.note_drift(f"{module} (as-built constants) cannot explain run {rid} at event {reached2} of {total2}: next {json.dumps(nxt)[:300]}")
    return bad


# --------------------------------------------------------------------------- raw LZMA2 chunk protocol (C03 C16 C18)
EXPORT_L2 = r'''
ScnC(t) == [tag |-> t, chunks |-> out, rejected |-> rejected, units |-> units, indep |-> indepStarts, finished |-> finished]
ExportC == finished => PrintT(ToJson(ScnC("scn")))
CexC(P) == P \/ (PrintT(ToJson(ScnC("cex"))) /\ FALSE)
XReaderAccepts == CexC(ReaderAccepts)
XValid == CexC(Valid)
XDictSync == CexC(DictSync)
XStateSync == CexC(StateSync)
XCountUnits == CexC(CountUnits)
'''
L2_INV = ["TypeOK", "XReaderAccepts", "XValid", "XDictSync", "XStateSync", "XCountUnits"]
L2_DICT = 65536
L2_SEG = 6000


def l2_consts(variant=None, **kw):
    c = dict(MaxChunks="5", ChunkSizeSet="TRUE", Preset='"none"', UncClearsForce=ASBUILT["UncClearsForce"])
    if variant:
        c.update(variant)
    c.update({k: str(v) for k, v in kw.items()})
    return c


def l2_model(consts, invariants, workers=2, timeout=600, coverage=True):
    d, mod, cfg = core.write_model("Lzma2Chunks, Json", consts, invariants=invariants, extra_defs=EXPORT_L2)
    return core.run_tlc(mod, cfg, workers=workers, cwd=d, timeout=timeout, coverage=coverage)


def l2_write_scn(sid, a, rnd):
    """Chunk-kind sequence of the model -> data recipe: one write + flush per chunk; compressible data gives an LZMA chunk,
    random data an uncompressed one; an independent unit starts at the write after the emitted bytes reach chunk_size."""
    chunks = a["chunks"]
    any_si = any(c["si"] for c in chunks)
    calls, cum = [], 0
    for i, c in enumerate(chunks):
        nxt_si = i + 1 < len(chunks) and chunks[i + 1]["si"]
        if c["si"]:
            cum = 0
        n = max(L2_SEG, L2_DICT - cum) if nxt_si else L2_SEG
        cum += n
        call = {"op": "write", "n": n}
        if c["kind"] == "unc":
            call["class"] = "random"
        else:
            prev = chunks[i - 1] if i > 0 else None
            if prev is not None and prev["kind"] == "unc" and not c["si"]:
                call["copy_of"] = 2 * (i - 1)      # matches reach back into the uncompressed chunk before it
            else:
                call["class"] = rnd.choice(["text", "seq", "lowent"])
        calls.append(call)
        calls.append({"op": "flush"})
    calls.append({"op": "finish"})
    opt = {"preset": rnd.choice([0, 1, 3, 6]), "dict": L2_DICT}
    opt["lc"], opt["lp"], opt["pb"] = rnd.choice([(3, 0, 2), (3, 0, 2), (0, 0, 0), (4, 0, 4), (0, 4, 0), (2, 2, 1)])
    if any_si or rnd.random() < 0.5:
        opt["limit"] = L2_DICT
    return {"id": sid, "fam": "lzma2_write", "seed": rnd.getrandbits(32), "opt": opt, "calls": calls,
            "reads": rnd.choice([[4096], [1], [7, 4096, 3], [65536]]), "sink_chunks": rnd.choice(SINK_CHUNKS), "abstract": a}


def l2_sig(s):
    a = s.get("abstract") or {}
    ch = a.get("chunks") or []
    return {"family": "lzma2_write", "chunk_size": "set" if s["opt"].get("limit") else "none",
            "unc_starts_unit": any(c["si"] and c["kind"] == "unc" for c in ch)}


def judge_l2_write(j, s, r, predicted=None, source="tlc-scn"):
    base = l2_sig(s)
    rep = {"scenario": strip(s), "source": source}
    j.nruns += 1
    if r["outcome"] != "ok" or any(not c["ok"] for c in r.get("calls", [])):
        j.violation("C19", f"LZMA2Writer failed on valid input: {r['outcome']} {r.get('err') or r.get('calls')}", dict(base, outcome="call_err"), rep)
        return None
    obs = [(x["kind"], x["level"]) for x in r["recs"] if x["k"] == "Chunk"]
    j.classes.add(("lzma2_write", base["chunk_size"], tuple(obs)))
    rt, rf, mt = r["rt"], r["ref"], r["mt"]
    if not (rf["ok"] and rf["equal"]):
        j.violation("C03", f"liblzma does not accept / reproduce the raw LZMA2 stream written by the crate (control bytes "
                           f"{[hex(x['ctrl']) for x in r['recs'] if x['k'] == 'Chunk']}): {rf['err'] or 'wrong bytes'}", dict(base, outcome="ref_reject"), rep)
    if not (rt["ok"] and rt["cmp"]["equal"]):
        j.violation("C01", f"LZMA2 stream written by the crate is not decoded back by LZMA2Reader: {rt['err'] or 'wrong bytes'}", dict(base, outcome="roundtrip"), rep)
    if rt["ok"] and r["consumed"] != r["file_len"]:
        j.violation("C16", f"LZMA2Reader consumed {r['consumed']} bytes of a {r['file_len']}-byte stream", dict(base, outcome="consumed"), rep)
    nreset = sum(1 for (_, lv) in obs if lv == 3)
    if rt["ok"] and rt["cmp"]["equal"] and mt.get("ok") and r["input_len"] > 0 and mt.get("chunk_count") != nreset:
        j.violation("C18", f"LZMA2ReaderMT::chunk_count() = {mt.get('chunk_count')} for a stream of {nreset} independent units", dict(base, outcome="unit_count"), rep)
    if predicted is not None:
        want = [(c["kind"], c["level"]) for c in predicted["chunks"]]
        # one write + flush per model chunk: group the observed chunks by the bytes of each write; a large random
        # segment is emitted as several uncompressed pieces (further EmitUnc steps of the model): compare the first
        heads, pos, bounds = [], 0, []
        for c in s["calls"]:
            if c["op"] == "write":
                pos += c["n"]
                bounds.append(pos)
        acc, bi, start = 0, 0, True
        ok = True
        for x in [x for x in r["recs"] if x["k"] == "Chunk"]:
            if start:
                heads.append((x["kind"], x["level"]))
            elif not (x["kind"] == "unc" and x["level"] == 0):
                ok = False
            acc += x["usize"]
            start = bi < len(bounds) and acc == bounds[bi]
            if start:
                bi += 1
            elif bi < len(bounds) and acc > bounds[bi]:
                ok = False
        if heads != want or not ok:
            return f"chunk sequence {obs} differs from the model's {want}"
    return None


JUDGES["lzma2_write"] = lambda j, s, r, source="replay": judge_l2_write(j, s, r, None, source)


def l2_events(s, r):
    ev = [{"ev": "Reset", "id": s["id"]}]
    for x in r.get("recs") or []:
        if x["k"] == "Chunk":
            ev.append({"ev": "Chunk", "kind": x["kind"], "level": x["level"], "props": x["props"], "usize": x["usize"], "csize": x["csize"]})
    rt, rf, mt = r["rt"], r["ref"], r["mt"]
    ev.append({"ev": "End", "rt_ok": bool(rt["ok"]), "rt_equal": bool(rt["cmp"]["equal"]), "ref_ok": bool(rf["ok"]), "ref_equal": bool(rf["equal"]),
               "consumed": r["consumed"], "stream_len": r["file_len"], "mt_ok": bool(mt.get("ok")) and bool(mt.get("cmp", {}).get("equal")),
               "mt_units": mt.get("chunk_count", -1), "input_len": r["input_len"]})
    return ev


L2_TRACE_INV = {"C03": ["TValid", "TRef"], "C16": ["TConsumed"], "C18": ["TUnits"], "C01": ["TRoundTrip"]}
L2_INV_PROP = {"Valid": ("C03",), "Ref": ("C03",), "Consumed": ("C16",), "Units": ("C18",), "RoundTrip": ("C01",)}


def family_lzma2(ctx, j, quick, rnd, pool):
    t0 = time.time()
    f_design = pool.submit(l2_model, l2_consts(), L2_INV, 2)
    f_design2 = pool.submit(l2_model, l2_consts(ChunkSizeSet="FALSE"), L2_INV, 2)
    f_export = pool.submit(l2_model, l2_consts(MaxChunks="4" if quick else "5"), ["ExportC"], 2, 600, False)
    probes = []
    val, what = REGRESSIONS["UncClearsForce"]
    if ASBUILT["UncClearsForce"] != val:
        probes.append(("UncClearsForce", what, pool.submit(l2_model, l2_consts({"UncClearsForce": val}), L2_INV, 2, 600, False)))
    scns, meta = [], []
    for name, f in (("Lzma2Chunks design (as built, chunk_size set)", f_design), ("Lzma2Chunks design (as built, no chunk_size)", f_design2)):
        r = f.result()
        ctx.note_tlc(name, r)
        log(f"[tlc] {name}: {r}")
        if r.ok:
            ctx.require_coverage(r, ["EmitLzma", "EmitUnc", "Finish"], name)
        else:
            cx = printed_json(r, "cex")
            if not cx:
                raise ToolError(f"{name}: TLC reports {r.violated} without an exported counter-example")
            for i, c in enumerate(cx[:2]):
                scns.append(l2_write_scn(f"cex-{r.violated}-{i}", c, rnd))
                meta.append(("tlc-cex", None, r.violated))
    for (k, what, f) in probes:
        pr = f.result()
        ctx.add("regression_models_checked")
        if pr.ok:
            raise ToolError(f"regressed design {k} does not violate any invariant: the probe is vacuous")
        for i, c in enumerate(printed_json(pr, "cex")[:2]):
            scns.append(l2_write_scn(f"probe-{k}-{i}", c, rnd))
            meta.append(("tlc-regression-cex:" + k, None, pr.violated))
            ctx.add("regression_probes")
    er = f_export.result()
    ctx.note_tlc("Lzma2Chunks scenario export", er)
    seen, exported = set(), []
    for c in printed_json(er, "scn"):
        key = json.dumps(c["chunks"])
        if key not in seen and c["chunks"]:
            seen.add(key)
            exported.append(c)
    if len(exported) < 20:
        raise ToolError(f"LZMA2 scenario export produced only {len(exported)} behaviours")
    cap = 150 if quick else 1500
    if len(exported) > cap:
        exported = rnd.sample(exported, cap)
    for i, c in enumerate(exported):
        scns.append(l2_write_scn(f"l2-{i}", c, rnd))
        meta.append(("tlc-scn", c, None))
    # multi-piece uncompressed chunks, empty input, large compressible input (several LZMA chunks without flush)
    extra = [
        ("l2-empty", {"opt": {"preset": 0, "dict": L2_DICT}, "calls": [{"op": "finish"}]}),
        ("l2-unc2", {"opt": {"preset": 0, "dict": L2_DICT}, "calls": [{"op": "write", "n": 150000, "class": "random"}, {"op": "finish"}]}),
        ("l2-unc2-cs", {"opt": {"preset": 1, "dict": L2_DICT, "limit": L2_DICT}, "calls": [{"op": "write", "n": 150000, "class": "random"}, {"op": "write", "n": 5000, "copy_of": 0}, {"op": "finish"}]}),
        ("l2-big", {"opt": {"preset": 1, "dict": L2_DICT, "limit": 100000}, "calls": [{"op": "write", "n": 700000, "class": "mixed"}, {"op": "finish"}]}),
        ("l2-3mib", {"opt": {"preset": 0, "dict": 1 << 20}, "calls": [{"op": "write", "n": 3 << 20, "class": "zeros"}, {"op": "finish"}]}),
    ]
    for sid, body in extra:
        scns.append(dict(body, id=sid, fam="lzma2_write", seed=rnd.getrandbits(32), reads=[4096]))
        meta.append(("directed", None, None))
    res = run_scenarios(scns)
    log(f"[impl] lzma2_write: {len(scns)} runs of the real LZMA2Writer/LZMA2Reader/LZMA2ReaderMT + liblzma in {time.time()-t0:.1f}s")
    ndiv = 0
    for s, r1, (src, st, inv) in zip(scns, res, meta):
        div = judge_l2_write(j, s, r1, predicted=st if src == "tlc-scn" else None, source=src)
        if div:
            ndiv += 1
            if ndiv <= 3:
                ctx.note_drift(f"lzma2_write {s['id']}: {div}")
        if src == "tlc-cex":
            bad = not (r1.get("rt", {}).get("ok") and r1["rt"]["cmp"]["equal"]) or not (r1.get("ref", {}).get("ok") and r1["ref"]["equal"]) \
                or (r1.get("mt", {}).get("chunk_count") != sum(1 for x in r1.get("recs", []) if x["k"] == "Chunk" and x["level"] == 3))
            if not bad:
                raise ToolError(f"TLC reports {inv} for the as-built Lzma2Chunks design but the implementation does not reproduce it ({s['id']}): "
                                f"the model misrepresents the code")
    ctx.add("behaviours_replayed", len(exported))
    ctx.add("replay_divergences", ndiv)
    runs = [(s, r1) for s, r1 in zip(scns, res) if r1.get("outcome") == "ok" and "recs" in r1]
    events, index = [], {}
    for s, r1 in runs:
        index[s["id"]] = (s, r1)
        events.extend(l2_events(s, r1))
    consts = dict(MaxChunks="1000000", ChunkSizeSet="TRUE", Preset='"none"', UncClearsForce=ASBUILT["UncClearsForce"])
    validate_generic(ctx, j, "Trace_Lzma2Chunks", consts, events, index, L2_TRACE_INV, L2_INV_PROP, l2_sig, "lzma2_write")
    return scns, res


# --------------------------------------------------------------------------- .lzma expected-size contract (C18 C03 C16)
EXPORT_LA = r'''
ScnA == [tag |-> "scn", exp |-> exp, calls |-> calls, cur |-> cur, state |-> state, marker |-> marker, header |-> header]
ExportA == (state # "open") => PrintT(ToJson(ScnA))
'''
LA_UNIT = 1500


def la_write_scn(sid, a, rnd):
    calls = [{"op": "write", "n": c["n"] * LA_UNIT} if c["op"] == "w" else {"op": "finish"} for c in a["calls"]]
    opt = {"preset": rnd.choice([0, 1, 4, 6]), "dict": rnd.choice([4096, 65536, 1 << 20])}
    opt["lc"], opt["lp"], opt["pb"] = rnd.choice([(3, 0, 2), (3, 0, 2), (0, 0, 0), (4, 0, 4), (0, 4, 0), (2, 2, 1), (1, 3, 3)])   # lc + lp <= 4: what liblzma decodes
    if a["exp"] >= 0:
        opt["expected"] = a["exp"] * LA_UNIT
    # LZMAWriter::new(use_header, use_end_marker, expected): every combination; new_use_header's own choice is header + (marker iff no size)
    opt["header"], opt["marker"] = bool(a.get("header", True)), bool(a.get("marker", a["exp"] < 0))
    if not opt["header"] and not opt["marker"] and a["exp"] < 0:
        pass        # raw stream without marker and without size: decodable only because the harness passes the size to the reader
    return {"id": sid, "fam": "lzma_write", "seed": rnd.getrandbits(32), "opt": opt, "class": rnd.choice(["text", "seq", "random", "mixed", "zeros"]),
            "calls": calls, "reads": rnd.choice([[4096], [1], [7, 4096, 3], [65536]]), "sink_chunks": rnd.choice(SINK_CHUNKS), "abstract": a}


def la_sig(s):
    exp = s["opt"].get("expected")
    total = sum(c.get("n", 0) for c in s["calls"] if c["op"] == "write")
    return {"family": "lzma_write", "expected": "none" if exp is None else ("equal" if exp == total else ("smaller" if exp < total else "larger")),
            "header": s["opt"].get("header", True), "marker": s["opt"].get("marker", exp is None)}


def judge_la_write(j, s, r, predicted=None, source="tlc-scn"):
    base = la_sig(s)
    rep = {"scenario": strip(s), "source": source}
    j.nruns += 1
    if r["outcome"] not in ("ok", "no_file"):
        j.violation("C19", f"LZMAWriter: {r['outcome']} {r.get('err')}", dict(base, outcome=r["outcome"]), rep)
        return None
    exp = s["opt"].get("expected")
    acc = 0
    for c in r["calls"]:
        if c["op"] == "write":
            if c["ok"] and exp is not None and acc + c["n"] > exp:
                j.violation("C18", f".lzma writer with expected size {exp} accepted a write of {c['n']} bytes after {acc}", dict(base, outcome="overrun_accepted"), rep)
            if c["ok"]:
                acc += c["n"]
        elif c["op"] == "finish":
            if c["ok"] and exp is not None and acc != exp:
                j.violation("C18", f".lzma writer with expected size {exp} finished after {acc} bytes", dict(base, outcome="short_finish"), rep)
    finished = r["outcome"] == "ok"
    j.classes.add(("lzma_write", base["expected"], base["header"], base["marker"], finished, tuple(c["ok"] for c in r["calls"])))
    if finished:
        hdr = r["recs"][0]
        if not base["header"]:
            pass
        elif hdr.get("k") != "LzmaHdr" or hdr["size"] != (exp if exp is not None else -1) or (exp is not None and hdr["size"] != acc):
            j.violation("C18", f".lzma header declares {hdr.get('size')} bytes, {acc} were written (expected size {exp})", dict(base, outcome="header_size"), rep)
        rt, rf = r["rt"], r["ref"]
        if base["header"] and not base["marker"] and exp is None:
            # LZMAWriter::new(header, no end marker, no size): the header says "size unknown" and nothing marks the end - the caller
            # asked for a stream no decoder can delimit (an option-contract matter, C19 / group D); only the C18 contract is judged
            return None
        if not (rf["ok"] and rf["equal"]):
            j.violation("C03", f"liblzma does not accept / reproduce the .lzma file written by the crate: {rf['err'] or 'wrong bytes'}", dict(base, outcome="ref_reject"), rep)
        if not (rt["ok"] and rt["cmp"]["equal"]):
            j.violation("C01", f".lzma file written by the crate is not decoded back by LZMAReader: {rt['err'] or 'wrong bytes'}", dict(base, outcome="roundtrip"), rep)
        elif exp is not None and base["marker"]:
            pass        # declared size *and* end marker: outside the statement of C16 (the reader stops at the declared size)
        elif r["consumed"] != r["file_len"]:
            j.violation("C16", f"LZMAReader ({'declared size' if exp is not None else 'end marker'}) consumed {r['consumed']} bytes of a {r['file_len']}-byte stream",
                        dict(base, outcome="consumed"), rep)
    if predicted is not None:
        want = [c["ok"] for c in predicted["calls"]]
        got = [c["ok"] for c in r["calls"]]
        if want != got:
            return f"call results {got} differ from the model's {want}"
    return None


JUDGES["lzma_write"] = lambda j, s, r, source="replay": judge_la_write(j, s, r, None, source)


def la_events(s, r):
    exp = s["opt"].get("expected")
    ev = [{"ev": "Reset", "id": s["id"], "exp": -1 if exp is None else exp, "header": bool(s["opt"].get("header", True)),
           "marker": bool(s["opt"].get("marker", exp is None))}]
    for c in r["calls"]:
        if c["op"] == "write":
            ev.append({"ev": "Write", "n": c["n"], "ok": bool(c["ok"])})
        elif c["op"] == "finish":
            ev.append({"ev": "Finish", "ok": bool(c["ok"])})
    fin = r["outcome"] == "ok"
    ev.append({"ev": "End", "finished": fin, "hdr": r["recs"][0].get("size", -2) if fin else -2, "accepted": r.get("input_len", 0)})
    return ev


LA_TRACE_INV = {"C18": ["TNoOverrun", "TShortRefused", "THeaderExact", "TMarker"]}
LA_INV_PROP = {"Overrun": ("C18",), "ShortFinish": ("C18",), "Header": ("C18",)}


def family_lzma(ctx, j, quick, rnd, pool):
    t0 = time.time()
    consts = dict(Expecteds=[-1, 0, 2, 3] if quick else [-1, 0, 1, 2, 3, 5], WriteSizes="{0,1,2,3}", MaxCalls="3" if quick else "4",
                  Markers="{FALSE,TRUE}", Headers="{FALSE,TRUE}")
    d, mod, cfg = core.write_model("LzmaAlone, Json", consts, invariants=["TypeOK", "HeaderExact", "NoOverrun", "ShortRefused", "ExportA"],
                                   extra_defs=EXPORT_LA)
    # a set constant with a negative member has to be defined in the wrapper module
    txt = open(os.path.join(d, mod + ".tla")).read().replace("K_Expecteds == <<", "K_Expecteds == {").replace(">>\n", "}\n", 1)
    open(os.path.join(d, mod + ".tla"), "w").write(txt)
    r = core.run_tlc(mod, cfg, workers=2, cwd=d, timeout=600)
    ctx.note_tlc("LzmaAlone design", r)
    log(f"[tlc] LzmaAlone design: {r}")
    if not r.ok:
        raise ToolError(f"LzmaAlone: TLC reports {r.violated} on the contract model itself")
    ctx.require_coverage(r, ["Write", "Finish"], "LzmaAlone")
    exported = printed_json(r, "scn")
    if len(exported) < 50:
        raise ToolError(f"LzmaAlone export produced only {len(exported)} behaviours")
    cap = 400 if quick else 4000
    if len(exported) > cap:
        groups = collections.defaultdict(list)
        for a in exported:
            groups[(a["exp"], a["header"], a["marker"], a["state"])].append(a)
        per = max(2, cap // len(groups))
        exported = [a for g in groups.values() for a in (g if len(g) <= per else rnd.sample(g, per))]
    scns = [la_write_scn(f"la-{i}", a, rnd) for i, a in enumerate(exported)]
    meta = [("tlc-scn", a) for a in exported]
    # random byte-level scripts
    for i in range(40 if quick else 400):
        total = rnd.choice([0, 1, 100, 5000, 70000])
        exp = rnd.choice([None, total, total, max(0, total - 1), total + 1, 0])
        calls, left = [], total
        while left > 0:
            n = min(left, rnd.choice([1, 100, 4096, left]))
            calls.append({"op": "write", "n": n})
            left -= n
        if rnd.random() < 0.3:
            calls.insert(rnd.randint(0, len(calls)), {"op": "write", "n": rnd.choice([0, 1, 3000])})
        calls.append({"op": "finish"})
        opt = {"preset": rnd.choice([0, 3, 6]), "dict": rnd.choice([4096, 1 << 16, 1 << 20])}
        if exp is not None:
            opt["expected"] = exp
        if rnd.random() < 0.5:
            opt["header"], opt["marker"] = rnd.choice([(True, True), (True, False), (False, True), (False, False)])
        scns.append({"id": f"la-rand-{i}", "fam": "lzma_write", "seed": rnd.getrandbits(32), "opt": opt, "class": rnd.choice(["text", "random", "seq"]),
                     "calls": calls, "reads": rnd.choice([[4096], [1], [7, 4096, 3]])})
        meta.append(("random", None))
    res = run_scenarios(scns)
    log(f"[impl] lzma_write: {len(scns)} runs of the real LZMAWriter/LZMAReader + liblzma in {time.time()-t0:.1f}s")
    ndiv = 0
    for s, r1, (src, a) in zip(scns, res, meta):
        div = judge_la_write(j, s, r1, predicted=a if src == "tlc-scn" else None, source=src)
        if div:
            ndiv += 1
            if ndiv <= 3:
                ctx.note_drift(f"lzma_write {s['id']}: {div}")
    ctx.add("behaviours_replayed", len(exported))
    ctx.add("replay_divergences", ndiv)
    events, index = [], {}
    for s, r1 in zip(scns, res):
        if r1.get("outcome") in ("ok", "no_file") and "calls" in r1:
            index[s["id"]] = (s, r1)
            events.extend(la_events(s, r1))
    tc = dict(Expecteds="{0}", WriteSizes="{0}", MaxCalls="1000000", Markers="{TRUE}", Headers="{TRUE}")
    validate_generic(ctx, j, "Trace_LzmaAlone", tc, events, index, LA_TRACE_INV, LA_INV_PROP, la_sig, "lzma_write")
    return scns, res


# --------------------------------------------------------------------------- reading assembled inputs (C12 C16, C03 ref -> ours)
# how the byte source hands out the input: all at once, or in pieces (a multi-member / multi-stream input that arrives in pieces
# is the same input; headers then straddle read calls at every offset)
SRC_CHUNKS = [[], [], [1], [2], [3], [5], [1, 2, 3, 5], [7, 1], [4096, 1]]


def xz_part(st, rnd, src=None, unit=UNIT):
    """Abstract stream of the model -> a stream part of the `read` family (written by the crate, liblzma or the forge)."""
    src = src or rnd.choice(["ours", "ours", "ref", "forge"])
    chain = chain_for(st["hsize"], rnd) if src == "ours" else rnd.choice(CHAINS[12])
    opt = {"preset": rnd.choice([0, 1, 3, 6]), "dict": max(st.get("dict", DICT_UNITS) * unit, 4096), "check": CHECK_NAME[st["check"]], "filters": chain}
    p = {"k": "xz", "src": src, "opt": opt, "n": st["units"] * unit, "class": rnd.choice(["text", "seq", "lowent", "zeros", "periodic"]),
         "seed": rnd.getrandbits(32)}
    if src == "ours":
        if st["limit"]:
            opt["limit"] = st["limit"] * unit
        p["writes"] = [n * unit for (op, n) in st["calls"] if op == "w"]
    else:
        cuts, acc = [], 0
        for u in st["us"][:-1]:
            acc += u * unit
            cuts.append(acc)
        p["cuts"] = cuts
        if src == "forge":
            p["hc"], p["hu"] = rnd.random() < 0.7, rnd.random() < 0.7
    return p


def concat_scn(sid, a, rnd, reads=None):
    parts = []
    for i, st in enumerate(a["streams"]):
        parts.append(xz_part(st, rnd))
        k = a["pads"][i] if i < len(a["pads"]) else 0
        if k:
            parts.append({"k": "zeros", "n": k})
    if a["trail"] == "garbage":
        parts.append({"k": "random", "n": rnd.randint(1, 24), "seed": rnd.getrandbits(16)})
    return {"id": sid, "fam": "read", "fmt": "xz", "multi": bool(a["multi"]), "parts": parts, "seed": rnd.getrandbits(32),
            "reads": reads or rnd.choice([[4096], [1], [7, 4096, 3], [65536], [1000]]), "src_chunks": rnd.choice(SRC_CHUNKS), "abstract": a}


def read_sig(s):
    a = s.get("abstract") or {}
    pads = a.get("pads") or []
    interior = pads[:-1]
    return {"family": "read_" + s["fmt"], "multi": bool(s.get("multi")), "streams": len(a.get("streams") or []) or sum(1 for p in s["parts"] if p["k"] == s["fmt"]),
            "interior_pad": "none" if not interior else ("bad" if any(k % 4 for k in interior) else ("zero" if not any(interior) else "ok")),
            "trailing": a.get("trail") or s.get("trailing") or "none"}


def input_valid(s):
    """Is the assembled input of a concat scenario made of complete streams with well-formed padding only?"""
    a = s.get("abstract") or {}
    return all(k % 4 == 0 for k in a.get("pads", [])) and a.get("trail", "none") == "none"


def stream_ends(s, r):
    """offsets (in the assembled input) of the ends of the stream parts, in order"""
    return [e for p, e in zip(s["parts"], r["ends"]) if p["k"] == s["fmt"]]


def judge_concat_xz(j, s, r, predicted=None, source="tlc-scn"):
    base = read_sig(s)
    rep = {"scenario": strip(s), "source": source}
    j.nruns += 1
    if r["outcome"] in ("build_err", "panic", "bad_family"):
        raise ToolError(f"read scenario {s['id']} could not be built / ran into {r['outcome']}: {r.get('err')}")
    a = s["abstract"]
    nst = len(a["streams"])
    ends = stream_ends(s, r)
    lens = [x for p, x in zip(s["parts"], r["content_lens"]) if p["k"] == "xz"]
    srcs = "+".join(p["src"] for p in s["parts"] if p["k"] == "xz")
    j.classes.add(("read_xz", base["multi"], nst, base["interior_pad"], base["trailing"], (a["pads"] or [0])[-1] % 4 == 0, r["outcome"], srcs))
    interior_ok = all(k % 4 == 0 for k in a["pads"][:-1])
    endpad_ok = a["pads"][-1] % 4 == 0
    if s["multi"]:
        if interior_ok and endpad_ok and a["trail"] == "none":
            if not (r["outcome"] == "eof" and r["matched"] == nst):
                j.violation("C12", f"XZReader (multi-stream) on {nst} concatenated streams with padding {a['pads']}: "
                                   f"{r['err'] or ('decoded %d bytes = first %d streams' % (r['out_len'], r['matched']))}", dict(base, outcome="concat"), rep)
        if not (interior_ok and endpad_ok) and r["outcome"] != "err":
            j.violation("C12", f"XZReader (multi-stream) accepted stream padding {a['pads']} (not a multiple of four) "
                               f"{'between streams' if not interior_ok else 'after the last stream'}", dict(base, outcome="bad_padding_accepted"), rep)
    else:
        if not (r["outcome"] == "eof" and r["matched"] >= 1):
            j.violation("C12", f"XZReader (single-stream) on {nst} concatenated streams: {r['err'] or ('decoded %d bytes, not a prefix of streams' % r['out_len'])}",
                        dict(base, outcome="single_stream"), rep)
        elif r["out_len"] != lens[0]:
            j.violation("C12", f"XZReader (single-stream) did not stop after the first stream: {r['out_len']} bytes, first stream holds {lens[0]}",
                        dict(base, outcome="single_stream"), rep)
        if r["outcome"] == "eof" and r["consumed"] != ends[0]:
            j.violation("C16", f"XZReader (single-stream) consumed {r['consumed']} bytes; the first stream ends at {ends[0]} "
                               f"(followed by {r['input_len'] - ends[0]} bytes)", dict(base, outcome="consumed"), rep)
        elif r["outcome"] == "eof" and again_bad(r):
            j.violation("C16", f"XZReader (single-stream) with {r['input_len'] - ends[0]} bytes behind the first stream: {again_bad(r)}",
                        dict(base, outcome="reread"), rep)
    # forge / reference sanity: liblzma must agree that the assembled valid input is valid
    if interior_ok and endpad_ok and a["trail"] == "none" and not r["ref"]["ok"]:
        raise ToolError(f"liblzma rejects the assembled input of {s['id']} ({srcs}): {r['ref']['err']} - forge / bridge bug")
    if predicted is not None:
        want_st = predicted["st"]
        want_out = predicted["out"] * UNIT
        if r["outcome"] != want_st or (want_st == "eof" and r["out_len"] != want_out):
            return f"reader outcome {r['outcome']}/{r['out_len']} differs from the model's {want_st}/{want_out}"
    return None


JUDGES["read"] = lambda j, s, r, source="replay": (judge_concat_xz if "abstract" in s and "streams" in (s.get("abstract") or {}) else judge_consume)(j, s, r, None, source)


def family_concat_xz(ctx, j, quick, rnd, pool, want_recs=False):
    t0 = time.time()
    inv = ["TypeOK", "XConcat", "XConsumesExactly", "XRoundTrip", "Export"]
    base = dict(CSizes="{5}", HSizes="{12}", MaxBlocks="3", DictUnits="1", AllowFlush="FALSE", Trailings='{"none","garbage"}', Multis="{FALSE,TRUE}")
    cfgs = [("2 streams", xz_consts(**dict(base, CheckIds="{0,4}", LimitOpts="{0,1}" if not quick else "{0}", MaxUnits="2", MaxWrite="2",
                                         MaxStreams="2", Pads="{0,4,8,1,2,3,5}"))),
            ("3 streams", xz_consts(**dict(base, CheckIds="{1}" if quick else "{1,10}", LimitOpts="{0}", MaxUnits="1", MaxWrite="1",
                                         MaxStreams="3", Pads="{0,4,3}" if quick else "{0,4,8,2,5}")))]
    futs = [(name, pool.submit(xz_model, c, inv, 2 if quick else 6, 1500, True)) for name, c in cfgs]
    probes = []
    for k in ("MagicTestInverted", "EofPaddingChecked"):
        val, what = REGRESSIONS[k]
        if ASBUILT[k] != val:
            pc = dict(cfgs[1][1])
            pc[k] = val
            probes.append((k, pool.submit(xz_model, pc, ["TypeOK", "XConcat"], 2, 600, False)))
    scns, meta, exported = [], [], []
    for name, f in futs:
        r = f.result()
        ctx.note_tlc(f"XzContainer concat design ({name}, as built)", r)
        log(f"[tlc] XzContainer concat ({name}): {r}")
        if r.ok:
            ctx.require_coverage(r, ["Finish", "RHeader", "RBlock", "RIndex", "RScan", "RDone"], "XzContainer concat " + name)
            exported += printed_json(r, "scn")
        else:
            cx = cex_scenarios(r)
            if not cx:
                raise ToolError(f"XzContainer concat: TLC reports {r.violated} without an exported counter-example")
            for i, c in enumerate(cx[:2]):
                scns.append(concat_scn(f"cex-{r.violated}-{name[0]}-{i}", c, rnd))
                meta.append(("tlc-cex", c, r.violated))
            # the behaviours explored before the violation are still replayed
            exported += printed_json(r, "scn")
    for (k, f) in probes:
        pr = f.result()
        ctx.add("regression_models_checked")
        if pr.ok:
            raise ToolError(f"regressed design {k} does not violate Concat: the probe is vacuous")
        for i, c in enumerate(cex_scenarios(pr)[:2]):
            scns.append(concat_scn(f"probe-{k}-{i}", c, rnd))
            meta.append(("tlc-regression-cex:" + k, None, pr.violated))
            ctx.add("regression_probes")
    seen, uniq = set(), []
    for c in exported:
        key = json.dumps([[(st["check"], st["limit"], st["calls"]) for st in c["streams"]], c["pads"], c["trail"], c["multi"]])
        if key not in seen:
            seen.add(key)
            uniq.append(c)
    if len(uniq) < 30 and not scns:
        raise ToolError(f"concat export produced only {len(uniq)} behaviours")
    cap = 400 if quick else 5000
    if len(uniq) > cap:
        # keep the classes balanced: sample per (multi, number of streams, pad class, trailing)
        groups = collections.defaultdict(list)
        for c in uniq:
            pads = c["pads"]
            groups[(c["multi"], len(c["streams"]), tuple(k % 4 == 0 for k in pads), tuple(k == 0 for k in pads), c["trail"])].append(c)
        per = max(1, cap // max(1, len(groups)))
        uniq = [c for g in groups.values() for c in (g if len(g) <= per else rnd.sample(g, per))]
    for i, c in enumerate(uniq):
        scns.append(concat_scn(f"cat-{i}", c, rnd))
        meta.append(("tlc-scn", c, None))
    if want_recs:
        for s in scns:
            s["want_recs"] = True
    res = run_scenarios(scns)
    log(f"[impl] read/xz concat: {len(scns)} assembled inputs decoded by the real XZReader (+ liblzma) in {time.time()-t0:.1f}s")
    ndiv = 0
    for s, r1, (src, c, inv1) in zip(scns, res, meta):
        div = judge_concat_xz(j, s, r1, predicted=c if src == "tlc-scn" else None, source=src)
        if div:
            ndiv += 1
            if ndiv <= 3:
                ctx.note_drift(f"read {s['id']}: {div}")
        if src == "tlc-cex":
            a = s["abstract"]
            nst = len(a["streams"])
            ok_all = r1["outcome"] == "eof" and r1["matched"] == (nst if s["multi"] else 1)
            if ok_all and all(k % 4 == 0 for k in a["pads"]) and a["trail"] == "none":
                raise ToolError(f"TLC reports {inv1} for the as-built XzContainer design but the implementation does not reproduce it ({s['id']})")
    ctx.add("behaviours_replayed", len(uniq))
    ctx.add("replay_divergences", ndiv)
    return scns, res


def family_concat_lz(ctx, j, quick, rnd, pool):
    """C12, LZIP: concatenated files / multi-member files decode to the concatenation, with LZIPReader and LZIPReaderMT."""
    t0 = time.time()
    c = lz_consts(Dicts="{4096,5000}", LimitOpts="{0,3000}", WriteSizes="{2500,7000}" if quick else "{1,2500,7000}", MaxBytes="9500",
                  MaxCalls="2", MaxFiles="2" if quick else "3", MaxMembers="5", Fars="{FALSE}")
    r = lz_model(c, ["TypeOK", "XWellFormed", "XScanOrder", "XRoundTrip", "ExportL"], 2 if quick else 6, 1500, True)
    ctx.note_tlc("LzipContainer concat design (as built)", r)
    log(f"[tlc] LzipContainer concat: {r}")
    if not r.ok:
        raise ToolError(f"LzipContainer concat design: TLC reports {r.violated} (as-built design should satisfy it)")
    ctx.require_coverage(r, ["Finish", "StartRead", "RMember", "RDone"], "LzipContainer concat")
    exported = [x for x in printed_json(r, "scn")]
    if len(exported) < 20:
        raise ToolError(f"LZIP concat export produced only {len(exported)} behaviours")
    cap = 150 if quick else 2000
    multi = [x for x in exported if x["hist"]]
    single = [x for x in exported if not x["hist"]]
    if len(multi) > cap:
        multi = rnd.sample(multi, cap)
    if len(single) > cap // 3:
        single = rnd.sample(single, cap // 3)
    scns = []
    for i, a in enumerate(multi + single):
        files = list(a["hist"]) + [{"dict": a["dict"], "limit": a["limit"], "calls": a["calls"]}]
        parts = []
        for f in files:
            writes = [n for (op, n) in f["calls"] if op == "w"]
            opt = {"preset": rnd.choice([0, 1, 6]), "dict": f["dict"]}
            if f["limit"]:
                opt["limit"] = f["limit"]
            parts.append({"k": "lz", "src": "ours", "opt": opt, "n": sum(writes), "writes": writes,
                          "class": rnd.choice(["text", "seq", "lowent", "zeros", "mixed"]), "seed": rnd.getrandbits(32)})
        for mt in (False, True):
            scns.append({"id": f"lzcat-{i}-{'mt' if mt else 'st'}", "fam": "read", "fmt": "lz", "mt": mt, "parts": parts, "seed": rnd.getrandbits(32),
                         "reads": rnd.choice([[4096], [1], [7, 4096, 3], [65536]]), "want_recs": False,
                         "src_chunks": [] if mt else SRC_CHUNKS[2 + (i % (len(SRC_CHUNKS) - 2))],
                         "abstract": {"files": len(files), "members": len(a["allmembers"]), "out": a["out"]}})
    res = run_scenarios(scns)
    log(f"[impl] read/lz concat: {len(scns)} assembled inputs decoded by LZIPReader / LZIPReaderMT in {time.time()-t0:.1f}s")
    ndiv = 0
    for s, r1 in zip(scns, res):
        j.nruns += 1
        if r1["outcome"] in ("build_err", "panic", "bad_family"):
            raise ToolError(f"read scenario {s['id']}: {r1['outcome']}: {r1.get('err')}")
        a = s["abstract"]
        base = {"family": "read_lz", "mt": s["mt"], "files": a["files"]}
        j.classes.add(("read_lz", s["mt"], a["files"], a["members"], r1["outcome"]))
        if not (r1["outcome"] == "eof" and r1["matched"] == a["files"]):
            j.violation("C12", f"{'LZIPReaderMT' if s['mt'] else 'LZIPReader'} on {a['files']} concatenated files ({a['members']} members): "
                               f"{r1['err'] or ('decoded %d bytes' % r1['out_len'])}", dict(base, outcome="concat"), {"scenario": strip(s), "source": "tlc-scn"})
        if s["mt"] and r1["outcome"] == "eof" and r1["out_len"] > 0 and r1["member_count"] != a["members"]:
            j.violation("C18", f"LZIPReaderMT::member_count() = {r1['member_count']} for a file of {a['members']} members", dict(base, outcome="member_count"),
                        {"scenario": strip(s), "source": "tlc-scn"})
        if r1["outcome"] == "eof" and r1["out_len"] != a["out"]:
            ndiv += 1
            if ndiv <= 3:
                ctx.note_drift(f"read {s['id']}: {r1['out_len']} bytes decoded, the model predicts {a['out']}")
        if not r1["ref"]["ok"]:
            raise ToolError(f"liblzma rejects the concatenated .lz input of {s['id']}: {r1['ref']['err']}")
    ctx.add("behaviours_replayed", len(multi) + len(single))
    ctx.add("replay_divergences", ndiv)
    return scns, res


# --------------------------------------------------------------------------- long runs of members / streams (C12)
def run_scenarios_isolated(scns, stack_kb=1024, timeout=300, nproc=6, binary="vh_cont"):
    """One process per scenario, main-thread stack limited to stack_kb: a reader that recurses once per member /
    stream dies here instead of silently relying on an 8 MiB default stack. A dead process is data, not a tool
    error: {"outcome": "abort", "rc": .., "stderr": ..}; a timeout is {"outcome": "timeout"}."""
    import subprocess
    exe = os.path.join(core.build_harness(), binary)

    def one(s):
        try:
            p = subprocess.run(["prlimit", f"--stack={stack_kb * 1024}", exe], input=json.dumps(s) + "\n", capture_output=True, text=True, timeout=timeout)
        except subprocess.TimeoutExpired:
            return {"outcome": "timeout"}
        lines = [x for x in p.stdout.splitlines() if x.strip()]
        if p.returncode == 0 and len(lines) == 1:
            return json.loads(lines[0])
        return {"outcome": "abort", "rc": p.returncode, "stderr": p.stderr[-400:]}
    with ThreadPoolExecutor(max_workers=nproc) as ex:
        return list(ex.map(one, scns))


def judge_long(j, s, r1, source="long-runs"):
    j.nruns += 1
    a = s["abstract"]
    who = ("LZIPReaderMT" if s["mt"] else "LZIPReader") if s["fmt"] == "lz" else "XZReader (multi-stream)"
    base = {"family": "read_long_" + s["fmt"], "mt": s["mt"]}
    rep = {"scenario": strip(s), "source": source, "isolated": True}
    if r1["outcome"] in ("build_err", "bad_family"):
        raise ToolError(f"read scenario {s['id']}: {r1['outcome']}: {r1.get('err')}")
    j.classes.add(("read_long", s["fmt"], s["mt"], a["units"], r1["outcome"]))
    if r1["outcome"] in ("abort", "timeout", "panic"):
        msg = (r1.get("stderr") or r1.get("err") or "").strip().splitlines()
        j.violation("C12", f"{who} on an input of {a['units']} members / streams: the process ends with {r1['outcome']} ({msg[-1][:160] if msg else ''})",
                    dict(base, outcome=r1["outcome"]), rep)
    elif not (r1["outcome"] == "eof" and r1["matched"] == a["parts"]):
        j.violation("C12", f"{who} on an input of {a['units']} members / streams: {r1['err'] or ('decoded %d bytes, not the concatenation' % r1['out_len'])}",
                    dict(base, outcome="concat"), rep)
    elif not r1["ref"]["ok"]:
        raise ToolError(f"liblzma rejects the long input of {s['id']}: {r1['ref']['err']}")


def family_long_runs(ctx, j, quick, rnd):
    """C12: 'any number of' members / streams. The container models bound the number of units at a handful; this
    family runs the real readers over inputs with thousands of members / streams (empty ones, tiny ones, with data
    in front, in the middle and at the end) in one process each under a small stack."""
    t0 = time.time()
    scns = []
    big, mid = (20000, 3000) if quick else (120000, 20000)

    def lz(n, cls="text"):
        return {"k": "lz", "src": "ours", "opt": {"preset": 0, "dict": 4096}, "n": n, "class": cls, "seed": rnd.getrandbits(32)}

    def xz(n, check="crc32"):
        return {"k": "xz", "src": "ours", "opt": {"preset": 0, "dict": 4096, "check": check}, "n": n, "class": "text", "seed": rnd.getrandbits(32)}
    shapes = [("lz", False, [dict(lz(0), rep=big), lz(3000), dict(lz(0), rep=big)], [4096]),
              ("lz", False, [lz(500), dict(lz(0), rep=big), lz(1)], [1]),
              ("lz", False, [dict(lz(7), rep=mid), dict(lz(0), rep=mid), lz(100)], [65536]),
              ("lz", True, [dict(lz(0), rep=mid), lz(3000), dict(lz(0), rep=mid)], [4096]),
              ("lz", True, [dict(lz(5), rep=mid)], [7, 4096, 3]),
              ("xz", False, [dict(xz(0), rep=mid), xz(3000), dict(xz(0, "none"), rep=mid)], [4096]),
              ("xz", False, [xz(100), dict(xz(0), rep=mid), {"k": "zeros", "n": 8}, dict(xz(3), rep=mid)], [1000, 1])]
    for i, (fmt, mt, parts, reads) in enumerate(shapes):
        nunits = sum(max(p.get("rep", 1), 1) for p in parts if p["k"] in ("lz", "xz"))
        scns.append({"id": f"long-{fmt}-{i}", "fam": "read", "fmt": fmt, "mt": mt, "multi": True, "parts": parts, "seed": rnd.getrandbits(32),
                     "reads": reads, "want_recs": False, "src_chunks": [], "abstract": {"units": nunits, "parts": len([p for p in parts if p["k"] in ("lz", "xz")])}})
    res = run_scenarios_isolated(scns)
    for s, r1 in zip(scns, res):
        judge_long(j, s, r1)
    log(f"[impl] read/long runs: {len(scns)} inputs of up to {2 * big + 1} members / streams, one process each under a 1 MiB stack, in {time.time()-t0:.1f}s")
    return scns, res


# --------------------------------------------------------------------------- readers consume exactly their stream (C16)
def again_bad(r):
    """After read() returned 0 once, further read() calls must return 0 again and leave the source where it was."""
    ag = r.get("again")
    if ag is None:
        return None
    if any(x != "ok0" for x in ag):
        return f"read() after end of stream returned {ag}"
    if r.get("consumed_after") != r.get("consumed"):
        return f"read() after end of stream moved the source from {r.get('consumed')} to {r.get('consumed_after')}"
    return None


def judge_consume(j, s, r, predicted=None, source="grid"):
    j.nruns += 1
    if r["outcome"] in ("build_err", "panic", "bad_family"):
        raise ToolError(f"read scenario {s['id']}: {r['outcome']}: {r.get('err')}")
    fmt = s["fmt"]
    first = s["parts"][0]
    trailing = s.get("trailing") or "none"
    base = {"family": "read_" + fmt, "src": first.get("src"), "trailing": trailing,
            "end": ("declared" if first.get("opt", {}).get("expected") is not None else "marker") if fmt == "lzma" else "n/a"}
    rep = {"scenario": strip(s), "source": source}
    end0 = r["ends"][0]
    j.classes.add(("consume", fmt, base["src"], trailing, base["end"], tuple(s.get("reads") or [])[:2], first.get("class"), r["outcome"]))
    # the reference must agree that the first part is a complete valid stream of exactly that length
    # (a raw LZMA2 stream written against a preset dictionary cannot be shown to liblzma's raw decoder here)
    if first.get("opt", {}).get("pdict") is None and not (r["ref"]["ok"] and r["ref"]["total_in"] == end0):
        raise ToolError(f"liblzma does not see a valid {fmt} stream of {end0} bytes at the start of {s['id']}: {r['ref']}")
    if not (r["outcome"] == "eof" and r["matched"] >= 1 and r["out_len"] == r["content_lens"][0]):
        j.violation("C16", f"{fmt} reader on a valid stream followed by {trailing} bytes: {r['err'] or ('decoded %d of %d bytes' % (r['out_len'], r['content_lens'][0]))}",
                    dict(base, outcome="needs_or_misreads_trailing"), rep)
    elif r["consumed"] != end0:
        j.violation("C16", f"{fmt} reader ({base['src']}, {base['end']}) returned end of stream with the source at offset {r['consumed']}; the stream is "
                           f"{end0} bytes long and is followed by {r['input_len'] - end0} {trailing} bytes", dict(base, outcome="consumed"), rep)
    elif again_bad(r):
        j.violation("C16", f"{fmt} reader ({base['src']}) on a stream followed by {r['input_len'] - end0} {trailing} bytes: {again_bad(r)}",
                    dict(base, outcome="reread"), rep)
    return None


def family_consume(ctx, j, quick, rnd, pool):
    t0 = time.time()
    scns = []
    n_per = 6 if quick else 40
    shapes = []
    for fmt in ("lzma", "lzma2", "xz"):
        for src in ("ours", "ref"):
            for _ in range(n_per):
                n = rnd.choice([0, 1, 2, 17, 300, 4096, 5000, 20000, 70000] + ([] if quick else [300000, 1 << 20]))
                cls = rnd.choice(["text", "seq", "random", "mixed", "zeros", "lowent", "periodic"])
                dict_size = rnd.choice([4096, 65536, 1 << 20])
                if dict_size < 65536 and cls in ("random", "mixed") and fmt != "lzma":
                    dict_size = 65536       # D1 (small dictionary + incompressible data) belongs to another group
                opt = {"preset": rnd.choice([0, 1, 3, 6, 9]), "dict": dict_size}
                p = {"k": fmt, "src": src, "opt": opt, "n": n, "class": cls, "seed": rnd.getrandbits(32)}
                if fmt == "lzma":
                    opt["lc"], opt["lp"], opt["pb"] = rnd.choice([(3, 0, 2), (0, 0, 0), (4, 0, 2), (0, 4, 4), (2, 2, 1), (1, 3, 0)])
                    if src == "ours" and rnd.random() < 0.5:
                        opt["expected"] = n      # declared size, no end marker
                elif fmt == "lzma2":
                    if src == "ours" and rnd.random() < 0.5:
                        opt["limit"] = dict_size
                    if src == "ref" and n > 10 and rnd.random() < 0.5:
                        p["cuts"] = sorted(rnd.sample(range(1, n), min(2, n - 1)))
                else:
                    opt["check"] = rnd.choice(list(CHECK_ID))
                    if src == "ours":
                        if rnd.random() < 0.5:
                            opt["limit"] = rnd.choice([4096, 8192])
                        if n > 1:
                            k = rnd.randint(1, n - 1)
                            p["writes"] = [k, n - k]
                    elif n > 10 and rnd.random() < 0.5:
                        p["cuts"] = sorted(rnd.sample(range(1, n), min(2, n - 1)))
                        if rnd.random() < 0.5:
                            p["src"] = "forge"
                            p["hc"], p["hu"] = rnd.random() < 0.7, rnd.random() < 0.7
                shapes.append((fmt, p))
    directed = {}
    # directed shapes (third mutation round): (a) raw LZMA2 written and read with a preset dictionary shorter than,
    # as long as and longer than the dictionary: the first pass of read() then starts with a full dictionary buffer;
    # (b) .lzma with a declared size, a stream several times the dictionary and read sizes that straddle the wrap
    # point of the dictionary buffer inside one read() call
    for dict_size, pl in ((4096, 4095), (4096, 4096), (4096, 6000), (8192, 8192), (65536, 70000)):
        for n in ((300, 5000) if quick else (1, 300, 5000, 70000)):
            p = {"k": "lzma2", "src": "ours", "opt": {"preset": 1, "dict": dict_size, "pdict": pl}, "n": n, "class": "text", "seed": rnd.getrandbits(32)}
            directed[len(shapes)] = rnd.choice([[4096], [1], [100], [65536], [7, 4096, 3]])
            shapes.append(("lzma2", p))
    for dict_size, n in ((4096, 5000), (4096, 20000), (8192, 24576)) + (() if quick else ((65536, 200000),)):
        for reads in ([5000], [100], [65536], [4097, 1]):
            p = {"k": "lzma", "src": "ours", "opt": {"preset": 1, "dict": dict_size, "expected": n}, "n": n, "class": rnd.choice(["text", "lowent"]), "seed": rnd.getrandbits(32)}
            directed[len(shapes)] = reads
            shapes.append(("lzma", p))
    for i, (fmt, p) in enumerate(shapes):
        for trailing in (("none", "zeros", "random", "stream") if i not in directed else ("none", "random")):
            parts = [p]
            if trailing == "zeros":
                parts.append({"k": "zeros", "n": rnd.choice([1, 3, 4, 16, 100])})
            elif trailing == "random":
                parts.append({"k": "random", "n": rnd.choice([1, 5, 13, 100]), "seed": rnd.getrandbits(16)})
            elif trailing == "stream":
                q = dict(p, seed=rnd.getrandbits(32), n=rnd.choice([0, 100, 3000]))
                q["opt"] = dict(p["opt"])
                if "expected" in q["opt"]:
                    q["opt"]["expected"] = q["n"]
                q.pop("writes", None)
                q.pop("cuts", None)
                parts.append(q)
            scns.append({"id": f"cons-{i}-{trailing}", "fam": "read", "fmt": fmt, "multi": False, "parts": parts, "seed": rnd.getrandbits(32),
                         "src_chunks": rnd.choice(SRC_CHUNKS),
                         "reads": directed.get(i) or rnd.choice([[4096], [1], [7, 4096, 3], [65536], [2], [1000, 1]]), "trailing": trailing})
    res = run_scenarios(scns)
    log(f"[impl] consume: {len(scns)} valid streams (x trailing kinds x read sizes) read to end of stream in {time.time()-t0:.1f}s")
    for s, r1 in zip(scns, res):
        judge_consume(j, s, r1)
    return scns, res


# --------------------------------------------------------------------------- reader model vs. real XZReader on arbitrary inputs
SUPPORTED_FILTERS = {3, 4, 5, 6, 7, 8, 9, 10, 11, 0x21}


def reader_events(s, r, valid):
    """Trace_XzReader events of one `read` run (fmt xz, want_recs)."""
    ev = [{"ev": "Reset", "id": s["id"], "multi": bool(s.get("multi"))}]
    for x in r["recs"]:
        e = {"ev": "Rec"}
        for k, v in x.items():
            if k in ("at", "fprops", "why", "first", "ctrls"):
                continue
            e[k] = (False if v is None else v)
        if x["k"] == "BH":
            fl = x.get("filters") or []
            e["supported"] = bool(fl) and all(f in SUPPORTED_FILTERS for f in fl) and fl[-1] == 0x21 and 0 <= x.get("dict", -1) <= 40
            e.pop("filters", None)
        if x["k"] == "Bad":
            e = {"ev": "Rec", "k": "Trailing"}
        ev.append(e)
    ev.append({"ev": "End", "outcome": r["outcome"], "out_len": r["out_len"], "valid": bool(valid)})
    return ev


def validate_reader(ctx, j, runs, what, unit=1):
    """runs: [(scenario, result, input_is_valid)]. The reader half of XzContainer must predict the real reader's outcome."""
    events, index = [], {}
    for s, r1, valid in runs:
        if r1.get("recs") is None:
            continue
        index[s["id"]] = (s, r1)
        events.extend(reader_events(s, r1, valid))
    if not events:
        raise ToolError("no reader runs to validate")
    consts = trace_consts_xz()
    d, mod, cfg = core.write_model("Trace_XzReader", consts, spec="TSpec", invariants=["Track", "TInputWellFormed"], postcondition="Accepted")
    tp = os.path.join(d, "trace.ndjson")
    with open(tp, "w") as f:
        for e in events:
            f.write(json.dumps(e) + "\n")
    r = core.run_tlc(mod, cfg, workers=1, timeout=900, env={"TRACE": tp}, coverage=False, heap="4g", deque=True, cwd=d, xss="512m")
    ctx.note_tlc(f"trace {what} (reader model vs. real XZReader)", r)
    m = re.search(r'TRACE-REACHED", (\d+), "OF", (\d+)', r.out)
    reached, total = (int(m.group(1)), int(m.group(2))) if m else (None, None)
    tv = tviol(r)
    if tv:
        raise ToolError(f"strict parser / forge disagree with the format rules on inputs assembled from valid streams: {tv[:3]} "
                        f"(WellFormedF rejects records of a file the reference implementation produced or accepted)")
    nruns = len(index)
    if reached is not None and reached == total:
        ctx.cov["traces_validated_against_impl"] = ctx.cov.get("traces_validated_against_impl", 0) + nruns
        ctx.add("reader_traces_explained", nruns)
    else:
        rid = "?"
        for e in events[:(reached or 0) + 1]:
            if e["ev"] == "Reset":
                rid = e["id"]
        nxt = events[reached] if reached is not None and reached < len(events) else "?"
        ctx.note_drift(f"Trace_XzReader: the reader model does not explain the real XZReader on run {rid} (event {reached} of {total}): next {json.dumps(nxt)[:300]}")
    return reached == total


# --------------------------------------------------------------------------- liblzma -> ours (C03)
def ref_cfgs(rnd, quick):
    """Grid of reference encoder configurations: presets 0-9 / extreme, custom lc/lp/pb/dict/nice/mf/mode/depth, filter chains, checks,
    multi-block; pairwise-style sampling with every single-dimension value covered."""
    out = []
    maxd = (1 << 20) if quick else (8 << 20)
    for preset in range(10):
        for extreme in ((False, True) if preset in (0, 6, 9) or not quick else (False,)):
            out.append({"preset": preset, "extreme": extreme, "dict": min([1 << 18, 1 << 20, 1 << 21, 1 << 22, 1 << 22, 1 << 23, 1 << 23, 1 << 24, 1 << 25, 1 << 26][preset], maxd)})
    lclppb = [(3, 0, 2), (0, 0, 0), (4, 0, 0), (0, 4, 4), (2, 2, 1), (1, 3, 3), (0, 0, 4), (3, 1, 0)]
    for (lc, lp, pb) in lclppb:
        out.append({"preset": rnd.choice([0, 2, 5]), "lc": lc, "lp": lp, "pb": pb, "dict": rnd.choice([4096, 65536, 1 << 20])})
    for mf in ("hc3", "hc4", "bt2", "bt3", "bt4"):
        for mode in ("fast", "normal"):
            out.append({"preset": 1, "mf": mf, "mode": mode, "nice": rnd.choice([8, 32, 64, 273]), "depth": rnd.choice([0, 1, 4, 100]),
                        "dict": rnd.choice([4096, 5000, 12345, 65536, 1 << 20])})
    for d in (4096, 4097, 6144, 65536, 98304, 1 << 20, 1572864):
        out.append({"preset": 0, "dict": d})
    return out


# BCJ start offsets: non-zero, at each filter's own alignment (x86 1; ARM-Thumb, RISC-V 2; ARM, ARM64, PowerPC, SPARC 4; IA-64 16)
BCJ_OFFSETS = {"x86": [1, 3, 4097], "armthumb": [2, 6, 0x1002], "riscv": [2, 6, 0x1002], "arm": [4, 12, 0x1004], "arm64": [4, 12, 0x1004],
               "powerpc": [4, 0x1004], "sparc": [4, 0x1004], "ia64": [16, 48, 0x1010]}
REF_CHAINS_OFFSET = [[{"t": t, "p": p}] for t, ps in BCJ_OFFSETS.items() for p in ps]
REF_CHAINS = [[], [{"t": "delta", "p": 1}], [{"t": "delta", "p": 256}], [{"t": "x86", "p": 0}], [{"t": "powerpc", "p": 0}], [{"t": "ia64", "p": 0}],
              [{"t": "arm", "p": 0}], [{"t": "armthumb", "p": 0}], [{"t": "sparc", "p": 0}], [{"t": "arm64", "p": 0}], [{"t": "riscv", "p": 0}],
              [{"t": "x86", "p": 4096}], [{"t": "arm64", "p": 65536}], [{"t": "delta", "p": 4}, {"t": "x86", "p": 0}],
              [{"t": "x86", "p": 0}, {"t": "delta", "p": 2}, {"t": "arm", "p": 0}], [{"t": "delta", "p": 3}, {"t": "delta", "p": 17}, {"t": "riscv", "p": 16}]]


def family_ref_to_ours(ctx, j, quick, rnd, pool):
    t0 = time.time()
    cfgs = ref_cfgs(rnd, quick)
    scns = []
    sizes = [0, 1, 300, 5000, 70000] + ([] if quick else [400000, 3 << 20])
    classes = ["text", "random", "mixed", "zeros", "periodic", "lowent", "repeat_far"]
    k = 0
    for c in cfgs:
        for fmt in ("xz", "lzma", "lzma2"):
            reps = 1 if quick else 3
            for _ in range(reps):
                n = rnd.choice(sizes)
                opt = dict(c)
                p = {"k": fmt, "src": "ref", "opt": opt, "n": n, "class": rnd.choice(classes), "seed": rnd.getrandbits(32)}
                if fmt == "xz":
                    opt["check"] = rnd.choice(list(CHECK_ID))
                    opt["filters"] = rnd.choice(REF_CHAINS)
                    if n > 10 and rnd.random() < 0.5:
                        p["cuts"] = sorted(rnd.sample(range(1, n), min(rnd.choice([1, 2, 3]), n - 1)))
                    if rnd.random() < 0.35:
                        p["src"] = "forge"
                        p["hc"], p["hu"] = rnd.choice([(True, True), (True, False), (False, True)])
                elif fmt == "lzma2":
                    if rnd.random() < 0.4:
                        opt["filters"] = []
                    if n > 10 and rnd.random() < 0.5:
                        p["cuts"] = sorted(rnd.sample(range(1, n), min(2, n - 1)))
                scns.append({"id": f"ref-{k}", "fam": "read", "fmt": fmt, "multi": False, "parts": [p], "seed": rnd.getrandbits(32),
                             "reads": rnd.choice([[4096], [1], [7, 4096, 3], [65536], [1000]]), "want_recs": fmt in ("xz", "lzma2")})
                k += 1
    # directed rows: incompressible input of >= 64 KiB (the reference emits uncompressed LZMA2 chunks of exactly 65 536 bytes,
    # size field 0xFFFF, which the crate's own encoder never produces), highly compressible input of several MiB (LZMA chunks of
    # 2 MiB uncompressed size), every preset once on the same text
    for fmt in ("lzma2", "xz"):
        for n in (65536, 70000, 131072, 200000):
            for preset in (0, 6):
                opt = {"preset": preset, "dict": 1 << 20}
                if fmt == "xz":
                    opt["check"] = "crc32"
                scns.append({"id": f"ref-unc-{fmt}-{n}-{preset}", "fam": "read", "fmt": fmt, "multi": False, "seed": n + preset,
                             "parts": [{"k": fmt, "src": "ref", "opt": opt, "n": n, "class": "random", "seed": n}], "reads": [4096], "want_recs": fmt == "xz"})
        # forged LZMA2 payloads of uncompressed chunks with the extreme size fields (0xFFFF = 65 536 bytes is what 7-Zip style
        # encoders write for incompressible data; liblzma's decoder must accept the forged stream, see the sanity rule below)
        for (n, piece) in ((65536, 65536), (131072, 65536), (200000, 65536), (70000, 65535), (5000, 1), (300000, 4096)):
            opt = {"preset": 0, "dict": 1 << 20}
            if fmt == "xz":
                opt["check"] = "crc64"
            scns.append({"id": f"forge-unc-{fmt}-{n}-{piece}", "fam": "read", "fmt": fmt, "multi": False, "seed": n + piece,
                         "parts": [{"k": fmt, "src": "forge", "opt": opt, "n": n, "class": "random", "seed": n, "piece": piece,
                                    "hc": fmt == "xz" and piece == 65536, "hu": False}], "reads": [4096], "want_recs": fmt == "xz"})
        scns.append({"id": f"ref-big-{fmt}", "fam": "read", "fmt": fmt, "multi": False, "seed": 5,
                     "parts": [{"k": fmt, "src": "ref", "opt": dict({"preset": 1, "dict": 1 << 20}, **({"check": "crc64"} if fmt == "xz" else {})),
                                "n": 5 << 20, "class": "zeros", "seed": 1}], "reads": [65536], "want_recs": fmt == "xz"})
    for ci, chain in enumerate(REF_CHAINS_OFFSET):
        for src in (("ref",) if quick else ("ref", "forge")):
            scns.append({"id": f"ref-bcjoff-{ci}-{src}", "fam": "read", "fmt": "xz", "multi": False, "seed": ci, "reads": [4096], "want_recs": True,
                         "parts": [{"k": "xz", "src": src, "opt": {"preset": 0, "dict": 1 << 16, "check": "crc32", "filters": chain},
                                    "n": 20000, "class": rnd.choice(["mixed", "random", "text"]), "seed": ci, "hc": False, "hu": src == "forge"}]})
    # mixed compressibility with LZMA_SYNC_FLUSH at the segment boundaries: the reference then emits every kind of chunk header with
    # zero high size bits - 0xE0 (first chunk), 0x01 / 0x02 (uncompressed), 0xC0 (new properties after an uncompressed first chunk),
    # 0xA0 (state reset after an uncompressed chunk), 0x80 (plain) - the coverage is measured with the strict chunk walker below
    shapes = [
        [("text", 30000), ("random", 70000), ("text", 20000)],                 # e0 02 02 a0
        [("random", 5000), ("text", 20000), ("text", 20000)],                  # 01 c0 80
        [("text", 3000), ("text", 3000), ("random", 3000), ("lowent", 500), ("seq", 9000)],   # e0 80 02 a0 80
        [("random", 3000), ("random", 3000), ("zeros", 60000), ("random", 100), ("text", 64000)],
        [("text", 100), ("random", 66000), ("text", 1)],
    ]
    for fmt in ("lzma2", "xz"):
        for si, segs in enumerate(shapes):
            for preset in ((0, 6) if quick else (0, 1, 3, 6, 9)):
                cuts, acc = [], 0
                for (_, n) in segs[:-1]:
                    acc += n
                    cuts.append(acc)
                opt = {"preset": preset, "dict": 1 << 20}
                if fmt == "xz":
                    opt["check"] = rnd.choice(list(CHECK_ID))
                scns.append({"id": f"ref-mixed-{fmt}-{si}-{preset}", "fam": "read", "fmt": fmt, "multi": False, "seed": si * 16 + preset,
                             "parts": [{"k": fmt, "src": "ref", "opt": opt, "n": acc + segs[-1][1], "class": "mixed", "segs": [list(x) for x in segs],
                                        "syncs": cuts, "seed": 1000 + si}], "reads": rnd.choice([[4096], [1], [65536]]), "want_recs": True})
    res = run_scenarios(scns)
    log(f"[impl] liblzma -> ours: {len(scns)} reference-encoded streams decoded by the crate in {time.time()-t0:.1f}s")
    # measured coverage of chunk-header kinds (control byte with zero high size bits) in the reference streams
    seen = collections.defaultdict(set)
    for s, r1 in zip(scns, res):
        if s["parts"][0]["src"] != "ref":
            continue
        for x in r1.get("recs") or []:
            if x.get("k") == "Chunk":
                seen[s["fmt"]].add(x["ctrl"])
            elif x.get("k") == "Data":
                seen[s["fmt"]].update(x.get("ctrls") or [])
    need = {0x01, 0x02, 0x80, 0xA0, 0xC0, 0xE0}
    for fmt in ("lzma2", "xz"):
        if not need <= seen[fmt]:
            raise ToolError(f"reference grid ({fmt}) does not contain every chunk-header kind with zero high size bits: missing "
                            f"{sorted(hex(c) for c in need - seen[fmt])}")
    ctx.cov["reference_chunk_controls_seen"] = {fmt: sorted(hex(c) for c in v) for fmt, v in seen.items()}
    rruns = []
    for s, r1 in zip(scns, res):
        j.nruns += 1
        p = s["parts"][0]
        opt = p["opt"]
        if r1["outcome"] in ("build_err", "panic", "bad_family"):
            if r1["outcome"] == "build_err":
                raise ToolError(f"reference encoder rejected configuration of {s['id']}: {r1.get('err')} {opt}")
            # confirm with the reference alone that the input is a valid stream holding the data
            chk = run_scenarios([dict(strip(s), ref_only=True, id=s["id"] + "-refonly")])[0]
            if not (chk.get("ref", {}).get("ok") and chk["ref"]["len"] == chk["content_lens"][0]):
                raise ToolError(f"the crate panicked on {s['id']} but liblzma does not accept that input either: {chk.get('ref')}")
            j.violation("C03", f"the crate's {s['fmt']} reader panicked on a valid stream ({p['src']}, preset {opt.get('preset')}, {p['n']} bytes of "
                               f"{p['class']} data, uncompressed chunks of {p.get('piece') or 'n/a'} bytes) that liblzma decodes: {r1.get('err')}",
                        {"family": "ref_to_ours", "fmt": s["fmt"], "src": p["src"], "unc_piece": p.get("piece") or 0, "outcome": "panic"},
                        {"scenario": strip(s), "source": "grid"})
            continue
        if not (r1["ref"]["ok"] and r1["ref"]["len"] == r1["content_lens"][0]):
            raise ToolError(f"liblzma does not decode its own stream of {s['id']}: {r1['ref']}")
        fc = "+".join(f["t"] for f in opt.get("filters") or []) or "none"
        j.classes.add(("ref_to_ours", s["fmt"], p["src"], opt.get("preset"), bool(opt.get("extreme")), fc, opt.get("check"), opt.get("mf"), opt.get("mode"),
                       (opt.get("lc"), opt.get("lp"), opt.get("pb")), len(p.get("cuts") or []), p.get("hc"), p.get("hu")))
        base = {"family": "ref_to_ours", "fmt": s["fmt"], "src": p["src"], "filters": fc, "unc_piece": p.get("piece") or 0,
                "size_fields": bool(p.get("hc") or p.get("hu")), "blocks": "multi" if p.get("cuts") else "single"}
        if not (r1["outcome"] == "eof" and r1["matched"] >= 1 and r1["out_len"] == r1["content_lens"][0]):
            j.violation("C03", f"the crate does not decode a {s['fmt']} stream produced by liblzma ({p['src']}, preset {opt.get('preset')}, filters {fc}, "
                               f"options {{{', '.join(f'{a}={b}' for a, b in opt.items() if a not in ('filters',))}}}): "
                               f"{r1['err'] or ('decoded %d of %d bytes' % (r1['out_len'], r1['content_lens'][0]))}", dict(base, outcome="decode"),
                        {"scenario": strip(s), "source": "grid"})
        elif r1["consumed"] != r1["ends"][0]:
            j.violation("C16", f"{s['fmt']} reader consumed {r1['consumed']} of a {r1['ends'][0]}-byte reference stream", dict(base, outcome="consumed"),
                        {"scenario": strip(s), "source": "grid"})
        if s["fmt"] == "xz":
            rruns.append((s, r1, True))
    validate_reader(ctx, j, rruns, "liblzma -> ours")
    return scns, res


# --------------------------------------------------------------------------- MT part of C18 (reuses the lead's MT machinery)
def family_mt_units(ctx, j, quick, rnd):
    """Unit sizes of the MT writers and unit counts of the MT readers under random schedules of the deterministic runtime:
    the C18 verdicts of mtlib.judge (the other verdicts belong to C08 / C09 / C10 and are judged by those checks). The
    scenario shapes are the lead's (mtwriter.cfgs / mtplans.reader_cfgs): full and partial units, flushes, one small write
    followed by one huge write crossing several unit boundaries (w-merged-*), readers over streams whose later units begin
    with an uncompressed dictionary-reset chunk."""
    try:
        from . import mtlib
        from checks import mtcommon, mtwriter, mtplans
    except Exception as e:          # the MT machinery is owned by the lead; degrade gracefully
        ctx.assumptions.append(f"MT part of C18 skipped: MT machinery not importable ({e})")
        return [], []
    scns = []
    n = 10 if quick else 100
    wcfgs = [c for c in mtwriter.cfgs(True) if c["name"].startswith(("w-merged", "w-ffx", "w-partials", "w-midflush", "w-3w", "w-1w", "w-empty"))]
    if not any(c["name"].startswith("w-merged") for c in wcfgs):
        raise ToolError("the MT writer scenario shapes no longer contain w-merged-* (one small + one huge write)")
    for c in wcfgs:
        for i in range(n):
            scns.append(mtplans.make_scn(c, f"c18-{c['name']}-{i}", {"kind": "random", "seed": rnd.getrandbits(40)}))
    rcfgs = mtplans.reader_cfgs([
        ("lz2-3u", "lzma2", 2, ["I", "I", "I"], dict(), "rand"),
        ("lz2-dep", "lzma2", 2, ["I", "D", "I"], dict(), "rand"),
        ("lz2-unc", "lzma2", 2, ["I", "I", "I"], dict(extra=dict(unc=[1, 2])), "rand"),
        ("lz2-unc0", "lzma2", 3, ["I", "I", "D", "I"], dict(extra=dict(unc=[0, 3])), "rand"),
        ("lz2-1u", "lzma2", 1, ["I"], dict(), "rand"),
        ("lzip-3m", "lzip", 2, ["M", "M", "M"], dict(), "rand"),
        ("lzip-2m-3w", "lzip", 3, ["M", "M"], dict(), "rand"),
        ("lzip-1m", "lzip", 2, ["M"], dict(), "rand"),
    ])
    for c in rcfgs:
        for i in range(n):
            scns.append(mtplans.make_scn(c, f"c18-{c['name']}-{i}", {"kind": "random", "seed": rnd.getrandbits(40)}))
    res = mtlib.run_scenarios(scns)
    for s, r1 in zip(scns, res):
        j.nruns += 1
        j.classes.add(("mt", s["family"], s["workers"], tuple(s.get("chunks") or [c["op"] for c in s.get("calls", [])]), r1.get("outcome")))
        for (pid, what, sig) in mtlib.judge(s, r1):
            rep = dict(s)
            rep["log"] = False
            j.violation(pid, what, sig, {"scenario": rep, "source": "mt-random", "mt": True})
    ctx.add("mt_executions", len(scns))
    return scns, res


# --------------------------------------------------------------------------- XZ index with many / large records (C02 C03)
# The multibyte integers of the index (record count, unpadded size, uncompressed size) change their encoded length at 128
# and 16384. XzContainer is model-checked with a small VliBase so that every combination of length classes is reached with
# a handful of blocks; each class vector the model reaches is concretised with real block counts / sizes that put the real
# base-128 encodings into the same classes.
MANY_BLOCKS = {1: [1, 127], 2: [128, 129, 300], 3: [16384]}


def many_scn(sid, classes, shape, rnd, nblocks, src="ours"):
    """classes = (count length, unpadded length, uncompressed length) -> xz_write scenario (or forged input for the reader)."""
    clen, ulen, dlen = classes
    # uncompressed-size class: block size 100 bytes is not possible for full blocks (block_size >= dict >= 4096): class 1 only
    # through a short last / only block; class 2: 4096-byte blocks; class 3: 65536-byte blocks
    bsz = 65536 if dlen >= 3 else 4096
    # unpadded-size class: zeros compress to < 100 bytes per block (1 byte), text to some hundred (2), random 64 KiB to > 16384 (3)
    cls = "random" if ulen >= 3 else ("text" if ulen == 2 else "zeros")
    if cls == "random":
        bsz = 65536
    total = nblocks * bsz if dlen >= 2 else (nblocks - 1) * bsz + 100
    total = max(total, 0)
    if shape == "one":
        writes = [total]
    else:
        a = max(1, total // 3 + 1)
        writes = [a, 1, max(0, total - a - 1)] if total > 2 else [total]
    calls = [{"op": "write", "n": n} for n in writes if n > 0] + [{"op": "finish"}]
    return {"id": sid, "fam": "xz_write", "seed": rnd.getrandbits(32), "class": cls, "calls": calls, "reads": [65536],
            "opt": {"preset": 0, "dict": bsz, "check": rnd.choice(["none", "crc32", "crc64"]), "limit": bsz, "filters": []},
            "sink_chunks": rnd.choice([[], [3], [7], [1, 3, 5, 7]]), "want_blocks": nblocks, "vli": [clen, ulen, dlen]}


def vli_len(v):
    n = 1
    while v >= 128:
        v >>= 7
        n += 1
    return n


def family_xz_many(ctx, j, quick, rnd, pool):
    t0 = time.time()
    # the model with base 2: 2 blocks need a 2-digit count, 4 blocks a 3-digit one
    c = xz_consts(CheckIds="{0,1}", LimitOpts="{1,2}", DictUnits="1", HSizes="{12}", CSizes="{5}", MaxUnits="5", MaxWrite="5", MaxBlocks="6",
                  Multis="{FALSE}", VliBase="2")
    r = xz_model(c, XZ_INV + ["ExportW"], 2 if quick else 4, 900, True)
    ctx.note_tlc("XzContainer design, multibyte length classes (VliBase 2)", r)
    log(f"[tlc] XzContainer length classes: {r}")
    if not r.ok:
        raise ToolError(f"XzContainer (VliBase 2): TLC reports {r.violated}: the index size / padding rules of the model are inconsistent")
    classes = collections.defaultdict(set)
    for x in printed_json(r, "scn"):
        st = x["streams"][0]
        if st["units"] > 0:
            classes[min(st["vli"][0], 3)].add("one" if sum(1 for (op, n) in st["calls"] if op == "w") == 1 else "many")
    if set(classes) != {1, 2, 3}:
        raise ToolError(f"the model did not reach all record-count length classes: {dict(classes)}")
    scns = []
    for clen in (1, 2, 3):
        for nb in MANY_BLOCKS[clen]:
            if clen == 3 and quick:
                continue        # 16384 blocks through the real writer take minutes (one encoder per block): thorough tier only
            for shape in sorted(classes[clen]):
                for (ulen, dlen) in ((1, 2), (2, 2), (2, 1)) + (((3, 3),) if nb <= 129 and not quick or nb == 128 else ()):
                    if (ulen, dlen) == (3, 3) and nb > 129:
                        continue
                    scns.append(many_scn(f"many-{nb}-{shape}-{ulen}{dlen}", (clen, ulen, dlen), shape, rnd, nb))
    res = run_scenarios(scns)
    log(f"[impl] xz_write (many blocks): {len(scns)} runs in {time.time()-t0:.1f}s")
    small = []
    for s, r1 in zip(scns, res):
        judge_xz_write(j, s, r1, None, "length-classes")
        if r1.get("outcome") != "ok":
            continue
        ix = [x for x in r1["recs"] if x["k"] == "Index"]
        if ix:
            recs = ix[0]["recs"]
            got = [vli_len(len(recs)), max([vli_len(a) for a, b in recs] or [1]), max([vli_len(b) for a, b in recs] or [1])]
            j.classes.add(("xz_many", tuple(got), len(recs)))
            if got[0] != s["vli"][0] or len(recs) != s["want_blocks"]:
                ctx.note_drift(f"xz_write {s['id']}: {len(recs)} index records (length classes {got}), intended {s['want_blocks']} ({s['vli']})")
        if len(r1.get("recs", [])) <= 1500:
            small.append((s, r1))
    # reader side for the 3-byte record count: forged stream of 16400 tiny blocks (uncompressed chunks), confirmed by liblzma
    n = 16400 * 4
    fs = {"id": "many-forged-16400", "fam": "read", "fmt": "xz", "multi": False, "seed": 1, "reads": [65536], "want_recs": False,
          "parts": [{"k": "xz", "src": "forge", "opt": {"preset": 0, "dict": 4096, "check": "crc32"}, "n": n, "class": "text", "seed": 1,
                     "piece": 4096, "cuts": list(range(4, n, 4)), "hc": True, "hu": False}]}
    fr = run_scenarios([fs])[0]
    j.nruns += 1
    if fr["outcome"] in ("build_err", "bad_family") or not fr.get("ref", {}).get("ok"):
        raise ToolError(f"forged 16400-block stream is not accepted by liblzma: {fr.get('err')} {fr.get('ref')}")
    j.classes.add(("xz_many", "forged", 16400, fr["outcome"]))
    if not (fr["outcome"] == "eof" and fr["matched"] >= 1 and fr["out_len"] == n):
        j.violation("C03", f"XZReader does not decode a valid stream of 16400 blocks (3-byte record count in the index) that liblzma decodes: "
                           f"{fr['err'] or fr['outcome']}", {"family": "ref_to_ours", "fmt": "xz", "src": "forge", "blocks": "16400", "outcome": "decode"},
                    {"scenario": fs, "source": "length-classes"})
    return scns, res, small
