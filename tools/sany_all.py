#!/usr/bin/env python3
"""Parses every specification module with SANY (part of setup: fails early on a broken spec)."""
import glob, os, subprocess, sys
S = "/verif/spec"
os.makedirs("/verif/work/tmp", exist_ok=True)
bad = 0
for f in sorted(glob.glob(S + "/*.tla")):
    p = subprocess.run(["java", "-Djava.io.tmpdir=/verif/work/tmp", "-cp",
                        "/opt/veriftools/tla/tla2tools.jar:/opt/veriftools/tla/CommunityModules-deps.jar",
                        "tla2sany.SANY", os.path.basename(f)], cwd=S, capture_output=True, text=True)
    ok = "Semantic errors" not in p.stdout and "Fatal errors" not in p.stdout and "*** Errors" not in p.stdout and p.returncode == 0
    print(("ok   " if ok else "FAIL ") + os.path.basename(f))
    if not ok:
        bad += 1
        print(p.stdout[-1500:])
sys.exit(1 if bad else 0)
