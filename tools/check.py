#!/usr/bin/env python3
"""Entry point of every MANIFEST command: python3 tools/check.py <Cxx> --tier quick|thorough [--replay file]"""
import argparse, importlib, os, sys
sys.path.insert(0, os.path.dirname(os.path.abspath(__file__)))
from vlib import core

def main():
    ap = argparse.ArgumentParser()
    ap.add_argument("pid")
    ap.add_argument("--tier", default=os.environ.get("VERIF_TIER", "quick"), choices=["quick", "thorough"])
    ap.add_argument("--replay", default=None)
    a = ap.parse_args()
    os.chdir(core.VERIF)
    mod = importlib.import_module("checks." + a.pid.lower())
    core.main_wrapper(lambda: mod.run(a.tier, a.replay))

if __name__ == "__main__":
    main()
