"""Group D helpers (C07 / C11 / C17 / C19): batched harness runs, FilterStream model configurations, tours,
concretisation of FilterStream behaviours, trace assembly."""
import json, os, re, random, collections
from concurrent.futures import ThreadPoolExecutor
from vlib import core, mtlib
from vlib.core import log, ToolError

ARCHS = ["x86", "arm", "armthumb", "arm64", "ppc", "sparc", "ia64", "riscv"]
ARCH_KA = {"x86": (5, 1), "arm": (4, 4), "arm64": (4, 4), "ppc": (4, 4), "sparc": (4, 4), "armthumb": (4, 2),
           "ia64": (16, 16), "riscv": (8, 2)}
KNOWN_ARCHS = ["x86", "armthumb", "riscv"]      # scan step depends on content: head positions matter
WGET = {"x86": "wget-x86", "arm": "wget-arm", "armthumb": "wget-arm-thumb", "arm64": "wget-arm64", "ppc": "wget-ppc",
        "sparc": "wget-sparc", "ia64": "wget-ia64", "riscv": "wget-riscv"}

ASBUILT_FILE = os.path.join(core.VERIF, "spec", "asbuilt_filters.json")


def asbuilt(section, default):
    d = dict(default)
    if os.path.exists(ASBUILT_FILE):
        d.update(json.load(open(ASBUILT_FILE)).get(section, {}))
    return d


# as-built variant constants of FilterStream (what the current tree does; justified by trace validation)
FS_ASBUILT = asbuilt("filters", {"Buffered": "FALSE", "WriteAll": "FALSE", "DeltaWriteAll": "FALSE"})


def run_cases(binary, cases, nproc=None, timeout=1500, per_batch=None):
    """Runs JSON cases through a line-oriented harness binary in parallel batches; results in order."""
    if not cases:
        return []
    nproc = nproc or min(core.NCPU, 12)
    nb = max(1, min(nproc * 3, len(cases) // (per_batch or 8) + 1))
    batches = [[] for _ in range(nb)]
    for i, c in enumerate(cases):
        batches[i % nb].append((i, c))
    batches = [b for b in batches if b]
    jobs = [([], "\n".join(json.dumps(c) for (_, c) in b) + "\n") for b in batches]
    res = core.run_bin_parallel(binary, jobs, timeout=timeout, nproc=nproc)
    out = [None] * len(cases)
    for b, r in zip(batches, res):
        lines = [x for x in r.stdout.splitlines() if x.strip()]
        if r.returncode != 0 or len(lines) != len(b):
            raise ToolError(f"{binary} failed rc={r.returncode}: got {len(lines)} of {len(b)} results\n{r.stderr[-2000:]}")
        for (i, _), line in zip(b, lines):
            out[i] = json.loads(line)
    return out


def run_cases_isolated(binary, cases, nproc=1, timeout=120, as_limit=6 << 30):
    """One process per case, for cases that may abort the process or commit a lot of memory (huge dictionaries:
    with the `optimization` feature the match-finder tables are 64-byte aligned and therefore really zero-filled
    at construction, about 4 x dict (HC4) / 8 x dict (BT4) bytes). Every child runs under a hard address-space
    limit (prlimit --as) and a timeout, and by default strictly one at a time, so that a grid point can never
    exhaust the machine. Results: the JSON line, or {"abort": rc, "stderr": ..} when the process died,
    {"resource": why} when it hit the address-space limit or the timeout (no verdict)."""
    import subprocess
    from concurrent.futures import ThreadPoolExecutor
    if not cases:
        return []
    exe = os.path.join(core.build_harness(), binary)

    def one(c):
        cmd = ["prlimit", f"--as={as_limit}", exe]
        try:
            p = subprocess.run(cmd, input=json.dumps(c) + "\n", capture_output=True, text=True, timeout=timeout)
        except subprocess.TimeoutExpired:
            return {"id": c.get("id"), "resource": f"timeout after {timeout}s"}
        lines = [x for x in p.stdout.splitlines() if x.strip()]
        if p.returncode == 0 and len(lines) == 1:
            return json.loads(lines[0])
        err = p.stderr[-600:]
        if "memory allocation of" in err or "out of memory" in err.lower():
            return {"id": c.get("id"), "resource": "allocation refused under the address-space limit: " + err.strip().splitlines()[-1][:120]}
        return {"id": c.get("id"), "abort": p.returncode, "stderr": err}
    with ThreadPoolExecutor(max_workers=max(1, nproc)) as pool:
        return list(pool.map(one, cases))


# --------------------------------------------------------------------------- FilterStream models
def fs_consts(mode, **kw):
    c = dict(Mode='"%s"' % mode, B="6", K="3", A="1", Lens="{7}", HeadChoices="{}", ReadSizes="{0,1,2,5,6,7,99}",
             SrcChunks="{1,2,99}", WriteSizes="{0,1,2,3,99}", SinkCaps="{1,99}",
             Buffered=FS_ASBUILT["Buffered"], WriteAll=FS_ASBUILT["WriteAll"], R="4", Dists="{1,2,3,4}", Role='"w"')
    if mode == "delta":
        c["WriteAll"] = FS_ASBUILT["DeltaWriteAll"]
    c.update({k: str(v) for k, v in kw.items()})
    return c


def head_choices(positions, step, max_heads):
    """TLA+ text of the set of head placements [positions -> step] with at most max_heads heads."""
    import itertools
    out = []
    for m in range(0, max_heads + 1):
        for comb in itertools.combinations(positions, m):
            out.append("<<>>" if not comb else "(" + " @@ ".join(f"{p} :> {step}" for p in comb) + ")")
    return "{" + ", ".join(out) + "}"


def fs_model(consts, invariants=(), dump=None, workers=4, timeout=900, coverage=True, continue_=False):
    d, mod, cfg = core.write_model("FilterStream", consts, invariants=invariants, seq_consts=("HeadChoices",))
    dot = os.path.join(d, "graph.dot") if dump else None
    r = core.run_tlc(mod, cfg, workers=workers, cwd=d, timeout=timeout, dump=dot, coverage=coverage and not dump,
                     continue_=continue_)
    return r, dot


_fun_re = re.compile(r"(\d+) :> (\d+)")


def parse_heads(txt):
    """TLC prints a function as (2 :> 3 @@ 5 :> 3) or <<>>."""
    return [[int(a), int(b)] for a, b in _fun_re.findall(txt)]


def split_args(s):
    """Splits a label's argument list at top-level commas."""
    out, depth, cur = [], 0, ""
    for ch in s:
        if ch in "([{<":
            depth += 1
        elif ch in ")]}>":
            depth -= 1
        if ch == "," and depth == 0:
            out.append(cur.strip())
            cur = ""
        else:
            cur += ch
    if cur.strip():
        out.append(cur.strip())
    return out


def parse_label(lab):
    m = re.match(r"^(\w+)(?:\((.*)\))?$", lab.strip(), re.S)
    if not m:
        return lab, []
    return m.group(1), split_args(m.group(2)) if m.group(2) else []


def tour_scripts(dot):
    """Edge-covering tour of a dumped FilterStream graph -> list of scripts (action name, args) per path."""
    init, edges, ne = mtlib.load_graph(dot)
    paths = mtlib.tour(init, edges)
    scripts = []
    for p in paths:
        scripts.append([parse_label(lab) for (_, lab, _) in p])
    return scripts, ne


def scale_pos(x, bm, a_real, breal=4096):
    """Maps a model stream position to a real one, keeping its distance to the nearest buffer boundary."""
    q, rem = divmod(x, bm)
    if rem <= bm // 2:
        v = q * breal + rem * a_real
    else:
        v = (q + 1) * breal - (bm - rem) * a_real
    return v


def concretise_reader(script, arch, bm=6, seed=0, variant=0):
    """FilterStream reader behaviour -> vh_filter case (known-head code, read sizes, source chunk sizes)."""
    k, a = ARCH_KA[arch]
    reads, chunks, heads, n = [], [], [], 0
    tables = [{0: 0, 1: 1, 2: k - 1, 3: k, 5: 4095, 6: 4096, 7: 4097, 99: 1 << 16},
              {0: 0, 1: a, 2: 7, 3: 13, 5: 4093, 6: 4096, 7: 4099, 99: 20011}]
    rt = tables[variant % 2]
    ct = {1: 1, 2: k - 1, 3: k, 99: 0}
    for (name, args) in script:
        if name == "RChoose":
            n = int(args[0])
            heads = parse_heads(args[1])
        elif name == "RCall":
            v = int(args[0])
            reads.append(rt.get(v, v))
        elif name == "RFill":
            m = int(args[0])
            if m > 0:
                chunks.append(m if m < 3 else 0)
    ln = scale_pos(n, bm, a)
    ln = max(ln, 1)
    force = sorted(set(scale_pos(h, bm, a) for h, _ in heads))
    if not reads or all(x == 0 for x in reads):
        reads = reads + [1 << 16]
    # source chunks: model 1 -> 1 byte, 2 -> K-1 bytes, else unlimited (0)
    chunks = [ct.get(c, 0) if c else 0 for c in chunks] or [0]
    return {"kind": "bcj", "arch": arch, "start": 0,
            "data": {"gen": "known", "len": ln, "seed": seed, "density": 12, "force": force},
            "reads": reads, "src_chunks": chunks, "trace": True}


def reset_event(mode, res, dist=1):
    return {"op": "Reset", "n": 0, "ret": 0, "len": res["n"], "heads": res.get("heads", []), "dist": dist, "eq": 0}


def norm_events(evs):
    out = []
    for e in evs:
        out.append({"op": e["op"], "n": e.get("n", 0), "ret": e.get("ret", 0), "len": 0, "heads": [], "dist": 0, "eq": 0})
    return out


def fs_trace_consts(mode, arch=None, role="w", buffered=None, writeall=None):
    k, a = ARCH_KA[arch] if arch else (3, 1)
    c = fs_consts(mode, B="4096", K=str(k), A=str(a), Lens="{}", R="256", Dists="{}", Role='"%s"' % role,
                  ReadSizes="{}", SrcChunks="{}", WriteSizes="{}", SinkCaps="{}")
    if buffered is not None:
        c["Buffered"] = buffered
    if writeall is not None:
        c["WriteAll"] = writeall
    return c


def validate_runs(ctx, name, consts, runs, invariants=("Track",), timeout=900):
    """runs: list of event lists (each starting with its Reset event). Returns (ok, reached, total, next event)."""
    lines = []
    for evs in runs:
        lines.extend(json.dumps(e) for e in evs)
    ok, reached, total, r = core.validate_events("Trace_FilterStream", consts, lines, invariants=invariants, timeout=timeout)
    ctx.note_tlc("trace " + name, r)
    nxt = lines[reached] if (reached is not None and reached < len(lines)) else "?"
    return ok, reached, total, nxt, r


def parallel(fns, workers=4):
    with ThreadPoolExecutor(max_workers=workers) as pool:
        futs = [pool.submit(f) for f in fns]
        return [f.result() for f in futs]
