"""Shared driver of the MT checks C08 / C09 / C10: stages 1-3 of DESIGN.md section 2.1 on the
MtReader / MtWriter specifications. Each property's check selects scenario families and keeps the
verdicts that belong to it (a violation of a sibling property found on the way is reported by that
sibling's own check, which runs the same scenario)."""
import json, os, random, time
from vlib import core, mtlib
from vlib.core import log, ToolError


def cex_steps(r, silent):
    steps = []
    for s in r.trace[1:]:
        name, args = mtlib.parse_label(s["action"])
        if name in silent or name in ("Stuttering", "Done"):
            continue
        waiter = -1
        if name == "CSNotifyW":
            w = int(args[-1])
            waiter = w if w != 0 else -1
        steps.append([mtlib.label_tid(name, args), [], False, waiter])
    return steps


def scn_from_consts(fam, consts, sid, policy, extra=None):
    s = {"id": sid, "family": fam, "chunks": consts["Chunks"], "terminated": consts["Terminated"] == "TRUE",
         "bad": eval(consts["BadUnits"].replace("{", "[").replace("}", "]")),
         "panic": eval(consts["PanicUnits"].replace("{", "[").replace("}", "]")),
         "empty": eval(consts["EmptyUnits"].replace("{", "[").replace("}", "]")),
         "workers": int(consts["MaxWorkers"]),
         "drop_after": None if consts["DropAfter"] == "99" else int(consts["DropAfter"]),
         "calls_after_err": int(consts.get("CallsAfterErr", "0")),
         "policy": policy}
    if extra:
        s.update(extra)
    return s


class MtRun:
    def __init__(self, ctx, props):
        self.ctx = ctx
        self.props = set(props)
        self.nruns = 0
        self.classes = set()
        self.traces_ok = 0
        self.traces_rejected = 0
        self.diverged = 0
        self.en_mismatch = 0
        self.tour_paths = 0
        self.sibling = collections_counter()

    # ---- verdict plumbing
    def judge_all(self, scns, results, source):
        for s, r in zip(scns, results):
            self.nruns += 1
            self.classes.add((s["family"], mtlib.scenario_class(s), s["workers"], r["outcome"], source))
            for (pid, what, sig) in mtlib.judge(s, r):
                if pid in self.props:
                    replay = dict(s)
                    replay["log"] = False
                    self.ctx.violation(what, sig, {"scenario": replay, "source": source})
                else:
                    self.sibling[pid] += 1
            if r.get("divergence"):
                self.diverged += 1
            if r.get("en_mismatch"):
                self.en_mismatch += 1

    # ---- stage 1 (+ replay of design counter-examples)
    def design(self, fam, base, consts, invariants, properties, silent, name, workers=4, timeout=600):
        r = mtlib.model_check(base, consts, invariants, properties, workers=workers, timeout=timeout)
        self.ctx.note_tlc(name, r)
        log(f"[tlc] {name}: {r}")
        if r.ok:
            return r
        # counter-example on the as-built design: only an implementation witness makes it a violation
        steps = cex_steps(r, silent)
        s = scn_from_consts(fam, consts, "cex-" + name, {"kind": "guided", "steps": steps})
        res = mtlib.run_scenarios([s])[0]
        vs = mtlib.judge(s, res)
        if not vs:
            raise ToolError(f"TLC reports {r.violated} for the as-built design {name} but the implementation does not "
                            f"reproduce it (divergence={res.get('divergence')}): the model misrepresents the code")
        self.judge_all([s], [res], "tlc-cex")
        return r

    # ---- stage 2: transition tour
    def tour(self, fam, base, consts, silent, name, max_paths=None, variant_note=None, seed=0):
        d, mod, cfg = mtlib.write_model(base, consts, spec="SpecSafe")
        dot = os.path.join(d, "graph.dot")
        r = core.run_tlc(mod, cfg, workers=4, timeout=600, cwd=d, dump=dot, coverage=False)
        self.ctx.note_tlc("tour-graph " + name, r)
        init, edges, ne = mtlib.load_graph(dot)
        os.remove(dot)
        paths = mtlib.tour(init, edges)
        total = len(paths)
        if max_paths and len(paths) > max_paths:
            rnd = random.Random(seed)
            paths = rnd.sample(paths, max_paths)
        scns = []
        for i, p in enumerate(paths):
            steps = mtlib.guided_steps(p, edges, silent)
            scns.append(scn_from_consts(fam, consts, f"tour-{name}-{i}", {"kind": "guided", "steps": steps}))
        t0 = time.time()
        res = mtlib.run_scenarios(scns)
        self.tour_paths += len(scns)
        log(f"[tour] {name}: graph {r.distinct} states {ne} edges; {total} covering paths, replayed {len(scns)} in {time.time()-t0:.1f}s")
        self.judge_all(scns, res, "tlc-tour" + (":" + variant_note if variant_note else ""))
        ndiv = sum(1 for x in res if x.get("divergence"))
        nen = sum(1 for x in res if x.get("en_mismatch"))
        if variant_note is None and (ndiv or nen):
            first = next(x for x in res if x.get("divergence") or x.get("en_mismatch"))
            self.ctx.note_drift(f"{name}: {ndiv} tour paths diverged, {nen} enabled-set mismatches; first: "
                                f"{first.get('divergence') or first.get('en_mismatch')}")
        return len(scns), ndiv, nen

    # ---- stage 3: trace validation by TLC
    def validate(self, base_trace, consts, results, name, invariants=("Track", "InOrder", "WorkerBound")):
        """Concatenates the logs of `results` (all recorded under the same constants) and lets TLC validate them."""
        lines = []
        for r in results:
            lines.append(json.dumps({"t": -1, "op": "Reset", "o": -1, "v": 0}))
            lines.extend(mtlib.trace_lines(r))
        d, mod, cfg = mtlib.write_model(base_trace, consts, spec="TSpec", invariants=invariants,
                                        postcondition="Accepted")
        tp = os.path.join(d, "trace.ndjson")
        with open(tp, "w") as f:
            f.write("\n".join(lines) + "\n")
        ok, reached, total, r = core.validate_trace(mod, cfg, tp, cwd=d, timeout=600)
        self.ctx.note_tlc("trace " + name, r)
        if ok:
            self.traces_ok += len(results)
        else:
            self.traces_rejected += 1
            nxt = lines[reached] if reached is not None and reached < len(lines) else "?"
            self.ctx.note_drift(f"trace spec {base_trace} rejected {name} after event {reached} of {total}; next event {nxt}"
                                + (f" (TLC: {r.violated})" if r.violated and r.violated != "postcondition" else ""))
        return ok, reached, total


def collections_counter():
    import collections
    return collections.Counter()
