"""Plans (lists of model configurations + what to do with each) and their executor for the MT checks."""
import json, os, random, time
from concurrent.futures import ThreadPoolExecutor
from vlib import core, mtlib
from vlib.core import log, ToolError
from checks import mtcommon

TLC_TIMEOUT = 5400   # generous: a timeout is an infrastructure failure (exit 2), never a verdict

READER = dict(base="MtReader", trace="Trace_MtReader", inv=mtlib.READER_INV, props=mtlib.READER_PROPS,
              silent=mtlib.SILENT_READER)


def reader_cfgs(rows):
    out = []
    for (name, kind, workers, chunks, kw, mode) in rows:
        kw = dict(kw)
        extra = kw.pop("extra", None)   # data-level variations that do not change the concurrency model
        detail = list(chunks)
        # "U" (dependent uncompressed chunk) and "P" (uncompressed chunk + props-reset LZMA chunk, both dependent) are
        # data-level variations of dependent chunks: the concurrency model sees "D" and "D","D"
        chunks = [x for k in chunks for x in (["D", "D"] if k == "P" else ["D"] if k == "U" else [k])]
        if detail != chunks:
            extra = dict(extra or {}, chunks=detail)
        consts = mtlib.reader_consts(kind, workers, chunks, **kw)
        cfg = dict(name=name, fam=kind + "_reader", consts=consts, mode=mode, extra=extra, **READER)
        if kind == "lzip":
            cfg["silent"] = set(READER["silent"]) | {"CNew"}   # LZIPReaderMT::new spawns nothing
        out.append(cfg)
    return out


def writer_cfgs(quick, fault=False, drop=False):
    try:
        from checks import mtwriter
    except ImportError:
        return []
    return mtwriter.cfgs(quick, fault=fault, drop=drop)


# variants that re-create a historical defect of the design: used as regression probes. A schedule that the
# regressed design admits is replayed into the current code; only if the code follows it to a bad outcome is
# that a violation (the property-level oracle decides, never the model alone).
REGRESSIONS = [
    ("CloseLock", "FALSE", "lost wake-up in WorkStealingQueue::close"),
    ("WakeOnError", "FALSE", "coordinator blocked in recv() when a worker fails"),
    ("EofIsError", "FALSE", "end of input without terminator treated as clean end"),
    ("PanicGuard", "FALSE", "worker panic leaves the coordinator blocked in recv()"),
]


def _design(cfg, consts, name, tlc_workers, dump=None, spec=None, props=True):
    d, mod, cfgf = mtlib.write_model(cfg["base"], consts, spec=spec or ("Spec" if props else "SpecSafe"),
                                     invariants=cfg["inv"] if props else (), properties=cfg["props"] if props else (),
                                     deadlock=True)
    r = core.run_tlc(mod, cfgf, workers=tlc_workers, timeout=TLC_TIMEOUT, cwd=d, dump=dump, coverage=props)
    return r, d


def _design_spur(cfg):
    d, mod, cfgf = mtlib.write_model(cfg["base"], cfg["consts"], spec="SpecSpur", invariants=cfg["inv"])
    return core.run_tlc(mod, cfgf, workers=3, timeout=TLC_TIMEOUT, cwd=d, coverage=False)


def run_plan(ctx, props, plan, quick, extra_random=None, lzip_scan=False, workqueue=False):
    run = mtcommon.MtRun(ctx, props)
    seed = ctx.seed
    rnd = random.Random(seed)
    n_rand = 120 if quick else 1500
    n_pct = 120 if quick else 1500
    n_tour = 250 if quick else 4000
    n_valid = 6 if quick else 30
    pool = ThreadPoolExecutor(max_workers=5 if quick else 4)
    if quick:
        for c in plan:
            c["props"] = [p for p in c["props"] if p in ("Terminates",)]

    # ---------------- stage 1: model-check every configuration (safety + liveness) in parallel
    t0 = time.time()
    futs = [(c, pool.submit(_design, c, c["consts"], c["name"], 3)) for c in plan]
    scns, meta = [], []
    for c, f in futs:
        r, _ = f.result()
        ctx.note_tlc("design " + c["name"], r)
        log(f"[tlc] design {c['name']}: {r}")
        c["design"] = r
        if r.ok:
            must = [a for a in ("CDrop1", "CExit") if a in r.coverage]
            ctx.require_coverage(r, must, c["name"])
        else:
            steps = mtcommon.cex_steps(r, c["silent"])
            s = make_scn(c, "cex-" + c["name"], {"kind": "guided", "steps": steps})
            scns.append(s)
            meta.append(("tlc-cex", c))
    if not quick:
        # safety with spurious condvar wake-ups (model only)
        futs2 = [(c, pool.submit(_design_spur, c)) for c in plan if c["design"].ok and c["design"].distinct < 150000]
        for c, f in futs2:
            r = f.result()
            ctx.note_tlc("design+spurious " + c["name"], r)
            if not r.ok:
                raise ToolError(f"safety of the as-built design {c['name']} depends on the absence of spurious wake-ups: {r.violated}")
    log(f"[stage1] {len(plan)} design configurations model-checked in {time.time()-t0:.1f}s")

    # ---------------- stage 2a: tours of the as-built graphs
    t0 = time.time()
    tour_cfgs = [c for c in plan if c["mode"] in ("tour", "fulltour")]
    futs = []
    for c in tour_cfgs:
        d, mod, cfgf = mtlib.write_model(c["base"], c["consts"], spec="SpecSafe")
        dot = os.path.join(d, "graph.dot")
        futs.append((c, dot, pool.submit(core.run_tlc, mod, cfgf, workers=3, timeout=TLC_TIMEOUT, cwd=d, dump=dot, coverage=False)))
    for c, dot, f in futs:
        r = f.result()
        init, edges, ne = mtlib.load_graph(dot)
        os.remove(dot)
        paths = mtlib.tour(init, edges)
        total = len(paths)
        lim = None if c["mode"] == "fulltour" else n_tour
        if lim and len(paths) > lim:
            paths = rnd.sample(paths, lim)
        for i, p in enumerate(paths):
            steps = mtlib.guided_steps(p, edges, c["silent"])
            scns.append(make_scn(c, f"tour-{c['name']}-{i}", {"kind": "guided", "steps": steps}))
            meta.append(("tlc-tour", c))
        run.tour_paths += len(paths)
        ctx.add("tour_graph_edges", ne)
        log(f"[tour] {c['name']}: {r.distinct} states / {ne} edges -> {total} covering paths, {len(paths)} replayed")
    # ---------------- stage 2b: regression probes (counter-examples and tours of the regressed designs)
    probes = []
    for (flag, val, what) in REGRESSIONS:
        cands = [c for c in plan if flag in c["consts"] and c["consts"].get(flag) != val]
        if quick:   # small models only, a handful per flag
            cands = [c for c in cands if c.get("design") is not None and c["design"].distinct < 60000]
            cands = cands[:: max(1, len(cands) // 5)]
        for c in cands:
            consts = dict(c["consts"])
            consts[flag] = val
            probes.append((c, flag, consts, pool.submit(_design, c, consts, c["name"] + "~" + flag, 2)))
    nprobe = 0
    for (c, flag, consts, f) in probes:
        r, _ = f.result()
        ctx.add("regression_models_checked")
        if not r.ok:
            steps = mtcommon.cex_steps(r, c["silent"])
            scns.append(make_scn(c, f"probe-{c['name']}-{flag}", {"kind": "guided", "steps": steps}))
            meta.append(("tlc-regression-cex:" + flag, c))
            nprobe += 1
    ctx.add("regression_probes", nprobe)
    log(f"[stage2] tours + {nprobe} regression counter-examples prepared in {time.time()-t0:.1f}s")

    # ---------------- randomized schedules on the real code (every configuration)
    logged = []
    for c in plan:
        nr, npct = (n_rand * c.get("weight", 1), n_pct * c.get("weight", 1))
        for i in range(nr):
            s = make_scn(c, f"rand-{c['name']}-{i}", {"kind": "random", "seed": rnd.getrandbits(40)})
            if i < n_valid:
                s["log"] = True
                logged.append(len(scns))
            scns.append(s)
            meta.append(("random", c))
        for i in range(npct):
            scns.append(make_scn(c, f"pct-{c['name']}-{i}", {"kind": "pct", "seed": rnd.getrandbits(40), "depth": 1 + i % 4}))
            meta.append(("pct", c))
    # thorough: stateless bounded-preemption DFS over the real code's schedules for the configurations marked "dfs"
    for c in plan:
        if not quick and (c["mode"] in ("tour", "fulltour") or c.get("dfs")):
            t1 = time.time()
            n, left = dfs_explore(run, c, 2, 12000)
            ctx.add("dfs_executions", n)
            log(f"[dfs] {c['name']}: {n} executions (pre-emption bound 2, {left} prefixes left unexplored) in {time.time()-t1:.1f}s")
    t0 = time.time()
    results = mtlib.run_scenarios(scns)
    log(f"[impl] {len(scns)} executions of the real code on the deterministic runtime in {time.time()-t0:.1f}s")
    by_src = {}
    for s, r, (src, c) in zip(scns, results, meta):
        by_src.setdefault(src, ([], []))
        by_src[src][0].append(s)
        by_src[src][1].append(r)
    for src, (ss, rr) in by_src.items():
        run.judge_all(ss, rr, src)
    # design counter-examples on the as-built configuration need an implementation witness
    for s, r, (src, c) in zip(scns, results, meta):
        if src == "tlc-cex" and not mtlib.judge(s, r):
            raise ToolError(f"TLC reports {c['design'].violated} for the as-built design {c['name']} but the implementation "
                            f"does not reproduce it (divergence={r.get('divergence')}): the model misrepresents the code")
    # tours: divergence from the as-built design is drift, not a violation
    nd = sum(1 for s, r, (src, c) in zip(scns, results, meta) if src == "tlc-tour" and r.get("divergence"))
    ne = sum(1 for s, r, (src, c) in zip(scns, results, meta) if src == "tlc-tour" and r.get("en_mismatch"))
    if nd or ne:
        first = next(r for s, r, (src, c) in zip(scns, results, meta)
                     if src == "tlc-tour" and (r.get("divergence") or r.get("en_mismatch")))
        ctx.note_drift(f"{nd} tour paths diverged from the as-built design, {ne} enabled-set mismatches; first ({first['id']}): "
                       f"{first.get('divergence') or first.get('en_mismatch')}")
    ctx.add("tour_paths_replayed", run.tour_paths)
    ctx.add("tour_divergences", nd)
    ctx.add("tour_enabled_set_mismatches", ne)

    if lzip_scan:
        lzip_scan_stage(ctx, run, quick)
    if workqueue and not quick:
        workqueue_inductive(ctx)
    # ---------------- stage 3: TLC validates recorded traces against the as-built design
    t0 = time.time()
    groups = {}
    for idx in logged:
        c = meta[idx][1]
        groups.setdefault(c["name"], (c, []))[1].append(results[idx])
    futs = []
    for name, (c, rs) in groups.items():
        rs = [r for r in rs if not r["deadlock"]] or rs
        futs.append((name, c, rs, pool.submit(_validate, c, rs)))
    for name, c, rs, f in futs:
        ok, reached, total, r, nxt = f.result()
        ctx.note_tlc("trace " + name, r)
        if ok:
            run.traces_ok += len(rs)
        else:
            run.traces_rejected += 1
            ctx.note_drift(f"trace spec {c['trace']} rejected traces of {name} after event {reached} of {total}; next event {nxt}")
    # binding demonstration: a recorded trace with one corrupted field, and one with a removed event, must be rejected
    demo = None
    for name, c, rs, f in futs:
        for r_ in rs:
            ev = r_.get("log") or []
            cand = [i for i in range(len(ev) // 2, len(ev)) if ev[i]["op"] in ("Lock", "Unlock")]
            if cand and not r_["deadlock"]:
                demo = (c, r_, cand[0])
                break
        if demo:
            break
    if demo and run.traces_rejected == 0:
        c, good, mid = demo
        ev = good["log"]
        bad1 = dict(good, log=[dict(e) for e in ev])
        bad1["log"][mid]["o"] = 1 - bad1["log"][mid]["o"]          # the other mutex
        bad2 = dict(good, log=ev[:mid] + ev[mid + 1:])             # hook event removed
        r1 = _validate(c, [bad1])
        r2 = _validate(c, [bad2])
        ctx.cov["binding_demonstration"] = {"trace_events": len(ev), "corrupted_field_rejected": not r1[0],
                                            "removed_event_rejected": not r2[0], "rejected_at": [r1[1], r2[1]]}
        if r1[0] or r2[0]:
            # a weakness of the trace specification, not a verdict about the code: reported, never fatal
            log("[stage3] WARNING: binding demonstration: a corrupted trace was accepted by " + c["trace"])
    log(f"[stage3] {run.traces_ok} traces accepted, {run.traces_rejected} groups rejected in {time.time()-t0:.1f}s")
    pool.shutdown()

    classes = sorted(set((f, cl, w, o) for (f, cl, w, o, src) in run.classes))
    ctx.cov["traces_validated_against_impl"] = run.traces_ok
    ctx.cov["trace_groups_rejected"] = run.traces_rejected
    ctx.cov["evaluations"] = run.nruns
    ctx.cov["distinct_nontrivial"] = len(classes)
    ctx.cov["rule"] = ("one evaluation = one execution of the real code under a fixed schedule on the deterministic runtime; "
                       "distinct = (type, scenario class, worker limit, outcome)")
    ctx.cov["scenario_classes"] = [list(x) for x in classes]
    ctx.cov["violations_of_sibling_properties_seen"] = dict(run.sibling)
    for s in scns[:3] + scns[-2:]:
        t = dict(s)
        if t["policy"]["kind"] == "guided":
            t["policy"] = {"kind": "guided", "steps": t["policy"]["steps"][:12] + ["..."]}
        ctx.sample(t)
    ctx.assumptions += [
        "sequentially consistent atomics; std Mutex/Condvar/mpsc semantics as simulated by src/verif_rt.rs; no spurious wake-ups",
        "TLC results hold for the stated constants only (<= 3 workers, <= 5 units)",
        "work units are tiny real streams (a few hundred bytes) so that workers run the real codec",
    ]
    ctx.finish()


def dfs_explore(run, c, max_preempt, budget, source="dfs"):
    """Stateless bounded-preemption search over the schedules of the REAL code (independent of the model): every
    run records, per scheduling decision, the index chosen, the number of enabled threads and the index of the
    running thread; children re-run a prefix with one decision changed. A change away from a still-enabled running
    thread costs one pre-emption; a change at a point where the running thread blocked is free."""
    done = 0
    seen = set()
    frontier = [((), 0)]          # (prefix of choice indices, pre-emptions used)
    while frontier and done < budget:
        batch = frontier[: min(len(frontier), 3000, budget - done)]
        frontier = frontier[len(batch):]
        scns = [make_scn(c, f"dfs-{c['name']}-{done+i}", {"kind": "dfs", "prefix": list(pf)}) for i, (pf, _) in enumerate(batch)]
        res = mtlib.run_scenarios(scns)
        run.judge_all(scns, res, source)
        done += len(batch)
        for (pf, used), r in zip(batch, res):
            ch = r.get("choices", [])
            for i in range(len(pf), len(ch)):
                idx, code = ch[i]
                n, cur = code // 1000, code % 1000 - 1     # cur = -1: the running thread is not enabled here
                for j in range(n):
                    if j == idx:
                        continue
                    cost = 1 if (cur >= 0 and j != cur) else 0
                    if used + cost > max_preempt:
                        continue
                    npf = tuple([x[0] for x in ch[:i]] + [j])
                    if npf not in seen:
                        seen.add(npf)
                        frontier.append((npf, used + cost))
    return done, len(frontier)


def make_scn(c, sid, policy):
    if c["fam"].endswith("reader"):
        return mtcommon.scn_from_consts(c["fam"], c["consts"], sid, policy, c.get("extra"))
    from checks import mtwriter
    return mtwriter.make_scn(c, sid, policy)


def _validate(c, rs):
    lines = []
    for r in rs:
        lines.append(json.dumps({"t": -1, "op": "Reset", "o": -1, "v": 0}))
        lines.extend(mtlib.trace_lines(r))
    inv = ["Track"] + list(c["inv"])
    d, mod, cfg = mtlib.write_model(c["trace"], c["consts"], spec="TSpec", invariants=inv, postcondition="Accepted")
    tp = os.path.join(d, "trace.ndjson")
    with open(tp, "w") as f:
        f.write("\n".join(lines) + "\n")
    ok, reached, total, r = core.validate_trace(mod, cfg, tp, cwd=d, timeout=600)
    nxt = lines[reached] if (reached is not None and reached < len(lines)) else "?"
    return ok, reached, total, r, nxt


def run_replay(ctx, props, path):
    """Re-runs the scenario of a replay file and reports whether the violation reproduces."""
    rep = json.load(open(path))
    s = rep["replay"]["scenario"]
    s["log"] = False
    r = mtlib.run_scenarios([s])[0]
    vs = [v for v in mtlib.judge(s, r) if v[0] in props]
    for (pid, what, sig) in vs:
        ctx.violation(what, sig, {"scenario": s, "source": "replay of " + os.path.basename(path)})
    print(f"replay of {path}: outcome={r['outcome']} deadlock={r['deadlock']} leak={r['leak']} -> "
          f"{'REPRODUCED' if vs else 'not reproduced'}")
    ctx.cov.update({"evaluations": 1, "distinct_nontrivial": 2 if vs else 0, "rule": "replay of one recorded scenario",
                    "states": 1, "transitions": 1, "traces_validated_against_impl": 0})
    ctx.sample(s)
    ctx.finish()


def lzip_scan_stage(ctx, run, quick):
    """LZIPReaderMT::new: backward member scan (spec/LzipScan.tla). TLC: progress + termination for every content of
    the size fields; real code: every single-field trailer damage of a 3-member file under an operation budget,
    observed seeks validated by TLC against the spec with the real constants."""
    base = {"FileLen": "9", "Trailer": "2", "MinFile": "3"}
    d, mod, cfg = core.write_model("LzipScan", dict(base, ZeroSizeRejected="TRUE"), spec="Spec",
                                   invariants=["TypeOK", "Ordered"], properties=["Progress", "Terminates"])
    r = core.run_tlc(mod, cfg, workers=2, cwd=d)
    ctx.note_tlc("design LzipScan", r)
    if not r.ok:
        raise ToolError(f"LzipScan as-built design violates {r.violated}")
    ctx.require_coverage(r, ["ReadTrailer", "BadSize", "ReadHeader", "Break"], "LzipScan")
    d, mod, cfg = core.write_model("LzipScan", dict(base, ZeroSizeRejected="FALSE"), spec="Spec",
                                   invariants=["TypeOK", "Ordered"], properties=["Progress", "Terminates"])
    r2 = core.run_tlc(mod, cfg, workers=2, cwd=d)
    ctx.add("regression_models_checked")
    if r2.ok:
        raise ToolError("LzipScan: the regressed variant (zero size accepted) should violate progress")
    scns = []
    n = 3
    for k in range(n):
        for field in (0, 1, 2):
            for mode in (0, 1, 2, 3):
                if field == 2 and mode > 0:
                    continue
                scns.append({"id": f"scan-{k}-{field}-{mode}", "family": "lzip_reader", "chunks": ["M"] * n, "workers": 2,
                             "policy": {"kind": "random", "seed": ctx.seed + len(scns)}, "op_budget": 4000,
                             "lzip_damage": [k, field, mode]})
    scns.append({"id": "scan-clean", "family": "lzip_reader", "chunks": ["M"] * n, "workers": 2,
                 "policy": {"kind": "random", "seed": ctx.seed}, "op_budget": 4000})
    if not quick:
        for nm in (1, 2, 5):
            for k in range(nm):
                for mode in (0, 1, 2, 3):
                    scns.append({"id": f"scan{nm}-{k}-0-{mode}", "family": "lzip_reader", "chunks": ["M"] * nm, "workers": 3,
                                 "policy": {"kind": "pct", "seed": ctx.seed + len(scns), "depth": 2}, "op_budget": 6000,
                                 "lzip_damage": [k, 0, mode]})
    res = mtlib.run_scenarios(scns)
    run.judge_all(scns, res, "lzip-scan")
    events = []
    for r_ in res:
        if not r_.get("budget_blown"):
            events += mtlib.scan_events(r_)
    ok, reached, total, tr = core.validate_events("Trace_LzipScan", {"FileLen": "0", "Trailer": "20", "MinFile": "26",
                                                                     "ZeroSizeRejected": "TRUE"}, events,
                                                  invariants=("Track",))
    ctx.note_tlc("trace LzipScan", tr)
    if ok:
        run.traces_ok += len(res)
    else:
        run.traces_rejected += 1
        ctx.note_drift(f"Trace_LzipScan rejected the observed member scans after event {reached} of {total}: "
                       f"{events[reached] if reached is not None and reached < len(events) else '?'}")
    log(f"[lzip-scan] {len(scns)} damaged files scanned; trace {'accepted' if ok else 'REJECTED'} ({total} events)")


def workqueue_inductive(ctx):
    """Unbounded part of C10 (thorough tier): the queue protocol in isolation (spec/WorkQueue.tla, same grain as the
    queue actions of MtReader/MtWriter, queue content abstracted to its length) with an inductive invariant
    discharged by Apalache: base case (Init => IndInv) and step (IndInv /\\ Next => IndInv') for 3 workers and
    unbounded queue length / number of pushes / number of steps. The regressed variant (close() without the mutex)
    must fail, otherwise the proof would be vacuous."""
    t0 = time.time()
    res = {}
    for name, cinit, init, length, want in (
            ("base", "ConstInit", "Init", 0, True), ("step", "ConstInit", "IndInit", 1, True),
            ("regressed-step", "ConstInitRegressed", "IndInit", 1, False)):
        ok, outcome = core.run_apalache("WorkQueue", [f"--cinit={cinit}", f"--init={init}", "--inv=IndInv", f"--length={length}"])
        res[name] = outcome
        if ok != want:
            raise ToolError(f"WorkQueue inductive invariant: obligation {name} gave {outcome}")
    ctx.cov["apalache_inductive_invariant"] = {"module": "WorkQueue.tla", "invariant": "IndInv (implies NoLostWakeup)",
                                               "obligations": res, "workers": 3, "wall_s": round(time.time() - t0, 1)}
    log(f"[apalache] WorkQueue IndInv: {res} in {time.time()-t0:.1f}s")
