"""Plans and executor of the encoder-core checks C01 / C13 / C15 (group C1).

One pipeline (DESIGN.md 2.1) over the EncWindow / MatchFinderPos specifications; each property keeps the verdicts
that belong to it:
  C01  round trip (decoded == written, no panic)          -> judge_roundtrip
  C13  byte-identical output for equal input and options  -> digest groups
  C15  no shadow assertion (hook H5) fails                -> shadow monitor
"""
import json, os, random, time, collections, re
from concurrent.futures import ThreadPoolExecutor
from vlib import core
from vlib.core import log, ToolError
from checks import enccommon as E

MAXPOS = 0x7FFFFFFF


# =========================================================================== job families
def opts_pool(rnd, writer):
    """A random in-range option vector (LZMA2: lc + lp <= 4)."""
    if writer in ("lzma1", "lzip"):
        lc, lp, pb = rnd.choice([(3, 0, 2), (0, 0, 0), (8, 0, 0), (8, 4, 4), (0, 4, 0), (4, 2, 3), (1, 1, 1)])
    else:
        lc, lp, pb = rnd.choice([(3, 0, 2), (0, 0, 0), (4, 0, 4), (0, 4, 0), (2, 2, 2), (1, 3, 1), (3, 1, 0)])
    if writer == "lzip":
        lc, lp, pb = 3, 0, 2      # the LZIP format fixes them
    return dict(dict=rnd.choice([4096, 4096, 5000, 8192, 20000, 60000, 65536, 65537, 1 << 17, 1 << 20]),
                lc=lc, lp=lp, pb=pb, mode=rnd.choice(["fast", "normal"]), mf=rnd.choice(["hc4", "bt4"]),
                nice=rnd.choice([8, 9, 16, 32, 64, 128, 272, 273]), depth=rnd.choice([0, 0, 1, 2, 4, 50, 1000]))


def rand_input(rnd, total, dict_size):
    cls = rnd.choice(["random", "const", "zeros", "text", "mixed", "lowent", "seq", "periodic", "block_near", "block_beyond",
                      "segments", "random"])
    sd = rnd.getrandbits(30)
    if cls == "block_near":
        return [E.seg("block", total, sd, period=max(1, dict_size - rnd.choice([0, 1, 2, 36, 271, 300])))]
    if cls == "block_beyond":
        return [E.seg("block", total, sd, period=dict_size + rnd.choice([1, 2, 37, 1000]))]
    if cls == "segments":
        segs, left = [], total
        while left > 0:
            n = min(left, rnd.choice([1, 7, 300, 5000, 70000, 200000]))
            segs.append(E.seg(rnd.choice(["random", "text", "zeros", "mixed", "lowent"]), n, rnd.getrandbits(30)))
            left -= n
        return segs
    return [E.seg(cls, total, sd)]


def rand_script(rnd, total, flush=True):
    kind = rnd.choice(["single", "single", "chunks", "ragged", "flushy" if flush else "ragged", "tiny"])
    if kind == "single" or total == 0:
        return []
    steps, left = [], total
    if kind == "tiny" and total <= 3000:
        return [dict(op="w", n=1)] * total
    sizes = {"chunks": [4096, 65536, 100000], "ragged": [1, 3, 545, 546, 4369, 50000, 300000], "flushy": [1, 1000, 70000, 300000],
             "tiny": [1, 2, 100, 20000]}[kind]
    while left > 0 and len(steps) < 400:
        n = min(left, rnd.choice(sizes))
        steps.append(dict(op="w", n=n))
        left -= n
        if kind == "flushy" and rnd.random() < 0.4:
            steps.append(dict(op="f"))
    return steps


def grid_jobs(rnd, n, max_len, trace_every=1):
    """Seeded option x input-class x history sample."""
    jobs = []
    sizes_small = [0, 1, 2, 5, 100, 3000, 4095, 4096, 4097, 9000]
    for i in range(n):
        writer = rnd.choice(["lzma2", "lzma2", "lzma2", "lzma1"])
        opt = opts_pool(rnd, writer)
        r = rnd.random()
        if r < 0.30:
            total = rnd.choice(sizes_small)
        elif r < 0.65:
            total = rnd.randrange(10000, 140000)
        elif r < 0.93:
            total = rnd.randrange(140000, min(max_len, 700000))
        else:
            total = rnd.randrange(min(max_len, 700000) // 2, max_len)
        if opt["mode"] == "normal" and total > 400000 and max_len <= (1 << 20):
            total = rnd.randrange(100000, 400000)
        kw = {}
        if writer == "lzma2":
            if rnd.random() < 0.2:
                kw["chunk_size"] = rnd.choice([1, 4096, 50000, 100000])
            if rnd.random() < 0.2:
                kw["preset"] = E.seg(rnd.choice(["text", "random", "mixed"]), rnd.choice([1, 100, 4096, 7000, 100000]), rnd.getrandbits(20))
        else:
            form = rnd.choice(["header+eos", "header+size", "raw+eos", "raw+size", "raw+known"])
            kw["header"] = form.startswith("header")
            kw["end_marker"] = form.endswith("eos")
            kw["declared"] = form.endswith("size")
            if not kw["header"] and rnd.random() < 0.25:
                kw["preset"] = E.seg(rnd.choice(["text", "random"]), rnd.choice([1, 100, 4096, 7000]), rnd.getrandbits(20))
        inp = rand_input(rnd, total, opt["dict"])
        j = E.mk_job(f"grid-{i}", writer=writer, opt=opt, input=inp, script=rand_script(rnd, total), **kw)
        j["trace"] = (2 if total <= 3000 else 1) if i % trace_every == 0 else 0
        j["read_size"] = rnd.choice([1, 7, 4096, 65536, 1 << 20]) if total < 50000 else rnd.choice([4096, 65536, 1 << 20])
        jobs.append(j)
    return jobs


def corner_jobs(tier):
    """Fixed histories for the corners the specification names."""
    quick = tier == "quick"
    J = []
    f4k = dict(dict=4096, mode="fast", mf="hc4", nice=32)
    # incompressible data, every dictionary class, long enough for a window move followed by uncompressed chunks
    for d in (4096, 8192, 60000, 65536, 1 << 17):
        for mode, mf in (("fast", "hc4"), ("normal", "bt4")):
            n = 500000 if mode == "fast" else 420000
            J.append(E.mk_job(f"raw-after-move-d{d}-{mode}", opt=dict(dict=d, mode=mode, mf=mf, nice=32),
                              input=[E.seg("random", n, d)], trace=1))
    # the chunk in progress at the window move is almost a full uncompressed chunk
    for d in (4096, 60000, 65536):
        for mode, mf in (("fast", "hc4"), ("normal", "bt4")):
            o = dict(dict=d, mode=mode, mf=mf, nice=32)
            bs, ka = real_window(dict(o))
            J.append(straddle_job(f"raw-straddles-move-d{d}-{mode}", "lzma2", o, bs, ka, {}))
    # the window moves while positions are pending (flush with write_pos in the last keep_size_after bytes of the buffer, then
    # more data), pending counts that are not multiples of 2^pb / 2^lp; and a streaming writer that flushes after every piece
    for k, (mode, mf, nice, d, lclppb) in enumerate([("fast", "hc4", 32, 65536, (3, 0, 2)), ("normal", "bt4", 32, 65536, (3, 0, 2)),
                                                     ("fast", "bt4", 30, 4096, (0, 2, 0)), ("normal", "hc4", 64, 4096, (3, 0, 4))]):
        o = dict(dict=d, mode=mode, mf=mf, nice=nice, lc=lclppb[0], lp=lclppb[1], pb=lclppb[2])
        bs, ka = real_window(dict(o))
        J.append(flush_at_move_job(f"flush-at-move-{mode}-{mf}-d{d}", "lzma2", o, bs, ka, {}, cls=["text", "mixed"][k % 2]))
    for mode, mf, piece in (("fast", "hc4", 2000), ("normal", "bt4", 5000)):
        n = 700000 if mode == "fast" else 450000
        sc = []
        for _ in range(n // piece):
            sc += [dict(op="w", n=piece), dict(op="f")]
        J.append(E.mk_job(f"flush-each-write-{mode}-{mf}", opt=dict(dict=4096, mode=mode, mf=mf, nice=32),
                          input=[E.seg("text", n // 2, 21), E.seg("mixed", n - n // 2, 22)], script=sc, trace=0))
    # exactly buf_size - 1 / buf_size / buf_size + 1 bytes of periodic data, then finish: the last match ends at the last byte of
    # the window buffer (forward reads of extend_match / its tail loop touch buf.len())
    for mode, mf in (("fast", "hc4"), ("fast", "bt4"), ("normal", "hc4"), ("normal", "bt4")):
        o = dict(dict=4096, mode=mode, mf=mf, nice=32)
        bs, ka = real_window(dict(o))
        for dlt in (-1, 0, 1):
            J.append(E.mk_job(f"exact-bufsize{dlt:+d}-{mode}-{mf}", opt=o, input=[E.seg("periodic", bs + dlt, 31)], trace=(1 if dlt == 0 else 0)))
            if mf == "hc4":
                J.append(E.mk_job(f"exact-bufsize{dlt:+d}-{mode}-{mf}-l1", writer="lzma1", header=True, end_marker=True, opt=o,
                                  input=[E.seg("periodic", real_window(dict(o), "lzma1")[0] + dlt, 33)], trace=0))
    # > 2 MiB uncompressed chunk limit (constant data), > 64 KiB compressed limit
    J.append(E.mk_job("ulimit-zeros", opt=f4k, input=[E.seg("zeros", (5 << 20) // (2 if quick else 1), 1)], trace=1))
    J.append(E.mk_job("ulimit-const-l1", writer="lzma1", header=True, end_marker=True, opt=f4k, input=[E.seg("const", 3 << 20, 5)], trace=1))
    J.append(E.mk_job("climit-lowent", opt=dict(dict=1 << 16, mode="fast", mf="hc4", nice=16), input=[E.seg("lowent", 900000, 2)], trace=1))
    # all LZMA2 chunk kinds: e0 / c0 / a0 / 80 / 01 / 02 via compressible <-> incompressible alternation, flush, independent chunks
    alt = [E.seg("text", 150000, 1), E.seg("random", 150000, 2), E.seg("text", 150000, 3), E.seg("random", 70000, 4), E.seg("zeros", 100000, 5)]
    J.append(E.mk_job("chunk-kinds-alt", opt=f4k, input=alt, trace=1))
    J.append(E.mk_job("chunk-kinds-alt-rawfirst", opt=f4k, input=alt[1:], trace=1))
    J.append(E.mk_job("chunk-kinds-indep", opt=f4k, chunk_size=100000, input=alt, trace=1, script=[dict(op="w", n=70000)] * 9))
    J.append(E.mk_job("chunk-kinds-indep-rawfirst", opt=f4k, chunk_size=100000, input=[E.seg("random", 250000, 9), E.seg("text", 100000, 1)],
                      trace=1, script=[dict(op="w", n=50000)] * 7))
    J.append(E.mk_job("chunk-kinds-preset", opt=f4k, preset=E.seg("text", 9000, 4), input=alt[:2], trace=1))
    # flush with pending bytes, then more data (pending-bytes path), both match finders, window move afterwards
    for mf, nice in (("hc4", 32), ("bt4", 273), ("bt4", 16)):
        for mode in ("fast", "normal"):
            sc = [dict(op="w", n=5000), dict(op="f"), dict(op="w", n=3), dict(op="f"), dict(op="w", n=270000), dict(op="f"),
                  dict(op="w", n=1), dict(op="w", n=100000)]
            J.append(E.mk_job(f"pending-{mf}{nice}-{mode}", opt=dict(dict=8192, mode=mode, mf=mf, nice=nice),
                              input=[E.seg("text", 200000, 7), E.seg("mixed", 176004, 8)], script=sc, trace=1))
    # periodic data with the period at / just inside / beyond the dictionary: matches at maximal distance, both window ends
    for d in (4096, 65536):
        for delta in (0, 1, 2, -1):
            J.append(E.mk_job(f"period-d{d}{delta:+d}", opt=dict(dict=d, mode="normal", mf="bt4", nice=64),
                              input=[E.seg("block", d * 3 + 300000, 11 + delta, period=d - delta)], trace=1))
            J.append(E.mk_job(f"period-fast-d{d}{delta:+d}", opt=dict(dict=d, mode="fast", mf="hc4", nice=273),
                              input=[E.seg("block", d * 3 + 300000, 13 + delta, period=d - delta)], trace=1))
    # fast mode keeps only dict_size + 1 bytes of history: matches at maximal distance right after a window move, BT4 reaches
    # extend_match without a checked byte read in front of it
    for d, delta in ((65536, 0), (65536, 1), (1 << 17, 0)):
        J.append(E.mk_job(f"period-fastbt4-d{d}{delta:+d}", opt=dict(dict=d, mode="fast", mf="bt4", nice=273),
                          input=[E.seg("block", d * 2 + 420000, 17 + delta, period=d - delta)], trace=1))
    # finishing with fewer than 8 / 4 / 2 bytes left, tiny streams, every LZMAWriter framing
    for n in (0, 1, 2, 3, 4, 5, 7, 8, 9):
        J.append(E.mk_job(f"tiny-l2-{n}", opt=f4k, input=[E.seg("text", n, n)], trace=2))
        for form in ("header+eos", "header+size", "raw+eos", "raw+size", "raw+known"):
            J.append(E.mk_job(f"tiny-l1-{n}-{form}", writer="lzma1", opt=dict(dict=4096, mode="normal", mf="bt4", nice=8),
                              header=form.startswith("header"), end_marker=form.endswith("eos"), declared=form.endswith("size"),
                              input=[E.seg("lowent", n, n)], trace=2))
    for tail in (1, 2, 3, 5, 7):
        J.append(E.mk_job(f"tail-{tail}", opt=dict(dict=4096, mode="normal", mf="bt4", nice=64),
                          input=[E.seg("text", 50000, 3), E.seg("random", tail, tail)], trace=1,
                          script=[dict(op="w", n=50000), dict(op="f"), dict(op="w", n=tail)]))
    if not quick:
        J.append(E.mk_job("big-64M-mixed", opt=dict(dict=1 << 20, mode="fast", mf="hc4", nice=32), input=[E.seg("mixed", 64 << 20, 77)], trace=1))
        J.append(E.mk_job("big-32M-text-normal", opt=dict(dict=1 << 22, mode="normal", mf="bt4", nice=64), input=[E.seg("text", 32 << 20, 78)], trace=1))
        J.append(E.mk_job("big-48M-random-l1", writer="lzma1", header=True, end_marker=True, opt=dict(dict=1 << 16, mode="fast", mf="bt4", nice=32),
                          input=[E.seg("random", 24 << 20, 79), E.seg("lowent", 24 << 20, 80)], trace=1))
        J.append(E.mk_job("big-40M-indep", opt=dict(dict=1 << 20, mode="fast", mf="hc4", nice=64), chunk_size=3 << 20,
                          input=[E.seg("mixed", 40 << 20, 81)], trace=1, script=[dict(op="w", n=1 << 20)] * 40))
    return J


def echo_seg(n, seed, period, alpha=8, noise=12, marks=()):
    """Input class `echo` of the harness: a block over a small alphabet repeated with the given period (every position has a
    candidate at exactly that distance, its 2- / 3-byte prefixes also occur nearby), copies deviating in single bytes."""
    return dict(E.seg("echo", n, seed, period=period), alpha=alpha, noise=noise, marks=[dict(at=int(a), la=bool(la)) for a, la in marks])


EDGE_FULL = lambda o: dict(dict(dict=65536, lc=3, lp=0, pb=2, mode="fast", nice=32, mf="hc4", depth=0), **o)


def edge_jobs(tier, rnd):
    """The history kept in front of read_pos is smallest right after a window move: keep_size_before - 1 + (move remainder
    modulo the 64-byte alignment) bytes, and the encoder resumes either with a match-finder call (read_ahead = -1) or with the
    rep probes of a position it has already looked at (read_ahead = 0). Two sub-families place candidates and reps at
    distances around the dictionary size exactly there, in the modes that keep only dict_size + 1 bytes:
      move   the dictionary size is chosen so that the remainder of the first move is r (the remainder only depends on
             dict_size / 2 modulo 64: sizes off every alignment grid), the byte at the stall position is a literal taken with /
             without look-ahead, the data repeats with period dict_size - 1 .. dict_size + 8;
      flush  flush() at each of 64 consecutive fill levels inside the last keep_size_after bytes of the buffer (the window
             then moves with pending positions at every remainder), the first byte after the flush is a literal whose rep
             probes reach back one period.
    Flush positions and marks are computed from the window constants OBSERVED on the code under test."""
    quick = tier == "quick"
    plans = []
    rems = (0, 1, 63) if quick else tuple(range(64))
    bases = (("lzma1", 4096), ("lzma2", 65536)) if quick else (("lzma1", 4096), ("lzma1", 20000), ("lzma2", 65536), ("lzma2", 1 << 17))
    for writer, base in bases:
        for r in rems:
            for la in (True, False):
                ra = 0 if la else -1
                d = base + 2 * ((r - 2 - ra - base // 2) % 64) + rnd.choice([0, 1])
                for mf in ("hc4", "bt4"):
                    for dp in ((-1, 0, 1, 7) if quick else (-2, -1, 0, 1, 2, 3, 5, 7, 8)):
                        plans.append(dict(kind="move", writer=writer, opt=EDGE_FULL(dict(dict=d, mf=mf, nice=rnd.choice([32, 64, 273]))), r=r, la=la, dp=dp))
    for d in ((65536,) if quick else (65536, 65536 + 70, (1 << 17) + 1)):
        for mf, nice in (("hc4", 32), ("bt4", 32)):
            for k in range(64):
                for dp in (0, -1):
                    plans.append(dict(kind="flush", writer="lzma2", opt=EDGE_FULL(dict(dict=d, mf=mf, nice=nice)), k=k, dp=dp))
    observe_windows([(p["opt"], p["writer"]) for p in plans])
    J = []
    for i, p in enumerate(plans):
        o, w = p["opt"], p["writer"]
        bs, ka = real_window(o, w)
        kb = _OBSERVED_KB.get(json.dumps([o, w], sort_keys=True), o["dict"] + 1)
        kw = dict(header=True, end_marker=True) if w == "lzma1" else {}
        period = o["dict"] + p["dp"]
        sd = rnd.getrandbits(30)
        if p["kind"] == "move":
            x = bs - ka                       # read_limit once the buffer is full: the encoder stalls at the first symbol boundary behind it
            ra = 0 if p["la"] else -1
            J.append(E.mk_job(f"edge-move-{w}-d{o['dict']}-{o['mf']}-p{p['dp']:+d}-{'la' if p['la'] else 'lit'}", writer=w, opt=o,
                              input=[echo_seg(bs + 3000, sd, period, marks=[(x, p["la"])])], trace=1, decode=False,
                              edge=dict(kind="move", rem=(x + 2 + ra - kb) % 64, kb=kb), **kw))
        else:
            t = bs - ka + 60 + p["k"]
            J.append(E.mk_job(f"edge-flush-d{o['dict']}-{o['mf']}-p{p['dp']:+d}-k{p['k']}", writer=w, opt=o,
                              input=[echo_seg(t + 3000, sd, period, marks=[(t, False)])], trace=0, decode=False,
                              script=[dict(op="w", n=t), dict(op="f"), dict(op="w", n=3000)], edge=dict(kind="flush", level=t % 64), **kw))
    return J


def edge_evidence(ctx, jobs, results):
    """Vacuity evidence of the edge family from the Fill events of its traced runs (no TLC run: the events are dropped afterwards)."""
    want, got, levels = set(), set(), set()
    pend_moves = 0
    for j, r in zip(jobs, results):
        e = j.get("edge")
        if not e:
            continue
        if e["kind"] == "flush":
            levels.add(e["level"])
            pend_moves += r.get("cov", {}).get("moves_pending", 0)
            continue
        want.add(e["rem"])
        for ev in r.get("events") or []:
            if ev["ev"] == "Fill" and ev.get("mv", -1) > 0:
                got.add((ev["rp"] - e["kb"] + 1) % 64 if ev["rp"] - e["kb"] + 1 < 64 else -1)
                break
        r["events"] = []
    ctx.cov["edge_move_remainders_planned"] = sorted(want)
    ctx.cov["edge_move_remainders_realised"] = sorted(got)
    ctx.cov["edge_flush_fill_levels_mod64"] = len(levels)
    ctx.cov["edge_flush_moves_with_pending"] = pend_moves
    if want and (0 not in got or len(levels) < 64 or pend_moves == 0):
        raise ToolError(f"vacuous edge family: first-move remainders realised {sorted(got)} (planned {sorted(want)}), "
                        f"{len(levels)} flush fill levels, {pend_moves} moves with pending positions")


def bias_jobs(tier, rnd):
    """Renormalisation of the 31-bit positions after a few KiB (lz_pos bias), and a second time (ageing)."""
    quick = tier == "quick"
    J = []
    combos = [("fast", "hc4", 4096, 32), ("normal", "bt4", 4096, 32), ("fast", "bt4", 8192, 64), ("normal", "hc4", 65536, 273)]
    for k, (mode, mf, d, nice) in enumerate(combos):
        for cls in (["mixed", "text"] if quick else ["mixed", "text", "random", "lowent", "block"]):
            for writer in ("lzma2", "lzma1"):
                if quick and writer == "lzma1" and cls != "mixed":
                    continue
                first = 3000 + 977 * k
                bias = MAXPOS - (d + 1) - first
                total = 120000
                inp = [E.seg(cls, total, 100 + k, period=d - 3)] if cls == "block" else [E.seg(cls, total, 100 + k)]
                sc = [dict(op="w", n=40000), dict(op="age", d=MAXPOS), dict(op="w", n=40000)]
                kw = dict(header=True, end_marker=True) if writer == "lzma1" else {}
                J.append(E.mk_job(f"bias-{writer}-{mode}-{mf}-d{d}-{cls}", writer=writer, opt=dict(dict=d, mode=mode, mf=mf, nice=nice),
                                  input=inp, script=sc, bias=bias, trace=1, **kw))
    return J


# =========================================================================== counter-example concretisation
def concretise(bad, regime, tag):
    """A real encoder history of the regime (mode / match finder / dictionary class) that realises the situation a TLC
    counter-example of EncWindow ends in. Derived from the counter-examples' action sequences:
      copy_before_buffer             fill the window with data that does not compress until it has moved, keep writing
      pending_lookback_before_buffer write up to just below the end of the buffer, flush (positions stay pending),
                                     write again (window moves, pending positions are re-hashed); data periodic
                                     just inside the dictionary so that the re-hashed positions have candidates at maximal distance
      anything else                  mixed data with flushes around the first window move."""
    opt = dict(dict=regime.get("dict", 4096), mode=regime.get("mode", "fast"), mf=regime.get("mf", "hc4"), nice=regime.get("nice", 32))
    writer = regime.get("writer", "lzma2")
    kw = {}
    if writer == "lzma1":
        kw.update(header=True, end_marker=True)
    if regime.get("chunk_size"):
        kw["chunk_size"] = regime["chunk_size"]
    if regime.get("preset"):
        kw["preset"] = E.seg("text", regime["preset"], 5)
    c = {k: int(v) for k, v in E.real_consts(opt, writer).items() if re.fullmatch(r"-?\d+", v)}
    bufsize, keep_after = real_window(opt, writer)
    if bad == "copy_before_buffer":
        return straddle_job(f"cex-{tag}", writer, opt, bufsize, keep_after, kw)
    if bad == "pending_lookback_before_buffer":
        t = bufsize - keep_after + 51
        period = c["Dict"] - 36
        return E.mk_job(f"cex-{tag}", writer=writer, opt=opt, input=[E.seg("block", t + 100000, 3, period=period)],
                        script=[dict(op="w", n=t), dict(op="f"), dict(op="w", n=100000)], trace=1, **kw)
    if bad == "pos_state_misaligned":
        return flush_at_move_job(f"cex-{tag}", writer, opt, bufsize, keep_after, kw)
    if bad == "pending_assert":
        # positions that stay pending (look-ahead below the match finder's requirement) are re-processed by the next flush
        need = c["ReqFlush"]
        a = max(3, need // 3)
        return E.mk_job(f"cex-{tag}", writer=writer, opt=opt, input=[E.seg("text", a + max(1, need // 8), 3)],
                        script=[dict(op="w", n=a), dict(op="f"), dict(op="w", n=max(1, need // 8)), dict(op="f")], trace=1, **kw)
    t = bufsize - keep_after + 7
    return E.mk_job(f"cex-{tag}", writer=writer, opt=opt, input=[E.seg("mixed", t + 150000, 3)],
                    script=[dict(op="w", n=t // 2), dict(op="f"), dict(op="w", n=t - t // 2), dict(op="f"), dict(op="w", n=150000)], trace=1, **kw)


def flush_at_move_job(jid, writer, opt, bufsize, keep_after, kw, cls="text", more=200000):
    """flush() while write_pos is within the last keep_size_after bytes of the buffer: read_pos is at the move threshold and
    the last positions are pending; the next write moves the window with pending_size > 0. The encoder takes pos_state and
    the literal position bits from the buffer position, so the move must stay a multiple of 2^pb / 2^lp."""
    t = bufsize - keep_after + 100
    return E.mk_job(jid, writer=writer, opt=opt, input=[E.seg(cls, t + more, 7)],
                    script=[dict(op="w", n=t), dict(op="f"), dict(op="w", n=more)], trace=1, **kw)


def straddle_job(jid, writer, opt, bufsize, keep_after, kw):
    """A flush places a chunk boundary so that the chunk in progress when the window moves is almost a full uncompressed
    chunk (64 400 of the ~64 580 incompressible bytes that fit into one): the largest history copy_uncompressed can ask for right after a move."""
    f = bufsize - keep_after - 64400
    return E.mk_job(jid, writer=writer, opt=opt, input=[E.seg("text", f, 1), E.seg("random", 260000, 2)],
                    script=[dict(op="w", n=f), dict(op="f"), dict(op="w", n=260000)], trace=1, **kw)


_OBSERVED = {}
_OBSERVED_KB = {}      # keep_size_before of the same probes


def observe_windows(specs):
    """Reads the window constants the real code uses (New event of an empty traced run) for each (opt, writer): recipes that
    place flushes relative to buf_size / keep_size_after must follow the code under test, not the as-built design."""
    jobs, keys = [], []
    for opt, writer in specs:
        k = json.dumps([opt, writer], sort_keys=True)
        if k in _OBSERVED or k in keys:
            continue
        kw = dict(header=True, end_marker=True) if writer == "lzma1" else {}
        jobs.append(E.mk_job("probe", writer=writer, opt=opt, input=[], trace=1, decode=False, **kw))
        keys.append(k)
    for k, r in zip(keys, E.run_jobs(jobs)):
        ev = [e for e in r.get("events", []) if e["ev"] == "New"]
        if ev:
            _OBSERVED[k] = (ev[0]["bs"], ev[0]["ka"])
            _OBSERVED_KB[k] = ev[0]["kb"]


def real_window(opt, writer="lzma2"):
    """(buf_size, keep_size_after) of the real encoder for these options: observed if probed, else from the as-built design."""
    o = dict(dict=65536, lc=3, lp=0, pb=2, mode="fast", nice=32, mf="hc4", depth=0)
    o.update(opt)
    k = json.dumps([o, writer], sort_keys=True)
    if k in _OBSERVED:
        return _OBSERVED[k]
    c = {k: int(v) for k, v in E.real_consts(opt, writer).items() if re.fullmatch(r"-?\d+", v)}
    pe = c["ModeBefore"]
    if E.asbuilt()["PassExtra"] == "TRUE" and writer == "lzma2":
        pe = max(pe, 65536 - c["Dict"])
    keep_after = c["ExtraAfter"] + c["MatchMax"]
    return c["Dict"] + pe + keep_after + c["Reserve"], keep_after


def bad_of(r):
    for s in reversed(r.trace):
        m = re.search(r'"(\w+)"', s["vars"].get("bad", ""))
        if m and m.group(1) != "none":
            return m.group(1)
    if r.violated == "PosStateAligned":
        return "pos_state_misaligned"
    return r.violated or "unknown"


# =========================================================================== tours (spec -> impl)
def api_schedule(path):
    """API calls of a tour path over the scaled model: [("w", n) | ("f",) | ("finish",)] and its situation labels."""
    from vlib import mtlib
    calls, sit = [], set()
    for (_, lab, _) in path:
        name, args = mtlib.parse_label(lab)
        if name == "CallWrite":
            calls.append(("w", int(args[0])))
        elif name == "CallFlush":
            calls.append(("f",) if args[0] == "FALSE" else ("finish",))
        elif name == "ChunkClose":
            sit.add("raw" if args[0] == "raw" else "lzma")
            if calls:
                calls[-1] = calls[-1] + (args[0],)
        elif name == "FillMove":
            sit.add("move")
        elif name == "StartIndep":
            sit.add("indep")
    return calls, sit


def scale_schedule(calls, sc, rc):
    """Maps the cumulative byte positions of an abstract schedule onto real ones so that positions relative to the
    window-move threshold (buf_size - keep_size_after), the buffer size and the distance between moves keep their order."""
    def brk(c):
        ka = c["ExtraAfter"] + c["MatchMax"]
        kb = c["KeepBefore"]
        bs = kb + ka + c["Reserve"]
        step = bs - ka - kb
        pts = [0, ka, bs - ka, bs]
        for i in range(1, 40):
            pts += [bs - ka + i * step, bs + i * step]
        return sorted(set(pts))
    a, b = brk(sc), brk(rc)

    def f(x):
        for i in range(len(a) - 1):
            if a[i] <= x <= a[i + 1]:
                if a[i + 1] == a[i]:
                    return b[i]
                y = b[i] + (x - a[i]) * (b[i + 1] - b[i]) / (a[i + 1] - a[i])
                # keep "exactly at the breakpoint" and "one past it" distinct
                if x == a[i]:
                    return b[i]
                if x == a[i + 1]:
                    return b[i + 1]
                return int(min(max(y, b[i] + (x - a[i])), b[i + 1] - (a[i + 1] - x)))
        return b[-1] + (x - a[-1])
    out, cum, rcum = [], 0, 0
    for c in calls:
        if c[0] == "w":
            cum += c[1]
            r = f(cum)
            n = max(1, r - rcum)
            rcum += n
            out.append(dict(op="w", n=int(n), raw=("raw" in c[2:])))
        elif c[0] == "f":
            out.append(dict(op="f"))
    return out


def tour_jobs(ctx, cfgname, n_paths, rnd, pool):
    """Transition tour of the scaled as-built EncWindow graph -> API schedules -> real histories of the same regime."""
    from vlib import mtlib
    consts, regime = E.SCALED_CFGS[cfgname]
    sc = E.scaled(**dict(consts, N=min(int(consts.get("N", 30)), 22)))
    d, mod, cfg = core.write_model("EncWindow", sc, invariants=())
    dot = os.path.join(d, "graph.dot")
    r = core.run_tlc(mod, cfg, workers=3, timeout=900, cwd=d, dump=dot, coverage=False)
    ctx.note_tlc("tour-graph " + cfgname, r)
    init, edges, ne = mtlib.load_graph(dot)
    os.remove(dot)
    paths = mtlib.tour(init, edges)
    total = len(paths)
    scheds = collections.OrderedDict()
    for p in paths:
        calls, sit = api_schedule(p)
        if len([c for c in calls if c[0] == "w"]) >= 2:
            scheds.setdefault(json.dumps(calls), (calls, sit))
    keys = list(scheds)
    if len(keys) > n_paths:
        keys = rnd.sample(keys, n_paths)
    opt = dict(dict=regime.get("dict", 4096), mode=regime.get("mode", "fast"), mf=regime.get("mf", "hc4"), nice=regime.get("nice", 32))
    writer = regime.get("writer", "lzma2")
    rc = {k: int(v) for k, v in E.real_consts(opt, writer).items() if re.fullmatch(r"-?\d+", v)}
    pe = rc["ModeBefore"]
    if E.asbuilt()["PassExtra"] == "TRUE" and writer == "lzma2":
        pe = max(pe, 65536 - rc["Dict"])
    rc["KeepBefore"] = rc["Dict"] + pe
    sci = {k: int(v) for k, v in sc.items() if re.fullmatch(r"-?\d+", v)}
    spe = sci["ModeBefore"]
    if sc["PassExtra"] == "TRUE" and writer == "lzma2":
        spe = max(spe, sci["RawMax"] - sci["Dict"])
    sci["KeepBefore"] = sci["Dict"] + spe
    jobs = []
    for i, k in enumerate(keys):
        calls, sit = scheds[k]
        steps = scale_schedule(calls, sci, rc)
        segs = []
        for s in steps:
            if s["op"] == "w":
                segs.append(E.seg("random" if s.pop("raw") else rnd.choice(["text", "mixed", "lowent"]), s["n"], rnd.getrandbits(20)))
        kw = {}
        if writer == "lzma1":
            kw.update(header=True, end_marker=True)
        if regime.get("chunk_size"):
            kw["chunk_size"] = regime["chunk_size"]
        if regime.get("preset"):
            kw["preset"] = E.seg("text", regime["preset"], 5)
        jobs.append(E.mk_job(f"tour-{cfgname}-{i}", writer=writer, opt=opt, input=segs, script=steps, trace=1, sit=sorted(sit), **kw))
    log(f"[tour] {cfgname}: {r.distinct} states / {ne} edges -> {total} covering paths, {len(scheds)} distinct API schedules, {len(jobs)} replayed")
    ctx.add("tour_graph_edges", ne)
    ctx.add("tour_schedules", len(scheds))
    return jobs


# variants that re-create a historical defect of the design: a schedule the regressed design admits is concretised and
# run on the current code; only a failing property-level oracle on the real code is a violation
REGRESSIONS = [
    ("PassExtra", "FALSE", ["fast-hc4-smalldict", "fast-bt4-smalldict", "chunksize", "preset"], ["CopyInRange"]),
    ("MoveKeepsPending", "FALSE", ["fast-bt4-bigdict"], ["MatchSourceInRange"]),
    ("PendingAssertStrict", "TRUE", ["fast-bt4-smalldict", "normal-bt4-smalldict"], ["PendingAssertHolds"]),
    ("MaskAfterPending", "FALSE", ["fast-hc4-bigdict"], ["PosStateAligned"]),
]


# =========================================================================== executor
def require_taken(r, actions, what):
    """Vacuity guard on TLC's per-action coverage (generated successors; a successor that coincides with another
    action's successor is still an execution of the action)."""
    missing = [a for a in actions if r.coverage.get(a, (0, 0))[1] == 0]
    if missing:
        raise ToolError(f"vacuous TLC run {what}: actions never taken: {missing}")


def run_plan(ctx, pid, tier):
    quick = tier == "quick"
    rnd = random.Random(ctx.seed + {"C01": 1, "C13": 13, "C15": 15}[pid])
    pool = ThreadPoolExecutor(max_workers=5)
    ab = E.asbuilt()
    t0 = time.time()

    # window constants of the code under test for every regime a recipe is built for
    full = lambda o: dict(dict(dict=65536, lc=3, lp=0, pb=2, mode="fast", nice=32, mf="hc4", depth=0), **o)
    specs = [(full(dict(dict=rg.get("dict", 4096), mode=rg.get("mode", "fast"), mf=rg.get("mf", "hc4"), nice=rg.get("nice", 32))), rg.get("writer", "lzma2"))
             for _, rg in E.SCALED_CFGS.values()]
    specs += [(full(dict(dict=d, mode=mode, mf=mf, nice=32)), "lzma2") for d in (4096, 60000, 65536) for mode, mf in (("fast", "hc4"), ("normal", "bt4"))]
    specs += [(full(dict(dict=4096, mode=m, mf=f, nice=32)), w) for m in ("fast", "normal") for f in ("hc4", "bt4") for w in ("lzma2", "lzma1")]
    specs += [(full(dict(dict=65536, mode="fast", mf="hc4", nice=32)), "lzma2"), (full(dict(dict=65536, mode="normal", mf="bt4", nice=32)), "lzma2"),
              (full(dict(dict=4096, mode="fast", mf="bt4", nice=30, lc=0, lp=2, pb=0)), "lzma2"),
              (full(dict(dict=4096, mode="normal", mf="hc4", nice=64, lc=3, lp=0, pb=4)), "lzma2")]
    observe_windows(specs)

    # ---------------------------------------------------------------- stage 1: model checking of the as-built design
    inv = {"C01": E.ENC_INV, "C13": ["TypeOK", "LookAheadGate", "AllBytesAccounted", "NoStuck"],
           "C15": ["TypeOK", "IndicesInRange", "HistoryRetained", "ExtendInRange", "MatchSourceInRange", "CopyInRange", "MoveInRange"]}[pid]
    names = list(E.SCALED_CFGS) if not quick else [n for n in E.SCALED_CFGS if n not in ("fast-bt4-smalldict", "normal-hc4-bigdict")] if pid == "C01" else \
        {"C13": ["fast-hc4-smalldict", "normal-bt4-smalldict", "lzma1-fast-hc4", "chunksize"],
         "C15": ["fast-hc4-smalldict", "fast-bt4-bigdict", "normal-bt4-smalldict", "lzma1-fast-hc4", "preset"]}[pid]
    def cfg_consts(n):
        c = dict(E.SCALED_CFGS[n][0])
        if not quick:
            c["N"] = int(c.get("N", 30)) + 4       # longer streams in the thorough tier
        elif "ModeBefore" in c:
            c["N"] = 22                              # normal-mode configurations are the largest: shorter streams in quick
        return E.scaled(**c)
    skip_design = os.environ.get("C1_SKIP_DESIGN") == "1"   # mutation testing of /repo copies only: the design stage does not read /repo
    if skip_design:
        names, mf_inv_skip = [], True
    tlc_timeout = 900 if quick else 3600
    futs = [(n, pool.submit(E.model_check, n, cfg_consts(n), inv, 3, tlc_timeout)) for n in names]
    mf_consts = dict(W=5, Dict=3, Slots="{1,2}", Steps=(24 if quick else 34), NormKind='"%s"' % ab["NormKind"], MaxAge=(2 if quick else 3))
    mf_inv = {"C01": ["DeltaIsTrueDistance", "NoOverflow"], "C13": None, "C15": ["DeltaIsTrueDistance"]}[pid]
    mf_fut = None
    if mf_inv and not skip_design:
        def mfrun():
            d, mod, cfg = core.write_model("MatchFinderPos", {k: str(v) for k, v in mf_consts.items()}, invariants=mf_inv)
            return core.run_tlc(mod, cfg, workers=3, cwd=d, timeout=1200 if quick else 3600)
        mf_fut = pool.submit(mfrun)
    jobs, meta = [], []            # meta: (source, extra)
    design = {}
    for n, f in futs:
        r = f.result()
        design[n] = r
        ctx.note_tlc("EncWindow " + n, r)
        log(f"[tlc] EncWindow {n}: {r}")
        if r.ok:
            must = ["CallWrite", "FillStay", "FillMove", "EncodeP", "EncodeStall", "FinishCall"]
            if "lzma1" in n:
                must += ["Finish1Done"]
            else:
                must += ["CloseLzma", "CloseRaw", "FlushCall"] + ([] if n in ("chunksize", "preset") else ["FillMovePending"])
            if n == "chunksize":
                must += ["StartIndep", "IndepNew", "FillNew"]
            require_taken(r, must, n)
        else:
            b = bad_of(r)
            j = concretise(b, E.SCALED_CFGS[n][1], f"{n}-{b}")
            jobs.append(j)
            meta.append(("tlc-cex", dict(cfg=n, bad=b, violated=r.violated, trace=[s["action"] for s in r.trace][-30:])))
    if mf_fut:
        r = mf_fut.result()
        design["MatchFinderPos"] = r
        ctx.note_tlc("MatchFinderPos as-built", r)
        log(f"[tlc] MatchFinderPos NormKind={ab['NormKind']}: {r}")
        if r.ok:
            require_taken(r, ["Advance", "Age"], "MatchFinderPos")
    log(f"[stage1] {len(names)} EncWindow configurations + MatchFinderPos model-checked in {time.time()-t0:.1f}s")

    # ---------------------------------------------------------------- regression probes: the regressed designs' counter-examples
    probes = []
    for flag, regressed, cfgs, pinv in REGRESSIONS:
        if ab[flag] == regressed or pid == "C13" or skip_design:
            continue
        for n in (cfgs[:1] if quick else cfgs):
            c = E.scaled(**dict(E.SCALED_CFGS[n][0], **{flag: regressed, "N": 24}))
            probes.append((n, f"{flag}={regressed}", pool.submit(E.model_check, n, c, pinv, 3, tlc_timeout)))
    for n, flag, f in probes:
        r = f.result()
        ctx.add("regression_models_checked")
        if not r.ok:
            b = bad_of(r)
            jobs.append(concretise(b, E.SCALED_CFGS[n][1], f"probe-{n}-{b}"))
            meta.append(("tlc-regression-cex:" + flag, dict(cfg=n, bad=b)))
            ctx.add("regression_probes")
        else:
            raise ToolError(f"regression probe {n} {flag}: the regressed design no longer violates its invariant (vacuous probe)")

    # ---------------------------------------------------------------- stage 2: tours; driver families
    t0 = time.time()
    tour_cfgs = {"C01": ["fast-hc4-smalldict", "fast-bt4-bigdict", "lzma1-fast-hc4"] + ([] if quick else ["chunksize", "normal-bt4-smalldict", "preset", "fast-hc4-bigdict"]),
                 "C13": [], "C15": ["fast-hc4-smalldict"] + ([] if quick else ["normal-bt4-smalldict", "fast-bt4-bigdict"])}[pid]
    fast_dev = os.environ.get("C1_DEV_ONLY_CEX") == "1"      # development aid: design counter-examples only
    if fast_dev:
        tour_cfgs = []
    tfuts = [pool.submit(tour_jobs, ctx, n, (14 if quick else 100), random.Random(rnd.getrandbits(30)), pool) for n in tour_cfgs]
    for f in tfuts:
        for j in f.result():
            jobs.append(j)
            meta.append(("tlc-tour", {}))
    if fast_dev:
        if pid == "C15" and os.environ.get("C1_DEV_EDGE") == "1":      # development aid: the edge family alone
            for j in edge_jobs(tier, random.Random(rnd.getrandbits(30))):
                jobs.append(j); meta.append(("edge", {}))
    elif pid == "C01":
        for j in corner_jobs(tier):
            jobs.append(j); meta.append(("corner", {}))
        for j in grid_jobs(rnd, 130 if quick else 1800, (1 << 20) if quick else (6 << 20), trace_every=2 if quick else 4):
            jobs.append(j); meta.append(("grid", {}))
        for j in bias_jobs(tier, rnd):
            jobs.append(j); meta.append(("bias", {}))
    elif pid == "C15":
        for j in corner_jobs(tier):
            if quick and (j["id"].startswith("tiny-l1") and not j["id"].endswith("raw+known")):
                continue
            j["mutations"] = 12 if j["writer"] == "lzma2" and sum(s["len"] for s in j["input"]) > 1000 else 0
            j["mut_seed"] = rnd.getrandbits(30)
            jobs.append(j); meta.append(("corner", {}))
        for j in grid_jobs(rnd, 70 if quick else 1200, (1 << 19) if quick else (4 << 20), trace_every=2):
            if j["writer"] == "lzma2" and sum(s["len"] for s in j["input"]) > 1000:
                j["mutations"] = 10
                j["mut_seed"] = rnd.getrandbits(30)
            jobs.append(j); meta.append(("grid", {}))
        for j in bias_jobs(tier, rnd):
            jobs.append(j); meta.append(("bias", {}))
        for j in edge_jobs(tier, random.Random(rnd.getrandbits(30))):
            jobs.append(j); meta.append(("edge", {}))
    # trace validation costs one TLC run per distinct vector of real constants: cap the number of traced vectors
    cap, seen = (20 if quick else 160), set()
    for j in jobs:
        if j.get("trace") and j["writer"] in ("lzma2", "lzma1") and not j.get("edge"):
            k = json.dumps(E.job_consts(j), sort_keys=True)
            if k not in seen and len(seen) >= cap and not j.get("bias"):
                j["trace"] = 0
            else:
                seen.add(k)
    log(f"[stage2] {len(jobs)} encoder histories prepared in {time.time()-t0:.1f}s ({len(seen)} distinct constant vectors traced)")

    # ---------------------------------------------------------------- run the real code
    t0 = time.time()
    if pid == "C13":
        return run_c13(ctx, tier, rnd, pool, design)
    results = E.run_jobs(jobs)
    log(f"[impl] {len(jobs)} encoder histories run in {time.time()-t0:.1f}s")
    edge_evidence(ctx, jobs, results)
    # second build without `optimization`: the renormalisation runs reach the scalar path there
    noopt_jobs, noopt_res = [], []
    if pid in ("C01", "C15"):
        t0 = time.time()
        noopt_jobs = [dict(j, id=j["id"] + "@noopt") for j, (src, _) in zip(jobs, meta) if src == "bias"]
        if pid == "C01":
            noopt_jobs += [dict(j, id=j["id"] + "@noopt", trace=0) for j, (src, _) in zip(jobs, meta) if src == "corner" and not j["id"].startswith("big")][:: (4 if quick else 1)]
        core.build_harness(features=["std"], target="noopt")
        noopt_res = E.run_jobs(noopt_jobs, features=["std"], target="noopt")
        log(f"[impl] {len(noopt_jobs)} histories run in the build without `optimization` in {time.time()-t0:.1f}s")

    finish_plan(ctx, pid, tier, pool, design, jobs, meta, results, noopt_jobs, noopt_res)


def finish_plan(ctx, pid, tier, pool, design, jobs, meta, results, noopt_jobs, noopt_res):
    quick = tier == "quick"
    ab = E.asbuilt()
    classes = set()
    cov = collections.Counter()
    kinds = collections.Counter()
    shadow_tot = {}
    all_runs = [(j, r, src, ex, "default") for j, r, (src, ex) in zip(jobs, results, meta)] + \
               [(j, r, "bias" if "bias" in j["id"] else "corner", {}, "noopt") for j, r in zip(noopt_jobs, noopt_res)]
    for j, r, src, ex, build in all_runs:
        classes.add(E.opt_sig(j)[:4] + (E.input_class(j), E.size_class(j), r["outcome"], src.split(":")[0]))
        for k, v in r.get("cov", {}).items():
            cov[k] += v
        for k, v in (r.get("census", {}).get("kinds", {}) or {}).items():
            kinds[k] += v
        if r.get("census") and r["census"]["max_uncompressed"] > (1 << 20):
            cov["chunk_over_1MiB"] += 1
        if r.get("census") and r["census"]["max_compressed"] > 60000:
            cov["chunk_compressed_near_64KiB"] += 1
        for s in r.get("shadow", []):
            t = shadow_tot.setdefault(s["site"], dict(count=0, violations=0, min_margin=None, touch_lo=0, touch_hi=0))
            t["count"] += s["count"]; t["violations"] += s["violations"]; t["touch_lo"] += s["touch_lo"]; t["touch_hi"] += s["touch_hi"]
            if s["count"]:
                t["min_margin"] = s["min_margin"] if t["min_margin"] is None else min(t["min_margin"], s["min_margin"])
        # ---- property-level oracles
        if pid == "C01":
            v = E.judge_roundtrip(j, r)
            if v:
                what, sig = v
                sig["build"] = build
                ctx.violation(what + (f" [build without optimization]" if build == "noopt" else ""), sig,
                              {"job": E.replay_job(j), "features": (["std"] if build == "noopt" else None), "source": src, "model": ex})
        elif pid == "C15":
            for s in E.shadow_failures(r):
                if s["site"].startswith("LZEncoderData::copy_uncompressed"):
                    continue          # safe code: reported by C01 as the panic it is
                o = j["opt"]
                sig = {"site": s["site"].split()[0], "writer": j["writer"], "mode": o["mode"], "mf": o["mf"], "input": E.input_class(j)}
                ctx.violation(f"shadow assertion before {s['site']} failed {s['violations']}x: first arguments {s['first']} "
                              f"(dict={o['dict']} mode={o['mode']} mf={o['mf']} input={E.input_class(j)})", sig,
                              {"job": E.replay_job(j), "features": (["std"] if build == "noopt" else None), "source": src})
            if r.get("mutations") and r["mutations"]["panic"]:
                ctx.add("decoder_panics_on_mutated_streams_seen", r["mutations"]["panic"])
    # spec -> impl: the situations of each abstract tour behaviour (window move, uncompressed / LZMA chunk, independent
    # chunk) must be realised by its scaled image on the real code; a miss says the scaling / data recipe did not carry the
    # behaviour over (evidence only, never a verdict)
    t_abs = t_real = 0
    t_miss = []
    for j, r, src, ex, build in all_runs:
        if src != "tlc-tour" or r["outcome"] != "ok":
            continue
        c = r["cov"]
        real = {"move": c["moves"] > 0, "raw": c["chunks_raw"] > 0, "lzma": c["chunks_lzma"] > 0, "indep": c["encoders"] > 1}
        for sname in j.get("sit", []):
            t_abs += 1
            if real.get(sname):
                t_real += 1
            elif len(t_miss) < 8:
                t_miss.append(f"{j['id']}:{sname}")
    ctx.cov["tour_situations_abstract"] = t_abs
    ctx.cov["tour_situations_realised"] = t_real
    ctx.cov["tour_situations_missed_sample"] = t_miss
    # design counter-examples of the as-built configuration need an implementation witness
    for j, r, src, ex, build in all_runs:
        if src == "tlc-cex":
            failing = (E.judge_roundtrip(j, r) is not None) or bool(E.shadow_failures(r))
            if not failing:
                raise ToolError(f"TLC reports {ex.get('violated')} ({ex.get('bad')}) for the as-built design {ex.get('cfg')} but the "
                                f"concretised history {j['id']} passes on the implementation: the model misrepresents the code "
                                f"(or the concretisation recipe does not reach the situation); trace tail {ex.get('trace')}")
    if design.get("MatchFinderPos") is not None and not design["MatchFinderPos"].ok:
        r = design["MatchFinderPos"]
        witnesses = [1 for j, rr, src, ex, build in all_runs if src == "bias" and (rr["outcome"] != "ok" or rr["cov"].get("norm_mismatch", 0) > 0)]
        if not witnesses:
            raise ToolError(f"TLC reports {r.violated} for the as-built MatchFinderPos (NormKind={ab['NormKind']}) but no renormalisation run of the "
                            f"implementation shows a non-max0 entry or fails: the model misrepresents the code")

    # ---------------------------------------------------------------- stage 3: trace validation
    t0 = time.time()
    traced = [(j, r) for j, r, src, ex, build in all_runs if r.get("events")]
    groups = E.validate_window_traces(traced, pool=pool)
    n_ok = n_rej = 0
    for g in groups:
        ctx.note_tlc("trace EncWindow", g["r"])
        if g["ok"]:
            n_ok += g["n"]
        else:
            n_rej += 1
            ctx.note_drift(f"Trace_EncWindow rejected a trace of {g['ids'][:3]}.. after event {g['reached']} of {g['total']}"
                           + (f" (invariant {g['violated']})" if g["violated"] and g["violated"] != "postcondition" else "")
                           + f"; next event {g['next']}" + (f"; {g['observed']}" if g.get("observed") else ""))
    # renormalisation events
    norm_lines = []
    for j, r in traced:
        evs = [e for e in r["events"] if e["ev"] in E.NORM_EVENTS]
        if evs:
            norm_lines.append(json.dumps({"ev": "Reset"}))
            norm_lines += [json.dumps(e) for e in evs]
    n_norm = 0
    if norm_lines:
        ok, reached, total, r = core.validate_events("Trace_MatchFinderPos", {"NormKind": '"%s"' % ab["NormKind"]}, norm_lines,
                                                     invariants=("Track",) + (("IntendedNorm",) if ab["NormKind"] == "max0" else ()))
        ctx.note_tlc("trace MatchFinderPos", r)
        n_norm = sum(1 for x in norm_lines if '"Renorm"' in x)
        if ok:
            n_ok += 1
        else:
            n_rej += 1
            nxt = norm_lines[reached] if reached is not None and reached < len(norm_lines) else "?"
            ctx.note_drift(f"Trace_MatchFinderPos rejected the renormalisation events after event {reached} of {total} ({r.violated}); next {nxt}")
    log(f"[stage3] {n_ok} traces accepted, {n_rej} groups rejected ({len(groups)} constant groups) in {time.time()-t0:.1f}s")

    # ---------------------------------------------------------------- vacuity guards
    need = {"moves": "window move", "moves_pending": "window move with pending positions", "pending_reprocessed": "pending-bytes path", "chunks_raw": "uncompressed LZMA2 chunk",
            "chunks_lzma": "LZMA chunk", "renorm": "position renormalisation", "norm_scalar": "scalar renormalisation path"}
    if pid in ("C01", "C15"):
        missing = [v for k, v in need.items() if cov.get(k, 0) == 0]
        if pid == "C01":
            missing += [f"chunk kind {k}" for k in ("e0", "c0", "a0", "80", "01", "02") if kinds.get(k, 0) == 0]
            if cov.get("chunk_over_1MiB", 0) == 0:
                missing.append("chunk at the 2 MiB uncompressed limit")
            if cov.get("chunk_compressed_near_64KiB", 0) == 0:
                missing.append("chunk at the 64 KiB compressed limit")
        if pid == "C15":
            for site, t in shadow_tot.items():
                if t["count"] == 0 and not site.startswith("LZEncoderData::copy_uncompressed") and not site.startswith("normalize"):
                    missing.append("shadow site never evaluated: " + site)
            ext = shadow_tot.get("lz::extend_match get_unchecked", {})
            if not ext.get("touch_lo") or not ext.get("touch_hi"):
                missing.append("extend_match never touched both buffer ends")
        if missing and os.environ.get("C1_DEV_ONLY_CEX") != "1" and not ctx.violations:
            raise ToolError(f"vacuous {pid} run: never exercised: {missing}")
        ctx.cov["not_exercised"] = missing
    ctx.cov["traces_validated_against_impl"] = n_ok
    ctx.cov["trace_groups_rejected"] = n_rej
    ctx.cov["renormalisations_validated"] = n_norm
    ctx.cov["evaluations"] = len(all_runs)
    cl = sorted(classes)
    ctx.cov["distinct_nontrivial"] = len(cl)
    ctx.cov["rule"] = ("one evaluation = one encoder history (options, generated input, write/flush script) run through the real writer "
                       "and reader; distinct = (writer, mode, match finder, dictionary size, input class, size class, outcome, source)")
    ctx.cov["coverage_counters"] = dict(cov)
    ctx.cov["lzma2_chunk_kinds"] = dict(kinds)
    ctx.cov["shadow_assertions"] = shadow_tot
    ctx.cov["sources"] = dict(collections.Counter(src.split(":")[0] for _, _, src, _, _ in all_runs))
    for j in [jobs[0], jobs[len(jobs) // 2], jobs[-1]] if jobs else []:
        s = dict(j)
        s["script"] = s.get("script", [])[:6]
        s["input"] = s["input"][:4]
        ctx.sample(s)
    ctx.assumptions += [
        "TLC results hold for the stated scaled constants (stream <= 30 abstract bytes, writes <= 4, dictionary 2 / 8 against a raw-chunk size of 8)",
        "EncWindow assumes that a chunk which did not compress is closed with little read-ahead (RawCap + MaxRA + 1 <= keep_size_before); "
        "normal mode with a dictionary below 64 KiB does not guarantee it by construction (see notes/groupC1.md)",
        "renormalisation is reached through the lz_pos bias / ageing hook, equivalent to earlier input whose table entries left the dictionary",
        "codec fidelity is decided on the explored inputs only",
    ]
    if pid == "C01":
        try_symlib(ctx, tier)
    ctx.finish()


def try_symlib(ctx, tier):
    """Per-symbol encoder / decoder agreement (group C2's LzmaSymbols specification), if their library is present:
    small round trips with symbol events on both sides, validated by TLC against Trace_LzmaSymbols; a divergence of
    state / reps at symbol i is a C01 violation (two adaptive models that differ decode some continuation differently)."""
    try:
        from checks import symlib
    except Exception as e:
        ctx.cov["symlib"] = f"absent ({type(e).__name__})"
        return
    need = ("roundtrip_job", "run_sym_jobs", "validate_symbols", "judge_symbols")
    if not all(hasattr(symlib, n) for n in need):
        ctx.cov["symlib"] = "present, without the round-trip entry points"
        return
    rnd = random.Random(ctx.seed + 101)
    n = 16 if tier == "quick" else 120
    jobs = []
    for i in range(n):
        fmt = rnd.choice(["lzma", "lzma2"])
        jobs.append(symlib.roundtrip_job(f"c01-sym-{i}", fmt, {"preset": rnd.choice([0, 1, 3, 4, 6, 9]), "dict": rnd.choice([4096, 65536, 1 << 20])},
                                         {"class": rnd.choice(["text", "mixed", "periodic", "lowent", "repeat_far", "random"]),
                                          "len": rnd.choice([1, 500, 3000, 9000, 20000]), "seed": rnd.randrange(1 << 30)},
                                         reads=rnd.choice([[4096], [1], [7, 0, 300]])))
    try:
        res = symlib.run_sym_jobs(jobs)
        runs = []
        for j, r in zip(jobs, res):
            if r.get("enc") != "ok" or r.get("dec") != "ok" or not r.get("equal"):
                ctx.violation(f"{j['fmt']} round trip (symbol-traced) fails: enc={r.get('enc')} dec={r.get('dec')} equal={r.get('equal')} {r.get('msg', '')}",
                              {"writer": j["fmt"], "outcome": "symbol_roundtrip", "input": j["data"]["class"]}, {"sym_job": j})
            elif r.get("events"):
                runs.append(r["events"])
        v = symlib.validate_symbols(ctx, runs, "C01")
        symlib.judge_symbols(ctx, v, {"writer": "lzma/lzma2", "outcome": "symbol_divergence"}, {"sym_jobs": jobs}, what="C01 symbol agreement")
        ctx.cov["symlib"] = {"round_trips": len(jobs), "symbol_traces": len(runs), "accepted": v["accepted"], "events": v.get("events")}
        if v["accepted"]:
            ctx.add("traces_validated_against_impl", len(runs))
    except ToolError as e:     # a sibling's machinery must not turn this check into an infrastructure failure
        ctx.cov["symlib"] = f"unavailable: {str(e)[:300]}"
    except Exception as e:
        ctx.cov["symlib"] = f"failed to run: {type(e).__name__}: {e}"


# =========================================================================== C13
def run_c13(ctx, tier, rnd, pool, design):
    quick = tier == "quick"
    for n, r in design.items():
        if not r.ok:
            raise ToolError(f"TLC reports {r.violated} for the as-built design {n}: C13's design argument (LookAheadGate) does not hold "
                            f"for the code as modelled; trace tail {[x['action'] for x in r.trace][-12:]}")
    # regression probe: the regressed design (keep_size_after = extra_size_after + nice_len) must be refuted by LookAheadGate;
    # its concretisation is the partition-lookahead family below, which must give equal digests on the current code
    if E.asbuilt()["KeepAfterUsesNice"] == "FALSE" and os.environ.get("C1_SKIP_DESIGN") != "1":
        c = E.scaled(**dict(E.SCALED_CFGS["normal-bt4-smalldict"][0], KeepAfterUsesNice="TRUE", N=20))
        r = E.model_check("probe", c, ["LookAheadGate"])
        ctx.note_tlc("EncWindow regressed KeepAfterUsesNice", r)
        ctx.add("regression_models_checked")
        if r.ok:
            raise ToolError("regression probe KeepAfterUsesNice=TRUE: the regressed design no longer violates LookAheadGate (vacuous probe)")
        ctx.add("regression_probes")
    groups = []      # (group id, [jobs]) - all jobs of a group must produce the same bytes
    n_in = 26 if quick else 300
    for i in range(n_in):
        writer = rnd.choice(["lzma2", "lzma1", "lzma2", "lzip", "xz"])
        opt = opts_pool(rnd, writer)
        if writer in ("xz", "lzip") and opt["dict"] == 65537:
            opt["dict"] = 65536
        total = rnd.choice([0, 1, 700, 5000]) if rnd.random() < 0.2 else rnd.randrange(20000, (300000 if quick else 3000000))
        if opt["mode"] == "normal" and quick:
            total = min(total, 150000)
        inp = rand_input(rnd, total, opt["dict"])
        kw = {}
        if writer == "lzma1":
            kw = dict(header=True, end_marker=True)
        base = E.mk_job(f"c13-{i}", writer=writer, opt=opt, input=inp, **kw)
        scripts = [[]]
        # partitions: equal pieces, ragged pieces around the look-ahead thresholds, one byte at a time (small inputs), random
        scripts.append([dict(op="w", n=4096)] * (total // 4096 + 1))
        ka = 545 if opt["mode"] == "fast" else 4369
        scripts.append([dict(op="w", n=n) for n in _ragged(rnd, total, [1, ka - 1, ka, ka + 1, 65536, 70000])])
        scripts.append([dict(op="w", n=n) for n in _ragged(rnd, total, [3, 997, 30000, 262144])])
        if total <= 6000:
            scripts.append([dict(op="w", n=1)] * total)
        else:
            scripts.append([dict(op="w", n=total - 1), dict(op="w", n=1)])
        js = []
        for k, sc in enumerate(scripts):
            j = dict(base, id=f"c13-{i}-p{k}", script=sc, repeat=(3 if k == 0 else 1), trace=(1 if k in (0, 2) else 0), decode=(k == 0))
            js.append(j)
        groups.append((f"partition/{writer}", js))
        # same flush points, different partitions between them (LZMA2 / XZ / LZIP flush closes a chunk: part of the history)
        if writer in ("lzma2", "xz") and total > 4000:
            cut = sorted(rnd.sample(range(1, total), 2))
            fa = [dict(op="w", n=cut[0]), dict(op="f"), dict(op="w", n=cut[1] - cut[0]), dict(op="f")]
            fb = [dict(op="w", n=n) for n in _ragged(rnd, cut[0], [1, 500, 70000])] + [dict(op="f")] + \
                 [dict(op="w", n=n) for n in _ragged(rnd, cut[1] - cut[0], [2, 800, 50000])] + [dict(op="f")]
            groups.append((f"partition-fixed-flush/{writer}",
                           [dict(base, id=f"c13-{i}-f0", script=fa, decode=False), dict(base, id=f"c13-{i}-f1", script=fb, decode=False, trace=1)]))
        # chunk / block / member size configured: only repeated runs of the same history are compared
        if writer in ("lzma2", "xz", "lzip") and i % 3 == 0:
            sc = [dict(op="w", n=n) for n in _ragged(rnd, total, [4096, 100000])]
            groups.append((f"repeat-with-unit-size/{writer}",
                           [dict(base, id=f"c13-{i}-u", script=sc, chunk_size=rnd.choice([4096, 65536, 100000]), repeat=3, decode=False)]))
    # LZIP with a member size: the statement quantifies over write partitions for the LZIP writer without reservation (only LZMA2 / XZ
    # are excepted when a chunk / block size is set), so the member boundaries - multiples of the effective member size (the
    # configured one, raised to the dictionary size) - may not depend on where the caller's pieces end: one write against pieces
    # below the member size that do not divide it, pieces above it, a call ending one byte before / after a boundary, ragged
    n_ms = 0
    for i in range(5 if quick else 40):
        opt = opts_pool(rnd, "lzip")
        opt["dict"] = d = rnd.choice([4096, 5000, 8192, 20000, 65536])
        member = [d + d // 3 + 1, d, d // 2, 2 * d + 17, 1][i % 5]
        eff = max(member, d)
        total = eff * 3 + rnd.randrange(1, eff)
        if opt["mode"] == "normal" and quick:
            total = min(total, 2 * eff + eff // 2)
        base = E.mk_job(f"c13-ms-{i}", writer="lzip", opt=opt, input=rand_input(rnd, total, d), chunk_size=member, decode=False)
        scripts = [[], [dict(op="wall", n=eff // 3 + 1)], [dict(op="wall", n=eff + eff // 4 + 1)],
                   [dict(op="w", n=eff - 1), dict(op="w", n=2), dict(op="w", n=total - eff - 1)],
                   [dict(op="w", n=n) for n in _ragged(rnd, total, [1, 700, max(1, member - 1), eff // 2 + 3, eff - 1, eff + 1, 2 * eff + 5])]]
        js = [dict(base, id=f"c13-ms-{i}-p{k}", script=sc, decode=(k == 0)) for k, sc in enumerate(scripts)]
        groups.append(("partition-member-size/lzip", js))
        n_ms += 1
    if not n_ms:
        raise ToolError("vacuous C13 run: no LZIP partition group with a member size")
    # LookAheadGate family: normal mode, nice_len below MATCH_LEN_MAX, data that gives the optimal parser chains of thousands of
    # positions ending in a match of maximal length, under 1-byte / 13-byte / 4096-byte writes and one write: if a position
    # deep in the look-ahead is consumed with less than MATCH_LEN_MAX bytes buffered, the long match is truncated to whatever
    # input happens to be there and the bytes depend on the partition
    gate = [(32, "hc4", "lzma2"), (32, "bt4", "lzma1"), (64, "bt4", "lzip"), (128, "bt4", "lzma2"), (8, "bt4", "lzma1"), (271, "hc4", "lzma1")]
    if not quick:
        gate += [(n, mf, w) for n in (8, 16, 32, 64, 128, 200, 271) for mf in ("hc4", "bt4") for w in ("lzma1", "lzma2", "lzip", "xz")]
    for i, (nice, mf, writer) in enumerate(gate):
        opt = dict(dict=65536, lc=3, lp=0, pb=2, mode="normal", mf=mf, nice=nice, depth=0)
        kw = dict(header=False, end_marker=True) if writer == "lzma1" else {}
        n = 300000 if (nice not in (8, 271) or not quick) else 100000    # chains of ~3900 positions that end in the phrase need many stretches
        base = E.mk_job(f"c13-gate-{i}", writer=writer, opt=opt, input=[E.seg("wordy", n, 900 + i)], decode=False, **kw)
        js = [dict(base, id=f"c13-gate-{i}-p{piece}", script=([dict(op="wall", n=piece)] if piece else [])) for piece in (0, 1, 13, 4096)]
        js[0]["decode"] = True
        js[1]["trace"] = 0
        groups.append((f"partition-lookahead/{writer}", js))
    # repeated runs in one process on data whose encoding is sensitive to every tuning parameter (long hash chains / deep trees,
    # default depth limits): state that survives from one encoder instance to the next shows up as differing digests
    for i in range(8 if quick else 40):
        writer = ["lzma2", "lzma1", "lzip", "xz"][i % 4]
        opt = dict(dict=rnd.choice([4096, 65536, 1 << 20]), lc=3, lp=0, pb=2, mode=["fast", "normal"][(i // 2) % 2], mf=["hc4", "bt4"][i % 2],
                   nice=rnd.choice([16, 32, 64, 273]), depth=0)
        kw = dict(header=True, end_marker=True) if writer == "lzma1" else {}
        base = E.mk_job(f"c13-rep-{i}", writer=writer, opt=opt, input=[E.seg(["lowent", "text", "mixed", "periodic"][i % 4], 70000 + 1000 * i, rnd.getrandbits(20))], **kw)
        groups.append((f"repeat/{writer}", [dict(base, repeat=4, decode=False), dict(base, id=f"c13-rep-{i}-b", repeat=2, decode=False,
                                                                                    script=[dict(op="w", n=30000)])]))
    jobs = [j for _, js in groups for j in js]
    cap, seen = (12 if quick else 80), set()
    for j in jobs:
        if j.get("trace") and j["writer"] in ("lzma2", "lzma1"):
            k = json.dumps(E.job_consts(j), sort_keys=True)
            if k not in seen and len(seen) >= cap:
                j["trace"] = 0
            else:
                seen.add(k)
        elif j.get("trace"):
            j["trace"] = 0
    t0 = time.time()
    results = E.run_jobs(jobs)
    log(f"[impl] {len(jobs)} encoder histories ({len(groups)} comparison groups) run in {time.time()-t0:.1f}s")
    classes = set()
    k = 0
    n_cmp = 0
    gate_positions = 0
    for gname, js in groups:
        rs = results[k:k + len(js)]
        k += len(js)
        digs = collections.OrderedDict()
        for j, r in zip(js, rs):
            if r["outcome"] not in ("ok",):
                # a failing round trip is C01's verdict; here it only blocks the comparison
                ctx.add("runs_not_comparable_" + r["outcome"])
                continue
            for d in r["digests"]:
                digs.setdefault(d, []).append(j["id"])
                n_cmp += 1
        classes.add((gname, js[0]["opt"]["mode"], js[0]["opt"]["mf"], E.input_class(js[0]), E.size_class(js[0]), len(digs)))
        if len(digs) > 1:
            o = js[0]["opt"]
            kind = gname.split("/")[0]
            sig = {"writer": js[0]["writer"], "kind": kind, "mode": o["mode"], "mf": o["mf"], "input": E.input_class(js[0])}
            a, b = list(digs.items())[:2]
            ja = next(j for j in js if j["id"] == a[1][0])
            jb = next(j for j in js if j["id"] == b[1][0])
            ctx.violation(f"{js[0]['writer']}: same input and options, different output bytes ({kind}): {a[1][0]} -> {a[0]}, {b[1][0]} -> {b[0]} "
                          f"(dict={o['dict']} mode={o['mode']} mf={o['mf']} nice={o['nice']} input={E.input_class(js[0])}/{E.size_class(js[0])})",
                          sig, {"jobs": [E.replay_job(ja), E.replay_job(jb)], "kind": kind})
    # ---- MT dimension: worker counts and schedules (deterministic runtime of the lead's harness)
    mt_stats = c13_mt(ctx, tier, rnd, classes)
    # ---- traces: window indices as the spec computes them, LookAheadGate evaluated on every traced run
    t0 = time.time()
    traced = [(j, r) for j, r in zip(jobs, results) if r.get("events") and j["writer"] in ("lzma2", "lzma1")]
    tg = E.validate_window_traces(traced, pool=pool)
    n_ok = sum(g["n"] for g in tg if g["ok"])
    n_rej = sum(1 for g in tg if not g["ok"])
    for g in tg:
        ctx.note_tlc("trace EncWindow", g["r"])
        if not g["ok"]:
            ctx.note_drift(f"Trace_EncWindow rejected a trace of {g['ids'][:3]}.. after event {g['reached']} of {g['total']}"
                           + (f" (invariant {g['violated']})" if g["violated"] and g["violated"] != "postcondition" else "") + f"; next event {g['next']}" + (f"; {g['observed']}" if g.get("observed") else ""))
    log(f"[stage3] {n_ok} traces accepted, {n_rej} groups rejected in {time.time()-t0:.1f}s")
    if n_cmp < 50:
        raise ToolError("vacuous C13 run: fewer than 50 outputs compared")
    ctx.cov["traces_validated_against_impl"] = n_ok
    ctx.cov["trace_groups_rejected"] = n_rej
    ctx.cov["evaluations"] = n_cmp + mt_stats.get("runs", 0)
    ctx.cov["distinct_nontrivial"] = len(classes)
    ctx.cov["rule"] = ("one evaluation = one complete encode whose output digest takes part in a comparison; distinct = (comparison kind/writer, "
                       "mode, match finder, input class, size class, number of distinct digests) resp. (MT family, unit size, worker counts, schedules)")
    ctx.cov["comparison_groups"] = len(groups)
    ctx.cov["mt"] = mt_stats
    ctx.sample(dict(groups[0][1][1], input=groups[0][1][1]["input"][:3], script=groups[0][1][1]["script"][:5]))
    ctx.assumptions += [
        "LZMA2 / XZ partitions are compared only without chunk / block size, as the statement says; with a unit size only repeated runs",
        "flush points are part of the history, not of the partition (a flush closes a chunk)",
        "dependence on uninitialised memory that happens to be equal in all runs of one process is not decided; freed dirty memory of "
        "assorted sizes is left behind between repeated runs",
        "MT schedules come from the deterministic runtime (sequentially consistent atomics)",
    ]
    ctx.finish()


def _ragged(rnd, total, sizes):
    out, left = [], total
    while left > 0 and len(out) < 3000:
        n = min(left, rnd.choice(sizes))
        out.append(n)
        left -= n
    if left > 0:
        out.append(left)
    return out


def c13_mt(ctx, tier, rnd, classes):
    try:
        from vlib import mtlib
    except Exception:
        return {"status": "mtlib absent"}
    quick = tier == "quick"
    scns, keys = [], []
    n_sched = 14 if quick else 80
    for fam in ("lzma2_writer", "lzip_writer"):
        for unit, total_units, cls in ((4096, 3, "mixed"), (5000, 4, "text")) if quick else ((4096, 3, "mixed"), (5000, 4, "text"), (8192, 5, "random")):
            total = unit * total_units - 700
            parts = [[total], [1000, total - 1000], [unit] * (total // unit) + [total % unit], [unit - 1, total - unit + 1],
                     [unit - 100, 50, total - unit + 50], _ragged(rnd, total, [1, 97, unit - 300, unit + 1, 2 * unit - 5])]
            for part in parts:
                calls = [dict(op="write", n=n) for n in part if n > 0] + [dict(op="finish")]
                for workers in (1, 2, 3, 4):
                    for s in range(n_sched if workers > 1 else 2):
                        pol = {"kind": "random", "seed": rnd.getrandbits(40)} if s % 2 == 0 else {"kind": "pct", "seed": rnd.getrandbits(40), "depth": 1 + s % 3}
                        scns.append({"id": f"c13-{fam}-{unit}-p{len(part)}x{part[0]}-w{workers}-{s}", "family": fam, "workers": workers, "unit_len": unit,
                                     "calls": calls, "data_class": cls, "seed": 4242 + unit, "policy": pol})
                        keys.append((fam, unit, cls))
    # unit size configured below / at / above the dictionary size (below it the constructors raise it to the dictionary size),
    # crossed with partitions whose pieces lie below the configured size, between it and the effective size, above the
    # effective size: the unit boundaries - and the bytes - may depend on input, options and unit size only
    from checks import mtwriter
    n_cl = 2 if quick else 12
    ucfgs = [(u, d) for (u, d) in mtwriter.UNIT_CONFIGS if u < d] + ([] if quick else [(u, d) for (u, d) in mtwriter.UNIT_CONFIGS if u >= d])
    for fam in ("lzma2_writer", "lzip_writer"):
        for ci, (raw, dsz) in enumerate(ucfgs):
            eff = max(raw, dsz)
            cls = ("text", "mixed", "random")[ci % 3] if not quick else ("text", "mixed")[ci % 2]
            for workers in (1, 2, 3, 4):
                for s in range(n_cl if workers > 1 else 1):
                    def pol():
                        return {"kind": "random", "seed": rnd.getrandbits(40)} if s % 2 == 0 else {"kind": "pct", "seed": rnd.getrandbits(40), "depth": 1 + s % 3}
                    new = mtwriter.partition_scns(fam, raw, dsz, eff * 3 - 700, workers, pol, f"c13-{fam}-{raw}of{dsz}-w{workers}-{s}", rnd,
                                                  data_class=cls, seed=4242 + raw)
                    scns += new
                    keys += [(fam, f"{raw}/dict{dsz}", cls)] * len(new)
    if not any(s.get("dict_size", 0) > s["unit_len"] for s in scns):
        raise ToolError("vacuous C13 MT stage: no configuration with the unit size below the dictionary size")
    t0 = time.time()
    res = mtlib.run_scenarios(scns)
    log(f"[impl] {len(scns)} MT writer executions on the deterministic runtime in {time.time()-t0:.1f}s")
    by = collections.defaultdict(lambda: collections.OrderedDict())
    for s, r, k in zip(scns, res, keys):
        if r.get("step_limit"):
            raise ToolError(f"step limit reached in {s['id']}")
        if r["deadlock"] or r["outcome"] != "finished":
            ctx.add("mt_runs_not_comparable")     # C09 / C08 own these verdicts
            continue
        by[k].setdefault(r["compressed_digest"], []).append(s)
    for k, digs in by.items():
        classes.add(("mt",) + k + (len(digs),))
        if len(digs) > 1:
            (da, sa), (db, sb) = list(digs.items())[:2]
            sig = {"writer": k[0], "kind": "mt-workers-schedules", "input": k[2]}
            ctx.violation(f"{k[0]}: output depends on worker count / schedule / partition: {sa[0]['id']} (workers {sa[0]['workers']}) -> {da}, "
                          f"{sb[0]['id']} (workers {sb[0]['workers']}) -> {db}", sig, {"scenarios": [sa[0], sb[0]], "kind": "mt"})
    return {"runs": len(scns), "groups": len(by), "schedules_per_worker_count": n_sched}


# =========================================================================== replay
def run_replay(ctx, path, props):
    doc = json.load(open(path))
    rp = doc["replay"]
    pid = ctx.pid
    if "scenarios" in rp:
        from vlib import mtlib
        res = mtlib.run_scenarios(rp["scenarios"])
        digs = set(r["compressed_digest"] for r in res)
        if len(digs) > 1:
            ctx.violation("MT output differs between the two recorded scenarios: " + ", ".join(sorted(digs)), doc["sig"], rp)
        ctx.cov.update(evaluations=len(res), distinct_nontrivial=len(digs) + 1, rule="replay")
        return ctx.finish()
    if "jobs" in rp:
        res = E.run_jobs(rp["jobs"])
        digs = [d for r in res for d in r["digests"]]
        print(json.dumps([{k: r[k] for k in ("id", "outcome", "detail", "digests")} for r in res], indent=1))
        if len(set(digs)) > 1:
            ctx.violation("outputs differ: " + ", ".join(digs), doc["sig"], rp)
        ctx.cov.update(evaluations=len(res), distinct_nontrivial=len(set(digs)) + 1, rule="replay")
        return ctx.finish()
    job = rp["job"]
    feats = rp.get("features")
    if feats:
        core.build_harness(features=feats, target="noopt")
        res = E.run_jobs([job], features=feats, target="noopt")[0]
    else:
        res = E.run_jobs([job])[0]
    print(json.dumps({k: res[k] for k in ("id", "outcome", "detail", "digests", "cov")}, indent=1))
    if pid == "C01":
        v = E.judge_roundtrip(job, res)
        if v:
            sig = v[1]
            sig["build"] = "noopt" if feats else "default"
            ctx.violation(v[0], sig, rp)
    elif pid == "C15":
        for s in E.shadow_failures(res):
            if not s["site"].startswith("LZEncoderData::copy_uncompressed"):
                ctx.violation(f"shadow assertion before {s['site']} failed {s['violations']}x: {s['first']}", doc["sig"], rp)
    ctx.cov.update(evaluations=1, distinct_nontrivial=2, rule="replay of one recorded history")
    ctx.finish()
