"""Symbol-level helpers of group C2, importable by other checks (C01, C06, C07, C16 ...): always
`try: from checks import symlib` and degrade gracefully.

Specifications behind these helpers: spec/LzmaSymbols.tla (+ Trace_LzmaSymbols.tla), spec/LzDecoder.tla
(+ Trace_LzDecoder.tla), spec/RangeCoder.tla. Harness side: harness/src/sym.rs + symforge.rs, binary vh_sym.

SIGNATURES
  run_sym_jobs(jobs, features=None, target=None, nproc=None) -> [dict]
      Runs vh_sym jobs (dicts, see harness/src/sym.rs: op = roundtrip | forge | h4norm | h4bits) in parallel
      shards of the given harness build; results in job order. A `roundtrip` result carries `events` (if the job
      has "events": true, the default): encoder symbol events (side E), decoder symbol events (side D), LzDecoder
      events (side L), in program order, plus `enc_counters` / `dec_counters` (range coder bytes pushed / pulled).
  roundtrip_job(id, fmt, opts, data, **kw) -> dict                       convenience constructor of a job
  split_events(events) -> (sym_events, lz_events)                        symbol events (E then D) / LzDecoder events
  normalise_symbols(sym_events) -> [dict]
      Drops coder-reset events (kind 9) that cannot matter (leading, trailing, repeated) on each side.
  pair_check(sym_events) -> None | dict(index, enc, dec, reason)
      Pure-python per-symbol agreement EncState_i = DecState_i /\\ EncReps_i = DecReps_i (and kind / len / idx).
  validate_symbols(ctx, runs, name="", check_agree=True) -> dict
      runs: list of event lists (one per round trip; raw `events` of a result are accepted). All runs are
      concatenated into ONE TLC trace validation against Trace_LzmaSymbols (conformance of each side with its
      transcription + pairwise agreement). Returns {accepted, reached, total, bad_run, divergence, conform_only,
      tlc}. `divergence` (from pair_check) is the property-level witness DESIGN.md 4.6 argues for C01: two
      adaptive models that differ at symbol i decode some continuation differently. `conform_only` = True when
      the pairing holds but a side does not follow its transcription (model drift, never a violation).
  judge_symbols(ctx, res, sig, replay, what="") -> bool
      Turns the result of validate_symbols into ctx.violation (divergence) or ctx.note_drift (conformance).
  forge_stream(script_job) -> dict
      script_job: {"fmt": "lzma"|"lzma2", "lc","lp","pb","dict", "script": [["lit",b]|["match",dist,len]|
      ["rep",idx,len]|["srep"]|["marker"]], "marker": bool, "size_known": bool, "size": n} or for lzma2
      {"chunks": [{"t":"lzma","syms":[...],"dict_reset":b,"new_props":b,"state_reset":b}|{"t":"raw","data":[..],
      "dict_reset":b}], "terminate": bool}. Returns {"hex", "expect_hex", "ref" ("ok"|"err"), "ref_equal",
      "chunks": [[offset, payload_len]..]}: the stream realised by the independent serialiser, cross-checked
      against liblzma.
  lzdecoder_behaviours(ctx, consts, n, seed, depth=400, name="") -> [behaviour]
      TLC simulation of LzDecoder.tla with KeepHist = TRUE; a behaviour is the list of history entries
      ["read",k,n] / ["lit",id] / ["match",dist,len] / ["bad",dist] / ["chunk",kind,u,reset,ids] / ["end"] / ["marker"] / ["total",t].
  lzdecoder_replay(ctx, kind, consts, n_behaviours, seed, name="", sig_base=None, features=None, target=None,
                   behaviours=None, scale=1) -> dict      (scale: see behaviour_to_job)
      Strict replay of LzDecoder.tla: TLC (simulation mode) chooses symbol scripts AND read sizes; every behaviour
      is forged into a real stream, cross-checked with liblzma, and read through the real LZMAReader /
      LZMA2Reader with exactly the scripted read sizes; per call the number of bytes, the bytes themselves and the
      error class must be what the specification predicts. Returns counters; reports through ctx.
  validate_lzdecoder(ctx, runs, name="") -> dict       Trace_LzDecoder on recorded decoder + LzDecoder events
  rc_counters_equal(result) -> bool                    bytes pushed by the range encoder = bytes pulled by the decoder
  validate_rangecoder(ctx, results, name="") -> dict   Trace_RangeCoder (real width, limb arithmetic) on `roundtrip` results of
      .lzma jobs run with "bits": true, "emit_hex": true: every encoder / decoder bit event is the image of the previous
      state; Encode's output = the real stream; BytesPulled = BytesPushed incl. the final lazy normalisation (C16)
"""
import json, os, re, subprocess, time
from concurrent.futures import ThreadPoolExecutor
from vlib import core
from vlib.core import log, ToolError


# --------------------------------------------------------------------------- running harness jobs
def run_lines(binpath, lines, nproc=None, timeout=900, shard=None):
    """Feeds JSON lines to `binpath` in parallel shards (order of results = order of lines). Returns the output
    lines of each shard concatenated in shard order."""
    nproc = nproc or min(core.NCPU, 12)
    if not lines:
        return []
    n = shard or max(1, (len(lines) + nproc - 1) // nproc)
    shards = [lines[i:i + n] for i in range(0, len(lines), n)]

    def one(sh):
        try:
            p = subprocess.run([binpath], input="\n".join(sh) + "\n", stdout=subprocess.PIPE, stderr=subprocess.PIPE,
                               text=True, timeout=timeout)
        except subprocess.TimeoutExpired:
            raise ToolError(f"{binpath} timed out after {timeout}s")
        if p.returncode != 0:
            raise ToolError(f"{binpath} exited with {p.returncode}: {p.stderr[-2000:]}")
        return [l for l in p.stdout.splitlines() if l.strip()]

    with ThreadPoolExecutor(max_workers=nproc) as ex:
        outs = list(ex.map(one, shards))
    return [l for o in outs for l in o]


def run_sym_jobs(jobs, features=None, target=None, nproc=None):
    bindir = core.build_harness(features, target)
    lines = run_lines(os.path.join(bindir, "vh_sym"), [json.dumps(j) for j in jobs], nproc=nproc, shard=None)
    res = [json.loads(l) for l in lines]
    if len(res) != len(jobs):
        raise ToolError(f"vh_sym returned {len(res)} results for {len(jobs)} jobs")
    return res


def roundtrip_job(id, fmt, opts, data, **kw):
    j = {"op": "roundtrip", "id": id, "fmt": fmt, "opts": opts, "data": data}
    j.update(kw)
    return j


# --------------------------------------------------------------------------- symbol events
def split_events(events):
    return [e for e in events if e.get("side") in ("E", "D")], [e for e in events if e.get("side") in ("D", "L")]


def discarded_chunks(sym_events):
    """Number of LZMA2 chunks whose symbols the encoder threw away (chunk written uncompressed instead)."""
    return _enc_filter([e for e in sym_events if e["side"] == "E"])[1]


def _enc_filter(evs):
    """Encoder events: kind 8 closes an LZMA2 chunk; a chunk whose events end with a coder reset AFTER symbols was
    written uncompressed (LZMA2Writer::write_chunk calls reset() and discards the range coder buffer): its
    symbols never reach the decoder."""
    out, seg, dropped = [], [], 0
    for e in evs:
        if e["kind"] == 8:
            if seg and seg[-1]["kind"] == 9 and any(x["kind"] < 4 for x in seg):
                dropped += 1
                seg = [seg[-1]]
            out += seg
            seg = []
        else:
            seg.append(e)
    return out + seg, dropped


def normalise_symbols(sym_events):
    out = []
    for side in ("E", "D"):
        evs = [e for e in sym_events if e["side"] == side]
        if side == "E":
            evs = _enc_filter(evs)[0]
        keep = []
        for i, e in enumerate(evs):
            if e["kind"] == 9:
                if not keep or keep[-1]["kind"] == 9:
                    continue            # leading or repeated reset
                if all(x["kind"] == 9 for x in evs[i:]):
                    continue            # trailing reset
            keep.append(e)
        out += keep
    return out


def pair_check(sym_events):
    enc = [e for e in sym_events if e["side"] == "E"]
    dec = [e for e in sym_events if e["side"] == "D"]
    for i, d in enumerate(dec):
        if i >= len(enc):
            return {"index": i, "enc": None, "dec": d, "reason": "decoder produced more symbols than the encoder"}
        e = enc[i]
        for f in ("kind", "len", "idx", "st", "r"):
            if e[f] != d[f]:
                return {"index": i, "enc": e, "dec": d, "reason": f"field {f} differs"}
    if len(enc) > len(dec):
        return {"index": len(dec), "enc": enc[len(dec)], "dec": None, "reason": "decoder produced fewer symbols than the encoder"}
    return None


def _trace_lines(runs):
    lines, starts = [], []
    for ev in runs:
        syms = normalise_symbols([e for e in ev if e.get("side") in ("E", "D")])
        starts.append(len(lines))
        lines.append({"side": "X"})
        lines += syms
    lines.append({"side": "X"})
    return lines, starts


def validate_symbols(ctx, runs, name="", check_agree=True):
    lines, starts = _trace_lines(runs)
    div = None
    if check_agree:
        for i, ev in enumerate(runs):
            d = pair_check(normalise_symbols([e for e in ev if e.get("side") in ("E", "D")]))
            if d:
                d["run"] = i
                div = d
                break
    ok, reached, total, r = core.validate_events("Trace_LzmaSymbols", {"Dists": "{}", "MaxLen": "0",
                                                                     "CheckAgree": "TRUE" if check_agree else "FALSE"},
                                                 lines, timeout=900)
    if ctx is not None:
        ctx.note_tlc("trace LzmaSymbols " + name, r)
    res = {"accepted": ok, "reached": reached, "total": total, "tlc": r, "divergence": div, "bad_run": None,
           "conform_only": False, "events": len(lines), "runs": len(runs)}
    if not ok:
        bad = max([i for i, s in enumerate(starts) if reached is not None and s <= reached], default=None)
        res["bad_run"] = bad
        res["next_event"] = lines[reached] if reached is not None and reached < len(lines) else None
        if check_agree and div is None:
            res["conform_only"] = True
    elif div is not None:
        # python sees a divergence that TLC accepted: the trace spec is too weak - infrastructure problem
        raise ToolError(f"pair_check found a divergence that Trace_LzmaSymbols accepted: {div}")
    return res


def judge_symbols(ctx, res, sig, replay, what=""):
    """True if a violation was recorded."""
    if res["accepted"]:
        return False
    if res["divergence"] is not None:
        d = res["divergence"]
        return ctx.violation(f"{what}: encoder and decoder disagree at symbol {d['index']} of run {d['run']} ({d['reason']}): "
                             f"enc={d['enc']} dec={d['dec']}", sig, replay)
    ctx.note_drift(f"{what}: Trace_LzmaSymbols rejects run {res['bad_run']} after event {res['reached']} of {res['total']} "
                   f"(next {res.get('next_event')}) although encoder and decoder agree: a side left its transcription")
    return False


def rc_counters_equal(result):
    e, d = result.get("enc_counters"), result.get("dec_counters")
    if not e or not d:
        return True
    if result.get("events") and discarded_chunks([x for x in result["events"] if x.get("side") in ("E", "D")]):
        return True     # bytes of a discarded chunk were pushed but never written
    return e["enc_pushed"] == d["dec_pulled_stream"] + d["dec_pulled_buf"]


# --------------------------------------------------------------------------- StreamForge
def forge_stream(script_job):
    j = dict(script_job)
    j.update({"op": "forge", "forge_only": True, "emit_hex": True, "id": j.get("id", "forge")})
    return run_sym_jobs([j])[0]


# --------------------------------------------------------------------------- LzDecoder strict replay
_LIT_BYTE = lambda i: (i * 37 + 11) % 256      # value id -> byte


def behaviour_to_job(beh, kind, B, jid, lc=3, lp=0, pb=2, scale=1):
    """beh: list of history entries printed by LzDecoder.tla (see H / H2 there). Returns the pieces of a forge job:
    (read sizes, expected per-call results, lzma script, lzma2 chunks, bad distance or None).
    scale > 1 realises the behaviour on a ring `scale` times larger: every model byte becomes `scale` real bytes (a
    literal -> scale literals, match(d, l) -> distance scale*(d+1)-1 and length scale*l in pieces of <= 273 bytes, read
    sizes and chunk sizes multiplied): all ring positions at model-symbol boundaries are multiples of `scale`, so the
    ring wraps, matches split across reads etc. exactly where the model's do (used since LZMA2Reader raises
    dictionaries below 4 KiB to 4 KiB: model ring 16 x scale 256 = the real minimum ring)."""
    reads, expect = [], []
    script, chunks, cur = [], [], None
    bad = None
    need_props, after_raw, nl = True, False, 0
    reps, nm = [0, 0, 0, 0], 0

    def out():
        return cur["syms"] if cur is not None else script

    for h in beh:
        t = h[0]
        if t == "read":
            reads.append(h[1] * scale)
            expect.append({"k": h[1] * scale, "n": h[2] * scale if h[2] >= 0 else -1})
        elif t == "lit":
            for j in range(scale):
                out().append(["lit", _LIT_BYTE(h[1] * scale + j)])
        elif t == "match":
            # the ring does not care whether a distance is coded as a normal match or as a repeated match: use the
            # rep coding for every second match whose distance is among the four most recent ones (symbol variety)
            nm += 1
            D, L = scale * (h[1] + 1) - 1, scale * h[2]
            pieces, rest = [], L
            while rest > 0:                      # pieces of at most 273 bytes (they straddle the scaled read limits)
                p_ = min(273, rest) if scale > 1 else rest
                if rest - p_ == 1:
                    p_ -= 1
                pieces.append(p_)
                rest -= p_
            if D in reps and nm % 2 == 0:
                i = reps.index(D)
                out().append(["rep", i, pieces[0]])
                reps.insert(0, reps.pop(i))
            else:
                out().append(["match", D, pieces[0]])
                reps = [D] + reps[:3]
            for p_ in pieces[1:]:
                out().append(["rep", 0, p_])
        elif t == "bad":
            bad = scale * (h[1] + 1) - 1
            out().append(["match", bad, 2])
        elif t == "chunk":
            reset = bool(h[3])
            if h[1] == "U":
                cur = None
                chunks.append({"t": "raw", "data": [_LIT_BYTE(i * scale + j) for i in h[4] for j in range(scale)], "dict_reset": reset})
                if reset:
                    need_props = True
                after_raw = True
            else:
                nl += 1
                # control byte: 0xE0 dictionary reset, 0xC0 new properties (required after a dictionary reset by an
                # uncompressed chunk), 0xA0 state reset (required after an uncompressed chunk), else 0x80 / 0xA0 alternate
                cur = {"t": "lzma", "syms": [], "dict_reset": reset, "new_props": (not reset) and need_props,
                       "state_reset": after_raw or nl % 2 == 0}
                chunks.append(cur)
                if cur["dict_reset"] or cur["new_props"] or cur["state_reset"]:
                    reps = [0, 0, 0, 0]
                need_props, after_raw = False, False
    return reads, expect, script, chunks, bad


def parse_hist(line):
    """TLC prints <<"HIST", "<json text as a TLA+ string>">>."""
    m = re.match(r'^<<"HIST", (".*")>>$', line.strip())
    if not m:
        raise ToolError("unparsable HIST line: " + line[:200])
    return json.loads(json.loads(m.group(1)))


def lzdecoder_behaviours(ctx, consts, n, seed, depth=400, name=""):
    """Simulates LzDecoder.tla; returns the printed histories of complete behaviours."""
    c = dict(consts)
    c["KeepHist"] = "TRUE"
    d, mod, cfg = core.write_model("LzDecoder", c, invariants=("EmitHist",))
    r = core.run_tlc(mod, cfg, workers=1, timeout=600, cwd=d, simulate=n, depth=depth, seed=seed, coverage=False)
    if ctx is not None:
        ctx.note_tlc("simulate LzDecoder " + name, r)
    hs = []
    for l in r.out.splitlines():
        if l.startswith('<<"HIST"'):
            hs.append(parse_hist(l))
    return hs


def lzdecoder_replay(ctx, kind, consts, n_behaviours, seed, name="", sig_base=None, features=None, target=None, behaviours=None, scale=1):
    B = int(consts["B"])
    hs = behaviours if behaviours is not None else lzdecoder_behaviours(ctx, consts, n_behaviours, seed, name=name)
    if not hs:
        raise ToolError(f"LzDecoder simulation {name} produced no complete behaviour")
    jobs, meta = [], []
    seen = set()
    for i, beh in enumerate(hs):
        key = json.dumps(beh)
        if key in seen:
            continue
        seen.add(key)
        reads, expect, script, chunks, bad = behaviour_to_job(beh, kind, B, i, scale=scale)
        j = {"op": "forge", "id": f"{name}-{i}", "fmt": kind, "lc": 3, "lp": 0, "pb": 2, "dict": B * scale, "reads": reads, "cyclic": False}
        if kind == "lzma2":
            ended = any(h[0] == "end" for h in beh)
            j.update({"chunks": chunks, "terminate": ended})
        else:
            known = consts.get("SizeKnown") == "TRUE"
            total = sum(1 if s[0] == "lit" else s[2] for s in script if not (bad is not None and s is script[-1]))
            j.update({"script": script, "marker": any(h[0] == "marker" for h in beh), "size_known": known,
                      "size": [h for h in beh if h[0] == "total"][0][1] * scale if known else 0, "dict": 4096})
        jobs.append(j)
        meta.append((beh, expect, bad))
    res = run_sym_jobs(jobs, features=features, target=target)
    stats = {"behaviours": len(jobs), "calls": 0, "zero_reads": 0, "split_matches": 0, "wraps": 0, "bad_dist": 0,
             "forge_rejected": 0, "mismatch": 0, "events_runs": []}
    for j, (beh, expect, bad), r in zip(jobs, meta, res):
        sig = dict(sig_base or {}, check="lzdecoder_replay", kind=kind)
        replay = {"job": j, "behaviour": beh}
        if bad is None and (r.get("ref") != "ok" or not r.get("ref_equal")):
            # the reference decoder does not reproduce the forge's own expectation: a forge bug, not a crate bug
            stats["forge_rejected"] += 1
            raise ToolError(f"StreamForge disagrees with liblzma on {j['id']}: ref={r.get('ref')} {r.get('ref_msg')} equal={r.get('ref_equal')}")
        calls = r.get("calls", [])
        stats["calls"] += len(calls)
        stats["zero_reads"] += sum(1 for c in expect if c["k"] == 0)
        stats["bad_dist"] += 1 if bad is not None else 0
        if r.get("outcome") == "panic":
            ctx.violation(f"{name}: reader panicked on forged script {j['id']}", dict(sig, outcome="panic"), replay)
            stats["mismatch"] += 1
            continue
        ok = True
        why = ""
        for ci, e in enumerate(expect):
            if ci >= len(calls):
                ok, why = False, f"call {ci} missing"
                break
            c = calls[ci]
            if e["n"] == -1:
                if c["n"] != -1:
                    ok, why = False, f"call {ci}: specification predicts an error, reader returned {c['n']}"
                    break
            elif c["n"] != e["n"]:
                ok, why = False, f"call {ci} (size {e['k']}): specification predicts {e['n']} bytes, reader returned {c['n']} {c.get('kind','')}"
                break
        if ok and not r.get("prefix_ok", False):
            ok, why = False, "delivered bytes are not a prefix of the reference stream"
        if not ok:
            stats["mismatch"] += 1
            ctx.violation(f"{name}: strict replay of a TLC behaviour of LzDecoder diverges on the real {kind} reader: {why}",
                          dict(sig, outcome="replay_mismatch"), replay)
        if r.get("events") is not None:
            stats["events_runs"].append(r["events"])
            fl = [e for e in r["events"] if e.get("op") == "flush"]
            stats["split_matches"] += sum(1 for e in fl if e["plen"] > 0)
            stats["wraps"] += sum(1 for e in fl if e["pos"] == 0 and e["copied"] > 0)
    return stats


# --------------------------------------------------------------------------- LzDecoder trace validation
def lz_trace_lines(events):
    """Decoder symbol events + LzDecoder events of one decode -> lines for Trace_LzDecoder."""
    out = []
    for e in events:
        if e.get("side") == "D" and e["kind"] in (0, 1, 2, 3):
            out.append({"op": "sym", "lit": 1 if e["kind"] == 0 else 0, "len": e["len"], "dist": e["r"][0]})
        elif e.get("side") == "L":
            out.append(dict(e))
    return out


def validate_lzdecoder(ctx, runs, name=""):
    lines = []
    for ev in runs:
        ls = lz_trace_lines(ev)
        B = next((l["B"] for l in ls if "B" in l), None)
        if B is None:
            continue
        lines.append({"op": "new", "B": B})
        lines += ls
    if not lines:
        return {"accepted": True, "reached": 0, "total": 0, "runs": 0}
    ok, reached, total, r = core.validate_events("Trace_LzDecoder", {}, lines, invariants=("Track", "Ring"), timeout=900)
    if ctx is not None:
        ctx.note_tlc("trace LzDecoder " + name, r)
    res = {"accepted": ok, "reached": reached, "total": total, "tlc": r, "runs": len(runs), "events": len(lines)}
    if not ok:
        res["next_event"] = lines[reached] if reached is not None and reached < len(lines) else None
        res["violated"] = r.violated
        if r.violated and r.violated != "postcondition" and r.trace:
            res["state"] = r.trace[-1]["vars"]
            res["reached"] = len(r.trace) - 2
            res["next_event"] = lines[res["reached"]] if 0 <= res["reached"] < len(lines) else None
    return res


# --------------------------------------------------------------------------- range coder, real width
def rc_trace_lines(result):
    """Lines for Trace_RangeCoder from a `roundtrip` result of a .lzma job run with "bits": true, "emit_hex": true."""
    ev = result.get("events") or []
    enc = [e for e in ev if e.get("side") == "RE"]
    dec = [e for e in ev if e.get("side") == "RD"]
    if not enc or not dec or "hex" not in result:
        return None
    stream = bytes.fromhex(result["hex"])[13:]          # LZMA_Alone header: props, dict size, uncompressed size
    d = result.get("dec_counters", {})
    return ([{"side": "X"}] + enc + [{"side": "S", "bytes": list(stream)}] + dec +
            [{"side": "F", "pulled": d.get("dec_pulled_stream", -1)}])


def validate_rangecoder(ctx, results, name=""):
    """Real-width per-bit trace validation of encoder and decoder against RangeCoderLimb (Trace_RangeCoder.tla)."""
    lines = []
    runs = 0
    for r in results:
        ls = rc_trace_lines(r)
        if ls:
            lines += ls
            runs += 1
    if not lines:
        return {"accepted": True, "runs": 0, "events": 0}
    ok, reached, total, r = core.validate_events("Trace_RangeCoder", {"LB": "16", "ShiftBits": "8", "ModelBits": "11", "MoveBits": "5"},
                                                 lines, timeout=1500)
    if ctx is not None:
        ctx.note_tlc("trace RangeCoder " + name, r)
    res = {"accepted": ok, "reached": reached, "total": total, "runs": runs, "events": len(lines), "tlc": r}
    if not ok:
        res["next_event"] = lines[reached] if reached is not None and reached < len(lines) else None
    return res


# --------------------------------------------------------------------------- self test (used for mutation testing)
def selftest(n=12, seed=1):
    """Round trips with symbol events on the current (or VERIF_REPO) tree, validated by Trace_LzmaSymbols and
    Trace_LzDecoder, plus a strict LzDecoder replay. Prints a verdict per oracle; returns the number of rejections.
    Not a registered check: the properties that use these oracles (C01, C07, C16) call the functions above."""
    import random
    rnd = random.Random(seed)
    jobs = []
    for i in range(n):
        fmt = rnd.choice(["lzma", "lzma2"])
        jobs.append(roundtrip_job(f"t{i}", fmt, {"preset": rnd.choice([0, 1, 4, 6, 9]), "dict": 65536},
                                  {"class": rnd.choice(["text", "mixed", "periodic", "lowent", "repeat_far"]), "len": rnd.choice([500, 3000, 9000]),
                                   "seed": rnd.randrange(1 << 30)}, reads=rnd.choice([[4096], [1], [7, 0, 300]])))
    res = run_sym_jobs(jobs)
    bad = 0
    for j, r in zip(jobs, res):
        if r.get("enc") != "ok" or r.get("dec") != "ok" or not r.get("equal"):
            print(f"ROUNDTRIP-ORACLE fails on {j['id']}: enc={r.get('enc')} dec={r.get('dec')} equal={r.get('equal')} {r.get('kind','')} {r.get('msg','')}")
            bad += 1
        elif not rc_counters_equal(r):
            print(f"BYTE-ACCOUNTING fails on {j['id']}: {r.get('enc_counters')} {r.get('dec_counters')}")
            bad += 1
    runs = [r["events"] for r in res if r.get("events")]
    v = validate_symbols(None, runs, "selftest")
    print("SYMBOLS", "accepted" if v["accepted"] else f"REJECTED run {v['bad_run']} after event {v['reached']}/{v['total']}: "
          f"divergence={v['divergence']} conform_only={v['conform_only']} next={v.get('next_event')}")
    bad += 0 if v["accepted"] else 1
    lv = validate_lzdecoder(None, runs, "selftest")
    print("LZDECODER-TRACE", "accepted" if lv["accepted"] else f"REJECTED after event {lv['reached']}/{lv['total']}: {lv.get('next_event')} {lv.get('state')}")
    bad += 0 if lv["accepted"] else 1

    class Ctx:      # minimal stand-in collecting what lzdecoder_replay reports
        def __init__(self):
            self.v = []
        def violation(self, what, sig, replay):
            self.v.append(what)
            return True
        def note_tlc(self, *a):
            pass
    c = Ctx()
    for name, kind, extra, scale in (("lz2w", "lzma2", {"B": "16", "MaxStream": "44", "AllowBad": "TRUE"}, 256),
                                     ("lz2", "lzma2", {"B": "64", "MaxStream": "44", "AllowBad": "TRUE"}, 1),
                                     ("lz1m", "lzma", {"B": "64", "MaxStream": "40", "AllowBad": "FALSE"}, 1)):
        consts = {"Kind": f'"{kind}"', "ReadSizes": "{0,1,2,3,5,7,20,50}", "Lens": "{2,3,5,9,17,18}", "ChunkSizes": "{1,2,3,5,8,13,21}",
                  "SizeKnown": "FALSE", "KeepHist": "TRUE"}
        consts.update(extra)
        st = lzdecoder_replay(c, kind, consts, 60, seed + 5, name=name, scale=scale)
        st.pop("events_runs")
        print("LZDECODER-REPLAY", name, st)
    for w in c.v[:3]:
        print("REPLAY-MISMATCH", w[:300])
    bad += len(c.v)
    core.clean_work()
    return bad


if __name__ == "__main__":
    import sys
    try:
        sys.exit(1 if selftest() else 0)
    except ToolError as e:
        print("TOOL-ERROR:", str(e)[:2000])
        core.clean_work()
        sys.exit(2)
