"""C01: LZMA / LZMA2 compress-then-decompress returns exactly the input, neither side panics - including after
window moves and after position renormalisation.

Stage 1  TLC model-checks EncWindow (scaled constants, as-built variant) over all write / flush / finish schedules
         and symbol choices, and MatchFinderPos (scaled word) over all store / skip / ageing sequences.
         A counter-example of the as-built design is concretised into a real encoder history and only counts if
         the real code fails the round-trip oracle on it.
Stage 2  spec -> impl: API schedules of a transition tour of the EncWindow state graph, scaled to real sizes,
         are run against the real writers (plus regression probes: schedules of the regressed designs).
Stage 3  impl -> spec: every traced run (window events of hook H3) is validated by TLC against EncWindow
         instantiated with the real constants, renormalisation events against MatchFinderPos' Norm.
Oracle   decoded == written (prefix-checked on every read), no panic on either side."""
import json, os, random, time, collections
from concurrent.futures import ThreadPoolExecutor
from vlib import core
from vlib.core import log, ToolError
from checks import enccommon as E
from checks import encplans as P

MANIFEST = dict(
    level="exploration",
    technique="TLA+ specifications EncWindow (sliding window / look-ahead / LZMA2 chunk copy-back, transcribed from "
              "lz_encoder.rs, encoder.rs, lzma2_writer.rs, lzma_writer.rs) and MatchFinderPos (31-bit positions and "
              "renormalisation) model-checked with TLC over all call schedules and symbol choices within scaled constants; "
              "TLC counter-examples and transition-tour schedules replayed into the real writers; every traced run of the "
              "real code validated by TLC against the same specifications instantiated with the real constants (hook H3); "
              "round-trip oracle on an option x input-class grid driven by the harness",
    text="Within the explored option vectors, input classes and call histories the LZMA and LZMA2 writers' output decodes "
         "to exactly the written bytes and neither side panics, including after window moves, after uncompressed-chunk "
         "fallbacks, across independent chunks, with preset dictionaries and after (bias-induced) position "
         "renormalisation; the window indices of every traced run are the ones the specification computes.",
    ref="DESIGN.md sections 4.3, 4.4, 6/C01; notes/groupC1.md",
    note="Exploration, not proof: byte-exact fidelity is decided only on the explored inputs. Renormalisation is reached "
         "through the lz_pos bias hook (equivalent to 2 GiB of earlier input whose entries left the dictionary), not by "
         "2 GiB of real input. The scalar renormalisation path is only reached in a build without the `optimization` "
         "feature (second harness build). Per-symbol encoder/decoder agreement is delegated to symlib (group C2) when present.",
    ready=True,
)


def run(tier, replay=None):
    ctx = core.Check("C01", tier, "exploration")
    core.build_harness()
    if replay:
        return P.run_replay(ctx, replay, {"C01"})
    P.run_plan(ctx, "C01", tier)
