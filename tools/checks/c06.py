"""C06: decoders stay total on untrusted bytes: no panic, abort, stack overflow, hang or allocation blow-up.

Pipeline (DESIGN.md 2.1, 6/C06):
 1. TLC on spec/HostileFields.tla enumerates the adversarial field classes of every reader half (pairwise per
    family) with the expected result class (Err / Ok, never Panic) and the allocation bound.
 2. bforge.py forges every case into bytes (CRCs recomputed so the damage reaches deep parsing); every decoder
    runs them under catch_unwind on a 2 MiB thread inside a child process (an abort / stack overflow kills only
    that process and becomes the case's outcome), with a counting global allocator.
 3. TLC (Trace_HostileFields.tla) judges every observed outcome: returned Ok/Err (else VIOLATION), allocation
    within declared dictionary + c*|input| (else VIOLATION), outcome as the reader half expects (else DRIFT).
 4. Outside TLC: seeded structure-aware mutation of valid streams (container CRCs recomputed), truncations and
    pure random bytes through every decoder, same oracle.
"""
import json, os, random, struct, collections, math
from concurrent.futures import ThreadPoolExecutor
from vlib import core
from vlib.core import log, ToolError
from checks import blib as B, bforge as F

MANIFEST = dict(
    level="exploration",
    technique="TLA+ spec HostileFields (reader halves over adversarial field classes with expected result class and allocation "
              "bound) enumerated by TLC; every abstract hostile file is forged into bytes and fed to the real decoders in "
              "contained child processes with a counting allocator; TLC (Trace_HostileFields) judges the observed outcomes; "
              "seeded structure-aware mutation and random bytes on top",
    text="TLC enumerates, pairwise per family, the extreme classes of every attacker-controlled field (XZ index record count and "
         "its encoding, block header size / filter chain / dictionary property 0..41 / size fields / property sizes, LZMA2 "
         "control bytes, chunk sizes, props and dictionary parameter, .lzma header props / dictionary / declared size / memory "
         "limit, LZIP version / dictionary byte / member_size / data_size, thousands of empty members / blocks / streams / tiny "
         "chunks, filter parameters, match distances beyond the dictionary fill) with the result class the reader half must end "
         "in. Each case is forged and read by LZMAReader, LZMA2Reader, LZMA2ReaderMT, XZReader, LZIPReader, LZIPReaderMT, "
         "BCJReader, DeltaReader, BCJ2Reader; a case fails on a panic, an abort (capacity overflow, failed huge allocation, "
         "stack overflow: the child process dies and that is recorded), a structural spin, or a peak heap above the declared "
         "dictionary + 16 x input + fixed working memory. ~4 000 seeded mutants (CRCs recomputed), truncations and random byte "
         "strings go through the same decoders and oracle.",
    ref="5.2, 5.4, 6/C06",
    note="Exploration with a structured generator, not a proof of totality. Allocation is what the Rust allocator API sees "
         "(requests above 8 GiB are refused by the harness allocator so that an attempted huge allocation shows as an abort); "
         "the MT readers keep whole decoded units, their bound also grows with the output. Time-outs are infrastructure errors, "
         "never verdicts; hangs of MT readers after a worker panic are reported as the panic.",
    ready=True)

ALLOC_CAP = 8 << 30


# --------------------------------------------------------------------------------------------- tiny LZMA range encoder
class Rc:
    """bit-exact LZMA range encoder (enough of it to script the first symbols of a stream)"""

    def __init__(self):
        self.low, self.range, self.cache, self.cache_size, self.out = 0, 0xFFFFFFFF, 0, 1, bytearray()

    def shift_low(self):
        if self.low < 0xFF000000 or self.low >= (1 << 32):
            carry = self.low >> 32
            t = self.cache
            while True:
                self.out.append((t + carry) & 0xFF)
                t = 0xFF
                self.cache_size -= 1
                if self.cache_size == 0:
                    break
            self.cache = (self.low >> 24) & 0xFF
        self.cache_size += 1
        self.low = (self.low & 0x00FFFFFF) << 8

    def bit(self, probs, idx, b):
        p = probs[idx]
        bound = (self.range >> 11) * p
        if b == 0:
            self.range = bound
            probs[idx] = p + ((2048 - p) >> 5)
        else:
            self.low += bound
            self.range -= bound
            probs[idx] = p - (p >> 5)
        while self.range < (1 << 24):
            self.range = (self.range << 8) & 0xFFFFFFFF
            self.shift_low()

    def tree(self, probs, nbits, sym):
        m = 1
        for i in range(nbits - 1, -1, -1):
            b = (sym >> i) & 1
            self.bit(probs, m, b)
            m = (m << 1) | b

    def finish(self):
        for _ in range(5):
            self.shift_low()
        return bytes(self.out)


def lzma_script(kind):
    """raw LZMA stream (lc3 lp0 pb2) whose first symbols reference data in front of the dictionary fill"""
    rc = Rc()
    P = lambda n: [1024] * n
    is_match, is_rep, is_rep0 = P(12 * 16), P(12), P(12)
    lit = P(0x300)
    len_choice, len_low = P(2), [P(8) for _ in range(16)]
    slots = [P(64) for _ in range(4)]
    state = 0
    if kind == "lit_then_far_match":
        rc.bit(is_match, state * 16 + 0, 0)
        rc.tree(lit, 8, 0x41)
        state = 0
        pos_state = 1
    else:
        pos_state = 0
    rc.bit(is_match, state * 16 + pos_state, 1)
    if kind == "rep_at_0":
        rc.bit(is_rep, state, 1)
        rc.bit(is_rep0, state, 0)
        # is_rep0_long = 1 -> long rep with rep0 = 0 although nothing was decoded yet
        rc.bit(P(12 * 16), state * 16 + pos_state, 1)
        rc.bit(len_choice, 0, 0)
        rc.tree(len_low[pos_state], 3, 0)
    else:
        rc.bit(is_rep, state, 0)
        rc.bit(len_choice, 0, 0)
        rc.tree(len_low[pos_state], 3, 0)        # len 2
        rc.tree(slots[0], 6, 3)                  # dist slot 3 -> distance 3 >= fill
    return rc.finish()


# --------------------------------------------------------------------------------------------- forging the TLC cases
VAL = {"2p32": 1 << 32, "2p63m1": (1 << 63) - 1, "2p63": 1 << 63}
CONTENT = F.gen_data("text", 1500, 7)
RAW1 = None


def enc_vli(v, enc):
    m = F.vli(v)
    if enc == "min":
        return m
    if enc == "overlong":
        return F.vli(v, len(m) + 1) if len(m) < 9 else m[:-1] + bytes([m[-1] | 0x80]) + b"\0"
    if enc == "too_long":
        return bytes([0x80 | (v & 0x7F)]) + b"\x80" * 10 + b"\x01"      # 12 bytes: the shift count itself leaves 64 bits
    return m[:-1] + bytes([m[-1] | 0x80])          # "cut": continuation bit on the last byte, nothing follows


def forge_xz_index(c):
    n = int(c["f3"])
    contents = [F.gen_data("text", 300 + 50 * i, i) for i in range(n)]
    recs = [F.sh("crc32")]
    for i, d in enumerate(contents):
        recs += F.xz_block(d, "crc32", 4096, bno=i)
    real = F.xz_index_records(recs)
    v = {"blocks": n, "zero": 0, "blocks_plus_1": n + 1}.get(c["f1"], VAL.get(c["f1"]))
    cb = enc_vli(v, c["f2"])
    if c["f2"] == "cut":
        return F.assemble(recs) + b"\0" + cb, [{"kind": "xz"}]
    ix = F.index(real, count_bytes=cb)
    recs += [ix, F.footer(len(ix.raw), "crc32")]
    return F.assemble(recs), [{"kind": "xz"}]


def forge_xz_bh(c):
    chain = c["f2"]
    pre = {"lzma2": (), "delta_lzma2": (("delta", 1),), "x86_lzma2": (("x86", 0),), "four": (("delta", 1), ("x86", 0), ("delta", 2)),
           "lzma2_not_last": (), "unknown_id": (), "bcj_bad_offset": ()}[chain]
    payload = F.lzma2_raw(CONTENT, 4096, pre)
    prop = int(c["f3"])
    lz = ("lzma2", bytes([prop]))
    if c["f5"] == "big":
        lzf = F.vli(0x21) + enc_vli((1 << 63) - 1, "min") + bytes([prop])
    elif c["f5"] == "missing":
        lzf = F.vli(0x21)
    else:
        lzf = None
    filters = []
    for (name, p) in pre:
        filters.append(("delta", bytes([p - 1])) if name == "delta" else (name, b""))
    if chain == "lzma2_not_last":
        filters = [lz, ("delta", b"\0")]
    elif chain == "unknown_id":
        filters = [(0x22, bytes([prop]))]
    elif chain == "bcj_bad_offset":
        filters = [("arm", struct.pack("<I", 2)), lz]
    else:
        filters.append(lz)
    nf = len(filters)
    kw = {}
    s = c["f4"]
    if s == "right":
        kw = dict(csize=len(payload), usize=len(CONTENT))
    elif s == "zero":
        kw = dict(csize=0, usize=0)
    elif s == "max63":
        kw = dict(csize=(1 << 63) - 1, usize=(1 << 63) - 1)
    elif s == "overlong":
        kw = dict(csize_bytes=enc_vli(len(payload), "overlong"), usize_bytes=enc_vli(len(CONTENT), "overlong"))
    elif s == "too_long":
        kw = dict(csize_bytes=enc_vli(len(payload), "too_long"), usize_bytes=enc_vli(len(CONTENT), "min"))
    body = None
    if lzf is not None:
        flags = (nf - 1) | (0x40 if ("csize" in kw or "csize_bytes" in kw) else 0) | (0x80 if ("usize" in kw or "usize_bytes" in kw) else 0)
        body = bytes([flags]) + kw.get("csize_bytes", F.vli(kw["csize"]) if "csize" in kw else b"") + \
            kw.get("usize_bytes", F.vli(kw["usize"]) if "usize" in kw else b"") + F.filter_flags(filters[:-1]) + lzf
        h = F.bh(filters, body=body)
    else:
        h = F.bh(filters, **kw)
    raw = h.raw
    if c["f1"] == "padded_max":
        inner = raw[1:-4]
        pre_ = bytes([0xFF]) + inner + b"\0" * (1020 - 1 - len(inner))
        raw = pre_ + F.crc32(pre_)
    elif c["f1"] == "declared_min":
        pre_ = bytes([1]) + raw[1:4]
        raw = pre_ + F.crc32(pre_) + raw[4:]
    elif c["f1"] == "too_small":
        sb = max(1, raw[0] - 1)
        ext = (sb + 1) * 4
        pre_ = bytes([sb]) + raw[1:ext - 4]
        raw = pre_ + F.crc32(pre_) + raw[ext - 4:]
    hrec = F.Rec("BH", raw)
    pad = b"\0" * ((4 - len(payload) % 4) % 4)
    recs = [F.sh("crc32"), hrec, F.Rec("DATA", payload, usize=len(CONTENT)), F.Rec("PAD", pad), F.Rec("CHECK", F.check_bytes("crc32", CONTENT))]
    ix = F.index(F.xz_index_records(recs))
    recs += [ix, F.footer(len(ix.raw), "crc32")]
    return F.assemble(recs), [{"kind": "xz"}]


def forge_lzma2(c):
    base = F.lzma2_raw(CONTENT, 4096)
    (a, b, ctrl) = F.lzma2_chunks(base)[0]
    chunk = base[a:b]
    props, payload = chunk[5], chunk[6:]
    usz, csz = chunk[1:3], chunk[3:5]
    f1 = int(c["f1"], 16)
    pb = {"5d": 0x5D, "e0": 224, "e1": 225, "ff": 255, "lclp5": 0x2C}.get(c["f3"], props)   # 0x2c = lc 8? (44 = pb0 lp4 lc8)
    if c["f2"] == "max":
        usz, csz = b"\xff\xff", b"\xff\xff"
    elif c["f2"] == "csize_lt5":
        csz = b"\x00\x03"
    if c["f4"] == "zeros":
        payload = b"\0" * len(payload)
    elif c["f4"] == "ff":
        payload = b"\0" + b"\xff" * (len(payload) - 1)
    elif c["f4"] == "cut":
        payload = payload[:len(payload) // 2]
    if f1 == 0:
        out = b"\0"
    elif f1 in (1, 2):
        raw = CONTENT[:600] if c["f4"] != "cut" else CONTENT[:300]
        out = bytes([f1]) + struct.pack(">H", 599) + raw + (b"\0" if c["f4"] != "cut" else b"")
    elif f1 < 0x80:
        out = bytes([f1]) + usz + csz + payload
    else:
        out = bytes([f1]) + usz + csz + (bytes([pb]) if f1 >= 0xC0 else b"") + payload + (b"\0" if c["f4"] != "cut" else b"")
    d = {"4096": 4096, "64k": 65536, "2p32m1": 0xFFFFFFFF, "0": 0, "1": 1}[c["f5"]]
    return out, [{"kind": "lzma2", "dict": d}, {"kind": "lzma2_mt", "dict": d, "workers": 2}]


def forge_lzma(c):
    global RAW1
    if RAW1 is None:
        RAW1 = F.lzma1_raw(CONTENT, 4096)
    props = {"5d": 0x5D, "00": 0, "e0": 224, "e1": 225, "ff": 255}[c["f1"]]
    d = {"4096": 4096, "0": 0, "1": 1, "2p32m1": 0xFFFFFFFF, "2p32m16": 0xFFFFFFF0}[c["f2"]]
    us = {"exact": len(CONTENT), "0": 0, "1": 1, "plus1": len(CONTENT) + 1, "2p63": 1 << 63, "unknown": (1 << 64) - 1}[c["f3"]]
    body = {"valid": RAW1, "zeros": b"\0" * 64, "ff": b"\0" + b"\xff" * 64, "empty": b"", "first_nonzero": b"\x01" + RAW1[1:]}[c["f4"]]
    dec = {"kind": "lzma"}
    if c["f5"] == "64m":
        dec["mem_limit_kb"] = 65536
    return bytes([props]) + struct.pack("<I", d) + struct.pack("<Q", us) + body, [dec]


def forge_lzip(c):
    kw = {"version": int(c["f1"]), "dict_byte": int(c["f2"], 16)}
    body = F.lzma1_raw(CONTENT, 4096)
    total = 6 + len(body) + 20
    ms = {"right": total, "zero": 0, "one": 1, "plus1": total + 1, "2p63": 1 << 63, "file_plus": total + 100}[c["f3"]]
    ds = len(CONTENT) if c["f4"] == "right" else 1 << 63
    recs = F.lz_member(CONTENT, 4096, body=body, msize=ms, dsize=ds, **kw)
    return F.assemble(recs), [{"kind": "lzip"} if c["f5"] == "st" else {"kind": "lzip_mt", "workers": 2}]


def forge_many(c):
    n = int(c["f2"])
    mt = c["f5"] == "mt"
    w = c["f1"]
    if w in ("lzip_empty_members", "lzip_tiny_members"):
        m = F.assemble(F.lz_member(b"" if w == "lzip_empty_members" else b"x", 4096))
        return m * n, [{"kind": "lzip_mt", "workers": 2} if mt else {"kind": "lzip"}]
    if w == "xz_empty_blocks":
        blk = F.xz_block(b"", "crc32", 4096, payload=b"\0")
        one = F.assemble(blk)
        recs = [F.sh("crc32")]
        ix = F.index([(len(blk[0].raw) + 1 + 4, 0)] * n)
        data = F.assemble(recs) + one * n + ix.raw + F.footer(len(ix.raw), "crc32").raw
        return data, [{"kind": "xz", "multi": mt}]
    if w == "xz_empty_streams":
        return F.assemble(F.xz_stream([], "crc32")) * n, [{"kind": "xz", "multi": True}]
    # lzma2_tiny_chunks
    out = bytearray()
    for i in range(n):
        out += bytes([1 if i == 0 else 2, 0, 0, 0x41 + i % 26])
    out.append(0)
    return bytes(out), [{"kind": "lzma2_mt", "dict": 4096, "workers": 2} if mt else {"kind": "lzma2", "dict": 4096}]


def data_class(cls, n, seed):
    if cls == "zeros":
        return b"\0" * n
    if cls == "ff":
        return b"\xff" * n
    if cls == "opcodes":
        return F.gen_data("x86", n, seed)
    return F.gen_data("random", n, seed)


def forge_filter(c):
    # "max": the largest value a container can hand over (XZ start offsets and 7z sizes are 32-bit / 64-bit fields; the
    # BCJ start offset of an XZ block header is a u32)
    p = {"0": 0, "1": 1, "256": 256, "257": 257, "max": (1 << 32) - 1}[c["f2"]]
    d = data_class(c["f3"], 5000, 3)
    f = c["f1"]
    if f == "delta":
        return d, [{"kind": "delta", "distance": p}]
    if f == "bcj2":
        return d, [{"kind": "bcj2", "bcj2_size": p, "_inputs": [data_class(c["f3"], 400, 4), data_class(c["f3"], 400, 5), data_class("random", 300, 6)]}]
    return d, [{"kind": "bcj", "arch": f, "start_pos": p}]


def forge_dist(c):
    return lzma_script(c["f1"]), [{"kind": "lzma_raw", "props": 0x5D, "dict": 4096}, {"kind": "lzma_raw", "props": 0x5D, "dict": 4096, "usize": 100}]


def forge_lzma2_seq(c):
    base = F.lzma2_raw(CONTENT, 4096)
    (a, b, ctrl) = F.lzma2_chunks(base)[0]
    chunk = base[a:b]
    props, payload = chunk[5], chunk[6:]
    usz, csz = chunk[1:3], chunk[3:5]
    first = chunk if c["f1"] == "e0" else bytes([1]) + struct.pack(">H", 599) + CONTENT[:600]
    if c["f3"] == "zeros":
        payload = b"\0" * len(payload)
    elif c["f3"] == "ff":
        payload = b"\0" + b"\xff" * (len(payload) - 1)
    f2 = c["f2"]
    if f2 == "none":
        second = b""
    elif f2 == "00":
        second = b"\0"
    elif f2 in ("01", "02"):
        second = bytes([int(f2)]) + struct.pack(">H", 99) + CONTENT[600:700] + b"\0"
    elif f2 == "03":
        second = b"\x03" + payload
    else:
        k = int(f2, 16)
        second = bytes([k]) + usz + csz + (bytes([props]) if k >= 0xC0 else b"") + payload + b"\0"
    d = {"4096": 4096, "64k": 65536}[c["f5"]]
    return first + second, [{"kind": "lzma2", "dict": d}, {"kind": "lzma2_mt", "dict": d, "workers": 2}]


def forge_lzip_multi(c):
    n = int(c["f3"])
    members = [F.lz_member(F.gen_data("text", 400 + 37 * i, i), 4096, mno=i) for i in range(n)]
    k = 0 if c["f1"] == "first" else n - 1
    total = sum(len(r.raw) for m in members for r in m)
    mlen = sum(len(r.raw) for r in members[k])
    ms = {"zero": 0, "one": 1, "plus1": mlen + 1, "minus1": mlen - 1, "2p63": 1 << 63, "file_plus": total + 100}[c["f2"]]
    t = members[k][2]
    members[k][2] = F.Rec("LTRL", t.raw[:12] + struct.pack("<Q", ms))
    return b"".join(F.assemble(m) for m in members), [{"kind": "lzip"} if c["f5"] == "st" else {"kind": "lzip_mt", "workers": 2}]


FORGE = {"lzma2_seq": forge_lzma2_seq, "lzip_multi": forge_lzip_multi, "xz_index": forge_xz_index, "xz_bh": forge_xz_bh, "lzma2": forge_lzma2, "lzma": forge_lzma, "lzip": forge_lzip, "many": forge_many,
         "filter": forge_filter, "dist": forge_dist}


# --------------------------------------------------------------------------------------------- oracle (python twin of AllocKiB)
def kib(n):
    return max(1, (n + 1023) // 1024)


def judge_free(dec, in_len, r, dict_bytes):
    """oracle for the byte-level cases: (what, outcome) or None"""
    o = r["o"]
    if o not in ("ok", "err", "intr_stuck"):
        after = f" on a read() call AFTER the reader had returned Err({r['after_err']})" if r.get("after_err") else ""
        return (f"{o}{after}: {r.get('m', '')}", o)
    mt = dec["kind"].endswith("_mt")
    bound = (kib(dict_bytes) * (2 if mt else 1) + (20480 if mt else 10240) + 16 * kib(in_len) + (3 * kib(r.get("n", 0)) if mt else 0)) * 1024
    if r.get("peak", 0) > bound:
        return (f"peak heap {r['peak']} bytes exceeds declared dictionary {dict_bytes} + 16 x input {in_len} + fixed ({bound})", "alloc")
    return None


def run(tier, replay=None):
    ctx = core.Check("C06", tier, "exploration")
    B.bindir()
    if replay:
        return run_replay(ctx, replay)
    quick = tier == "quick"
    rnd = random.Random(ctx.seed)

    # ---------------- stage 1: TLC enumerates the adversarial field classes
    consts = {"Families": '{"xz_index","xz_bh","lzma2","lzma","lzip","many","filter","dist","lzma2_seq","lzip_multi"}', "MaxDeviations": "2" if quick else "3"}
    r, cases = B.tlc_export(ctx, "HostileFields", consts, "HostileFields", invariants=("NeverPanic", "BoundFinite", "Export"), timeout=1800)
    if not r.ok:
        raise ToolError(f"HostileFields: {r.violated}")
    ctx.require_coverage(r, ["Classify"], "HostileFields")
    fams = collections.Counter(c["fam"] for c in cases)
    if len(fams) < 10 or len(cases) < 1000:
        raise ToolError(f"HostileFields export incomplete: {dict(fams)}")
    ctx.cov["abstract_cases"] = dict(fams)

    # ---------------- stage 2: forge and run
    jobs, meta = [], []
    for c in cases:
        data, decs = FORGE[c["fam"]](c)
        for dec in decs:
            dec = dict(dec)
            extra = dec.pop("_inputs", None)
            j = dict(op="decode", id=f"{c['fam']}/{len(jobs)}", input=B.hexs(data), dec=dec, bufs=[4096, 1000], out_limit=1 << 28,
                     alloc_cap=ALLOC_CAP, stack_kb=2048, timeout_s=300, probe=True)
            if extra:
                j["inputs"] = [B.hexs(x) for x in extra]
            jobs.append(j)
            meta.append((c, dec, len(data)))
    log(f"[impl] {len(jobs)} forged cases")
    # the big-dictionary and many-unit cases are few; small batches keep one abort from delaying many others
    results = B.run_jobs(jobs, per_batch=40, timeout=2400)
    B.timeouts_to_toolerror(results)

    # ---------------- stage 3: TLC judges
    events = []
    for (c, dec, inlen), rr in zip(meta, results):
        obs = rr["o"] if rr["o"] != "intr_stuck" else "err"
        events.append({"fam": c["fam"], "f1": c["f1"], "f2": c["f2"], "f3": c["f3"], "f4": c["f4"], "f5": c["f5"],
                       "mt": dec["kind"].endswith("_mt"), "obs": obs, "alloc_kib": kib(rr.get("peak", 0)), "in_kib": kib(inlen), "out_kib": kib(rr.get("n", 0))})
    d, mod, cfg = core.write_model("Trace_HostileFields", consts, spec="TSpec", invariants=("Track", "Judge"), postcondition="Accepted")
    tp = os.path.join(d, "trace.ndjson")
    # binding demonstration: three synthetic observations the trace spec must judge bad (panic; 1 GiB for a 64 KiB case; an
    # invalid dictionary property accepted) -- otherwise the judge does not discriminate
    demo = [dict(events[0], obs="panic"), dict(events[0], alloc_kib=1 << 20),
            {"fam": "xz_bh", "f1": "exact", "f2": "lzma2", "f3": "41", "f4": "absent", "f5": "ok", "mt": False, "obs": "ok", "alloc_kib": 1, "in_kib": 1, "out_kib": 1}]
    with open(tp, "w") as f:
        for e in events + demo:
            f.write(json.dumps(e) + "\n")
    ok, reached, total, tr = core.validate_trace(mod, cfg, tp, cwd=d, timeout=1800)
    ctx.note_tlc("trace HostileFields", tr)
    verdicts = {}
    for line in tr.printed:
        if line.startswith('"'):
            try:
                s = json.loads(line)
                if isinstance(s, str) and s.startswith("{"):
                    v = json.loads(s)
                    verdicts[v["l"]] = v
            except ValueError:
                pass
    if not ok or len(verdicts) != len(events) + 3:
        raise ToolError(f"Trace_HostileFields: {len(verdicts)} verdicts for {len(events) + 3} events ({tr.violated})")
    n = len(events)
    if verdicts[n + 1]["total"] or verdicts[n + 2]["alloc"] or verdicts[n + 3]["pred"]:
        raise ToolError("Trace_HostileFields: a synthetic bad observation was not rejected (the judge does not discriminate)")
    ctx.add("binding_demonstrations_rejected", 3)
    classes = set()
    for li, ((c, dec, inlen), rr, e) in enumerate(zip(meta, results, events), start=1):
        v = verdicts[li]
        classes.add((c["fam"], dec["kind"], c["f1"], c["f2"] if c["fam"] in ("xz_index", "many", "filter") else "", e["obs"]))
        label = f"{dec['kind']} on {c['fam']}({c['f1']},{c['f2']},{c['f3']},{c['f4']},{c['f5']})"
        rp = {"input": jobs[li - 1]["input"], "inputs": jobs[li - 1].get("inputs", []), "dec": dec, "case": c}
        if not v["total"]:
            after = f" on a read() call AFTER the reader had returned Err({rr['after_err']})" if rr.get("after_err") else ""
            ctx.violation(f"{label}: {e['obs']}{after}: {rr.get('m', '')} (signal {rr.get('sig')})" if e["obs"] == "abort" else f"{label}: {e['obs']}{after}: {rr.get('m', '')}",
                          {"family": c["fam"], "dec": dec["kind"], "f1": c["f1"], "outcome": e["obs"],
                           "site": site_of(rr.get("m", "")), "after_err": bool(rr.get("after_err"))}, rp)
        elif not v["alloc"]:
            ctx.violation(f"{label}: peak heap {rr.get('peak')} bytes exceeds the bound of {v['bound']} KiB (declared dictionary + 16 x input + fixed)",
                          {"family": c["fam"], "dec": dec["kind"], "f1": c["f1"], "outcome": "alloc"}, rp)
        elif not v["pred"]:
            ctx.note_drift(f"{label}: reader half expects {v['expected']}, decoder gave {e['obs']} ({rr.get('k', '')} {rr.get('m', '')})")
        if rr.get("worker_panic"):
            ctx.violation(f"{label}: a worker thread panicked: {rr['worker_panic']}",
                          {"family": c["fam"], "dec": dec["kind"], "f1": c["f1"], "outcome": "panic", "site": site_of(rr["worker_panic"])}, rp)
    ctx.cov["traces_validated_against_impl"] = len(events)
    ctx.cov["forged_outcomes"] = dict(collections.Counter(e["obs"] for e in events))

    # ---------------- stage 4: structure-aware mutation, truncation, random bytes
    mjobs, mmeta, defs = mutation_jobs(rnd, 4000 if quick else 200000)
    log(f"[impl] {len(mjobs)} mutated / random inputs")
    mres = B.run_jobs(mjobs, defs, timeout=3000)
    B.timeouts_to_toolerror(mres)
    mcount = collections.Counter()
    for j, (name, dec, dict_bytes, kind, inlen), rr in zip(mjobs, mmeta, mres):
        mcount[(dec["kind"], kind, rr["o"])] += 1
        classes.add(("mut", dec["kind"], name, kind, rr["o"]))
        res = judge_free(dec, inlen, rr, dict_bytes)
        if res and res[1] == "alloc" and name in DICT_SITES and kind != "random":
            # the mutation may have hit a dictionary-size field: what counts is what the MUTANT declares
            again = B.run_jobs([dict(j, keep_input=True)], defs)[0]
            mutated = bytes.fromhex(again.get("input", ""))
            res = judge_free(dec, inlen, again, max(dict_bytes, declared_dict(name, mutated)))
            ctx.add("alloc_rechecks")
            rr = again
        if res:
            what, oc = res
            ctx.violation(f"{dec['kind']} on {name} ({kind}): {what}",
                          {"family": "mutation", "dec": dec["kind"], "outcome": oc, "site": site_of(rr.get("m", "")),
                           "after_err": bool(rr.get("after_err"))},
                          {"input": rr.get("input"), "inputs": j.get("inputs", []), "dec": dec, "base": name, "mutn": j.get("mutn"), "bufs": j["bufs"]})
        if rr.get("worker_panic"):
            ctx.violation(f"{dec['kind']} on {name} ({kind}): a worker thread panicked: {rr['worker_panic']}",
                          {"family": "mutation", "dec": dec["kind"], "outcome": "panic", "site": site_of(rr["worker_panic"])},
                          {"input": rr.get("input"), "inputs": j.get("inputs", []), "dec": dec, "base": name, "mutn": j.get("mutn")})
    ctx.cov["mutation_outcomes"] = {f"{a}:{b}:{c}": n for (a, b, c), n in sorted(mcount.items())}

    ctx.cov["evaluations"] = len(jobs) + len(mjobs)
    ctx.cov["distinct_nontrivial"] = len(classes)
    ctx.cov["rule"] = ("one evaluation = one byte string read to the end by one real decoder in a contained process; distinct = "
                       "(family, decoder, leading field classes, outcome) for the TLC cases and (decoder, base stream, mutation kind, "
                       "outcome) for the mutated / random inputs")
    for j, (c, dec, n) in list(zip(jobs, meta))[:3]:
        ctx.sample({"case": {k: c[k] for k in ("fam", "f1", "f2", "f3", "f4", "f5", "expected")}, "dec": dec, "bytes": n})
    ctx.sample({k: v for k, v in mjobs[0].items() if k in ("id", "dec", "mutn")})
    deep = sum(n for (d_, k, o), n in mcount.items() if o == "ok")
    if deep < 20 or sum(1 for e in events if e["obs"] == "err") < 300 or sum(1 for e in events if e["obs"] == "ok") < 100:
        raise ToolError("vacuous run: the forged / mutated inputs do not reach both result classes")
    ctx.assumptions += [
        "allocation = bytes requested through the Rust global allocator (peak over the case), not RSS",
        "harness allocator refuses single requests above 8 GiB: an attempted huge allocation shows as an abort of the child process",
        "case thread stack 2 MiB (the default of std::thread); recursion depth findings are relative to it",
        "MT readers run on real threads; only results, panics and allocation are judged",
    ]
    ctx.finish()


DICT_SITES = {}


def _vli_at(b, i):
    v, sh = 0, 0
    while i < len(b) and sh < 63:
        v |= (b[i] & 0x7F) << sh
        sh += 7
        i += 1
        if not b[i - 1] & 0x80:
            return v, i
    raise ValueError


def declared_dict(name, mutated):
    """largest dictionary the (length-preserving) mutant of base `name` declares at the places where the base declares one"""
    kind, sites = DICT_SITES.get(name, (None, []))
    best = 0
    for off in sites:
        try:
            if kind == "lzma":
                best = max(best, struct.unpack("<I", mutated[1:5])[0])
            elif kind == "lzip":
                n, fr = mutated[off + 5] & 0x1F, mutated[off + 5] >> 5
                if 12 <= n <= 29:
                    best = max(best, (1 << n) - (1 << n >> 4) * fr)
            elif kind == "xz":
                flags = mutated[off + 1]
                i = off + 2
                if flags & 0x40:
                    _, i = _vli_at(mutated, i)
                if flags & 0x80:
                    _, i = _vli_at(mutated, i)
                for _ in range((flags & 3) + 1):
                    fid, i = _vli_at(mutated, i)
                    ps, i = _vli_at(mutated, i)
                    if fid == 0x21 and ps == 1 and mutated[i] <= 40:
                        best = max(best, F.prop_dict(mutated[i]))
                    i += ps
        except (ValueError, IndexError, struct.error):
            pass
    return best


def site_of(msg):
    """source location of a panic message ('... at src/xz/reader.rs:27') reduced to the file"""
    import re
    m = re.search(r"(src/[\w/]+\.rs)", msg or "")
    if m:
        return m.group(1)
    if "overflowed its stack" in (msg or ""):
        return "stack"
    return ""


def mutation_jobs(rnd, total):
    t1 = F.gen_data("text", 4000, 21)
    m1 = F.gen_data("mixed", 6000, 22)
    x1 = F.gen_data("x86", 5000, 23)
    bases = []

    def xz_fix(recs):
        fixes, within = [], []
        for (k, a, b_, info) in F.layout(recs):
            if k == "SH":
                fixes.append({"at": a + 8, "from": a + 6, "to": a + 8})
            elif k in ("BH", "INDEX"):
                fixes.append({"at": b_ - 4, "from": a, "to": b_ - 4})
                within.append((a, b_ - 4))
            elif k == "FOOTER":
                fixes.append({"at": a, "from": a + 4, "to": a + 10})
                within.append((a + 4, a + 10))
            elif k == "DATA":
                within.append((a, min(b_, a + 64)))
        return fixes, within

    xr = F.xz_stream([t1, m1[:2000]], "crc32", 4096, with_sizes=True)
    f, w = xz_fix(xr)
    bases.append(("xz_2blocks", F.assemble(xr), {"kind": "xz"}, 4096, f, w))
    xr2 = F.xz_stream([x1], "crc64", 1 << 16, pre=(("delta", 3), ("x86", 0)))
    f, w = xz_fix(xr2)
    bases.append(("xz_delta_x86", F.assemble(xr2), {"kind": "xz", "multi": True}, 1 << 16, f, w))
    lz = F.lz_file([t1[:1500], m1[:1500]], 4096)
    bases.append(("lzip_2", F.assemble(lz), {"kind": "lzip"}, 512 << 20, [], []))
    bases.append(("lzip_2_mt", F.assemble(lz), {"kind": "lzip_mt", "workers": 2}, 512 << 20, [], []))
    bases.append(("lzma_alone", F.assemble(F.lzma_alone(t1, 4096, known_size=True)), {"kind": "lzma", "mem_limit_kb": 1 << 20}, 1 << 30, [], []))
    bases.append(("lzma_raw", F.lzma1_raw(m1, 4096), {"kind": "lzma_raw", "props": 0x5D, "dict": 4096}, 4096, [], []))
    l2 = F.lzma2_raw(m1 + F.gen_data("random", 800, 3), 4096)
    bases.append(("lzma2", l2, {"kind": "lzma2", "dict": 4096}, 4096, [], []))
    bases.append(("lzma2_mt", l2, {"kind": "lzma2_mt", "dict": 4096, "workers": 2}, 4096, [], []))
    bases.append(("bcj_x86", x1, {"kind": "bcj", "arch": "x86"}, 0, [], []))
    bases.append(("bcj_arm64", x1, {"kind": "bcj", "arch": "arm64"}, 0, [], []))
    bases.append(("bcj_riscv", x1, {"kind": "bcj", "arch": "riscv", "start_pos": 4094}, 0, [], []))
    bases.append(("delta", m1, {"kind": "delta", "distance": 7}, 0, [], []))
    bases.append(("bcj2", x1, {"kind": "bcj2", "bcj2_size": 6000}, 0, [], []))
    global DICT_SITES
    DICT_SITES = {"xz_2blocks": ("xz", [a for (k, a, b_, _) in F.layout(xr) if k == "BH"]),
                  "xz_delta_x86": ("xz", [a for (k, a, b_, _) in F.layout(xr2) if k == "BH"]),
                  "lzip_2": ("lzip", [a for (k, a, b_, _) in F.layout(lz) if k == "LHDR"]),
                  "lzip_2_mt": ("lzip", [a for (k, a, b_, _) in F.layout(lz) if k == "LHDR"]),
                  "lzma_alone": ("lzma", [0])}
    defs = [B.base_def("m_" + n, d) for (n, d, _, _, _, _) in bases]
    defs.append(B.base_def("m_bcj2_call", struct.pack(">I", 0x1234) * 300))
    defs.append(B.base_def("m_bcj2_jump", struct.pack(">I", 0x99) * 300))
    defs.append(B.base_def("m_bcj2_rc", F.gen_data("random", 1500, 8)))
    jobs, meta = [], []
    per = max(1, total // (len(bases) * 4))
    for (name, data, dec, dict_bytes, fixes, within) in bases:
        common = dict(op="decode", base="m_" + name, dec=dec, bufs=[4096, 77], out_limit=1 << 27, alloc_cap=ALLOC_CAP, keep_input=False,
                      timeout_s=300, probe=True)
        if dec["kind"] == "bcj2":
            common["inputs"] = ["m_bcj2_call", "m_bcj2_jump", "m_bcj2_rc"]
        # every cut inside the last 24 bytes (trailers, footers, end markers) and the first 16 (headers)
        for cut in sorted(set(list(range(max(0, len(data) - 24), len(data))) + list(range(0, min(16, len(data)))))):
            jobs.append(dict(common, id=f"{name}/edgecut{cut}", mutn={"trunc": cut}))
            meta.append((name, dec, dict_bytes, "edge-cut", cut))
        for i in range(per):
            sd = rnd.getrandbits(40)
            jobs.append(dict(common, id=f"{name}/mut{i}", mutn={"seeded": {"seed": sd, "n": 1 + i % 5}}))
            meta.append((name, dec, dict_bytes, "mutated", len(data)))
            if fixes:
                jobs.append(dict(common, id=f"{name}/fix{i}", mutn={"seeded": {"seed": sd, "n": 1 + i % 3, "within": within}, "fix": fixes}))
                meta.append((name, dec, dict_bytes, "mutated+crcfix", len(data)))
            else:
                jobs.append(dict(common, id=f"{name}/head{i}", mutn={"seeded": {"seed": sd, "n": 1 + i % 3, "within": [(0, min(len(data), 48))]}}))
                meta.append((name, dec, dict_bytes, "mutated-head", len(data)))
            cut = rnd.randrange(0, len(data))
            jobs.append(dict(common, id=f"{name}/cut{i}", mutn={"trunc": cut, "seeded": {"seed": sd, "n": i % 2}}))
            meta.append((name, dec, dict_bytes, "truncated", cut))
            rl = rnd.choice([0, 1, 5, 13, 64, 300, 2000])
            jobs.append(dict(common, id=f"{name}/rand{i}", mutn={"random_len": rl, "seeded": {"seed": sd, "n": 0}}))
            meta.append((name, dec, max(dict_bytes, 1 << 32) if dec["kind"] in ("lzma", "lzip", "lzip_mt", "xz") else dict_bytes, "random", rl))
    return jobs, meta, defs


def run_replay(ctx, path):
    rp = json.load(open(path))["replay"]
    job = dict(op="decode", id="replay", dec=rp["dec"], bufs=rp.get("bufs", [4096, 1000]), out_limit=1 << 28, alloc_cap=ALLOC_CAP,
               inputs=rp.get("inputs", []), probe=True)
    defs = []
    if rp.get("input") is not None:
        job["input"] = rp["input"]
    else:
        # mutated case: rebuild the base streams and re-apply the recorded mutation
        _, _, defs = mutation_jobs(random.Random(0), 60)
        job["base"] = "m_" + rp["base"]
        job["mutn"] = rp["mutn"]
    r = B.run_jobs([job], defs)[0]
    print(json.dumps(r))
    if r["o"] not in ("ok", "err", "intr_stuck"):
        ctx.violation(f"{rp['dec']['kind']}: {r['o']}: {r.get('m', '')}", {"family": "replay", "dec": rp["dec"]["kind"], "outcome": r["o"],
                                                                          "site": site_of(r.get("m", ""))}, rp)
    if r.get("worker_panic"):
        ctx.violation(f"{rp['dec']['kind']}: worker panic: {r['worker_panic']}", {"family": "replay", "dec": rp["dec"]["kind"], "outcome": "panic",
                                                                                "site": site_of(r["worker_panic"])}, rp)
    B.finish_replay(ctx, {"dec": rp["dec"]})
