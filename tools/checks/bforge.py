"""Group B forge: assembles .xz / .lz / .lzma / raw LZMA2 files record by record, with correct or deliberately
wrong CRCs, sizes, paddings and magic, independent of the crate's writers (payloads come from liblzma through
python's `lzma` module; the containers are written here from the format documents). Every file is a list of
`Rec` records, so record-level edits (Corruption.tla) and extreme field values (HostileFields.tla) are applied
where they are meant and the byte layout (offsets, CRC regions) is known for byte-level mutation with fix-ups.
"""
import hashlib, lzma, struct, zlib

XZ_MAGIC = b"\xfd7zXZ\x00"
XZ_FOOT = b"YZ"
CHECK_ID = {"none": 0, "crc32": 1, "crc64": 4, "sha256": 10}
CHECK_LEN = {"none": 0, "crc32": 4, "crc64": 8, "sha256": 32}
FILTER_ID = {"delta": 0x03, "x86": 0x04, "ppc": 0x05, "ia64": 0x06, "arm": 0x07, "armthumb": 0x08, "sparc": 0x09,
             "arm64": 0x0A, "riscv": 0x0B, "lzma2": 0x21}
PY_FILTER = {"delta": lzma.FILTER_DELTA, "x86": lzma.FILTER_X86, "ppc": lzma.FILTER_POWERPC, "ia64": lzma.FILTER_IA64,
             "arm": lzma.FILTER_ARM, "armthumb": lzma.FILTER_ARMTHUMB, "sparc": lzma.FILTER_SPARC}


def crc32(b):
    return struct.pack("<I", zlib.crc32(b) & 0xFFFFFFFF)


_C64 = None


def crc64(b):
    global _C64
    if _C64 is None:
        poly = 0xC96C5795D7870F42
        t = []
        for i in range(256):
            c = i
            for _ in range(8):
                c = (c >> 1) ^ poly if c & 1 else c >> 1
            t.append(c)
        _C64 = t
    c = 0xFFFFFFFFFFFFFFFF
    for x in b:
        c = _C64[(c ^ x) & 0xFF] ^ (c >> 8)
    return struct.pack("<Q", c ^ 0xFFFFFFFFFFFFFFFF)


def check_bytes(kind, data):
    if kind == "crc32":
        return crc32(data)
    if kind == "crc64":
        return crc64(data)
    if kind == "sha256":
        return hashlib.sha256(data).digest()
    return b""


def vli(n, nbytes=None):
    """XZ multibyte integer; nbytes forces an over-long encoding (continuation bits on zero groups)."""
    out = bytearray()
    while True:
        b = n & 0x7F
        n >>= 7
        if n or (nbytes and len(out) + 1 < nbytes):
            out.append(b | 0x80)
        else:
            out.append(b)
            break
    return bytes(out)


def dict_prop(dict_size):
    """smallest LZMA2 dictionary property whose size >= dict_size"""
    for p in range(41):
        sz = 0xFFFFFFFF if p == 40 else (2 | (p & 1)) << (p // 2 + 11)
        if sz >= dict_size:
            return p
    return 40


def prop_dict(p):
    return 0xFFFFFFFF if p == 40 else (2 | (p & 1)) << (p // 2 + 11)


class Rec:
    def __init__(self, kind, raw, **info):
        self.kind = kind
        self.raw = bytes(raw)
        self.info = info

    def copy(self, raw=None):
        return Rec(self.kind, self.raw if raw is None else raw, **dict(self.info))

    def __repr__(self):
        return f"<{self.kind} {len(self.raw)}B {self.info}>"


def assemble(recs):
    return b"".join(r.raw for r in recs)


def layout(recs):
    """[(kind, start, end, info)]"""
    out, off = [], 0
    for r in recs:
        out.append((r.kind, off, off + len(r.raw), r.info))
        off += len(r.raw)
    return out


# --------------------------------------------------------------------------------------------- LZMA2 payloads
def lzma2_raw(data, dict_size=1 << 16, pre=(), preset=None):
    """LZMA2 stream (with 0x00 terminator) produced by liblzma; pre = [("delta", dist) | ("x86", start)]"""
    f = []
    for (name, p) in pre:
        if name == "delta":
            f.append({"id": lzma.FILTER_DELTA, "dist": p})
        else:
            f.append({"id": PY_FILTER[name], "start_offset": p})
    d = {"id": lzma.FILTER_LZMA2, "dict_size": dict_size}
    if preset is not None:
        d["preset"] = preset
    f.append(d)
    return lzma.compress(data, format=lzma.FORMAT_RAW, filters=f)


def lzma2_unraw(payload, dict_size=1 << 16, pre=()):
    f = []
    for (name, p) in pre:
        if name == "delta":
            f.append({"id": lzma.FILTER_DELTA, "dist": p})
        else:
            f.append({"id": PY_FILTER[name], "start_offset": p})
    f.append({"id": lzma.FILTER_LZMA2, "dict_size": dict_size})
    return lzma.decompress(payload, format=lzma.FORMAT_RAW, filters=f)


def lzma2_stored(data, first_ctrl=1, chunk=65536, terminator=True):
    """LZMA2 stream of uncompressed chunks (control 0x01 first, then 0x02)"""
    out = bytearray()
    ctrl = first_ctrl
    for i in range(0, len(data), chunk):
        part = data[i:i + chunk]
        out += bytes([ctrl]) + struct.pack(">H", len(part) - 1) + part
        ctrl = 2
    if terminator:
        out.append(0)
    return bytes(out)


def lzma2_chunks(payload):
    """splits an LZMA2 stream into chunks: [(start, end, ctrl)] incl. the terminator"""
    out, i = [], 0
    while i < len(payload):
        c = payload[i]
        if c == 0:
            out.append((i, i + 1, 0))
            i += 1
            break
        if c >= 0x80:
            hdr = 6 if c >= 0xC0 else 5
            if i + 5 > len(payload):
                break
            csize = struct.unpack(">H", payload[i + 3:i + 5])[0] + 1
            n = hdr + csize
        else:
            if i + 3 > len(payload):
                break
            n = 3 + struct.unpack(">H", payload[i + 1:i + 3])[0] + 1
        out.append((i, min(i + n, len(payload)), c))
        i += n
    return out


# --------------------------------------------------------------------------------------------- XZ
def sh(check="crc32", flags0=0, check_id=None, magic=XZ_MAGIC, crc=None):
    flags = bytes([flags0, CHECK_ID[check] if check_id is None else check_id])
    return Rec("SH", magic + flags + (crc32(flags) if crc is None else crc), check=check)


def filter_flags(filters):
    """filters: [(name_or_id, props_bytes)]"""
    out = b""
    for (fid, props) in filters:
        fid = FILTER_ID.get(fid, fid)
        out += vli(fid) + vli(len(props)) + props
    return out


def bh(filters, csize=None, usize=None, size_byte=None, flags_or=0, flags=None, body=None, padding=None, crc=None,
       nfilters=None, csize_bytes=None, usize_bytes=None):
    """block header; every part can be overridden"""
    if body is None:
        f = (len(filters) - 1 if nfilters is None else nfilters) & 3
        if csize is not None or csize_bytes is not None:
            f |= 0x40
        if usize is not None or usize_bytes is not None:
            f |= 0x80
        f |= flags_or
        if flags is not None:
            f = flags
        body = bytes([f])
        if csize_bytes is not None:
            body += csize_bytes
        elif csize is not None:
            body += vli(csize)
        if usize_bytes is not None:
            body += usize_bytes
        elif usize is not None:
            body += vli(usize)
        body += filter_flags(filters)
    total = 1 + len(body) + 4
    real = (total + 3) // 4 * 4
    if padding is None:
        padding = b"\0" * (real - total)
    sb = (len(body) + len(padding) + 5) // 4 - 1 if size_byte is None else size_byte
    pre = bytes([sb & 0xFF]) + body + padding
    return Rec("BH", pre + (crc32(pre) if crc is None else crc), hsize=len(pre) + 4)


def xz_block(content, check="crc32", dict_size=1 << 16, pre=(), payload=None, with_sizes=False, bno=0, **bhkw):
    if payload is None:
        payload = lzma2_raw(content, dict_size, pre)
    filters = []
    for (name, p) in pre:
        if name == "delta":
            filters.append(("delta", bytes([p - 1])))
        else:
            filters.append((name, struct.pack("<I", p) if p else b""))
    filters.append(("lzma2", bytes([bhkw.pop("dictprop", dict_prop(dict_size))])))
    if with_sizes:
        bhkw.setdefault("csize", len(payload))
        bhkw.setdefault("usize", len(content))
    h = bh(filters, **bhkw)
    h.info["b"] = bno
    pad = b"\0" * ((4 - len(payload) % 4) % 4)
    return [h, Rec("DATA", payload, b=bno, usize=len(content)), Rec("PAD", pad, b=bno),
            Rec("CHECK", check_bytes(check, content), b=bno, check=check)]


def index(records, count=None, pad=None, crc=None, indicator=0, count_bytes=None, rec_bytes=None):
    body = bytes([indicator]) + (vli(len(records) if count is None else count) if count_bytes is None else count_bytes)
    if rec_bytes is not None:
        body += rec_bytes
    else:
        for (unp, unc) in records:
            body += vli(unp) + vli(unc)
    if pad is None:
        pad = b"\0" * ((4 - len(body) % 4) % 4)
    body += pad
    return Rec("INDEX", body + (crc32(body) if crc is None else crc), records=list(records))


def footer(index_len, check="crc32", backward=None, flags=None, crc=None, magic=XZ_FOOT):
    bw = struct.pack("<I", (index_len // 4 - 1) if backward is None else backward)
    fl = bytes([0, CHECK_ID[check]]) if flags is None else flags
    return Rec("FOOTER", (crc32(bw + fl) if crc is None else crc) + bw + fl + magic)


def xz_index_records(recs):
    """(unpadded, uncompressed) per block of one stream's record list"""
    out = []
    hs = None
    for r in recs:
        if r.kind == "BH":
            hs = len(r.raw)
        elif r.kind == "DATA":
            cs, us = len(r.raw), r.info.get("usize", 0)
        elif r.kind == "CHECK":
            out.append((hs + cs + len(r.raw), us))
    return out


def xz_stream(contents, check="crc32", dict_size=1 << 16, pre=(), with_sizes=False, sno=0, **kw):
    recs = [sh(check)]
    for i, c in enumerate(contents):
        recs += xz_block(c, check, dict_size, pre, with_sizes=with_sizes, bno=i, **kw)
    ix = index(xz_index_records(recs))
    recs += [ix, footer(len(ix.raw), check)]
    for r in recs:
        r.info["s"] = sno
    return recs


def stream_pad(k, sno=0):
    return Rec("SPAD", b"\0" * k, s=sno)


def py_xz_decode(b):
    """reference decode (liblzma); returns bytes or raises"""
    d = lzma.LZMADecompressor(format=lzma.FORMAT_XZ)
    out = d.decompress(b)
    if not d.eof:
        raise lzma.LZMAError("truncated")
    rest = d.unused_data
    while rest.strip(b"\0"):
        if len(rest) - len(rest.lstrip(b"\0")) & 3:
            raise lzma.LZMAError("stream padding")
        rest = rest.lstrip(b"\0")
        d = lzma.LZMADecompressor(format=lzma.FORMAT_XZ)
        out += d.decompress(rest)
        if not d.eof:
            raise lzma.LZMAError("truncated")
        rest = d.unused_data
    return out


# --------------------------------------------------------------------------------------------- LZIP
LZIP_MAGIC = b"LZIP"


def lzip_dict_byte(dict_size):
    n = max(12, (dict_size - 1).bit_length())
    base = 1 << n
    if base == dict_size:
        return n
    frac = (base - dict_size) // (base >> 4)          # round the fraction down: size stays >= dict_size
    return (min(frac, 7) << 5) | n


def lzma1_raw(data, dict_size=1 << 16, lc=3, lp=0, pb=2):
    """raw LZMA1 stream with end marker (liblzma)"""
    return lzma.compress(data, format=lzma.FORMAT_RAW,
                         filters=[{"id": lzma.FILTER_LZMA1, "dict_size": dict_size, "lc": lc, "lp": lp, "pb": pb}])


def lz_member(content, dict_size=1 << 16, mno=0, magic=LZIP_MAGIC, version=1, dict_byte=None, body=None, crc=None,
              dsize=None, msize=None):
    if body is None:
        body = lzma1_raw(content, dict_size)
    h = Rec("LHDR", magic + bytes([version, lzip_dict_byte(dict_size) if dict_byte is None else dict_byte]), m=mno)
    total = 6 + len(body) + 20
    t = (struct.pack("<I", zlib.crc32(content) & 0xFFFFFFFF) if crc is None else crc) + \
        struct.pack("<Q", len(content) if dsize is None else dsize) + struct.pack("<Q", total if msize is None else msize)
    return [h, Rec("LBODY", body, m=mno, usize=len(content)), Rec("LTRL", t, m=mno)]


def lz_file(contents, dict_size=1 << 16):
    recs = []
    for i, c in enumerate(contents):
        recs += lz_member(c, dict_size, mno=i)
    return recs


# --------------------------------------------------------------------------------------------- .lzma
def lzma_alone(data, dict_size=1 << 16, known_size=False, lc=3, lp=0, pb=2):
    """.lzma file: 13-byte header + LZMA1 stream. liblzma always writes size -1 + end marker; known_size rewrites
    the header to the real size (the end marker then follows the declared size, which the format allows)."""
    b = lzma.compress(data, format=lzma.FORMAT_ALONE,
                      filters=[{"id": lzma.FILTER_LZMA1, "dict_size": dict_size, "lc": lc, "lp": lp, "pb": pb}])
    if known_size:
        b = b[:5] + struct.pack("<Q", len(data)) + b[13:]
    return [Rec("AHDR", b[:13]), Rec("ABODY", b[13:], usize=len(data))]


# --------------------------------------------------------------------------------------------- data
def gen_data(cls, n, seed=1):
    import random
    r = random.Random(seed * 7919 + n)
    if cls == "zeros":
        return b"\0" * n
    if cls == "random":
        return bytes(r.getrandbits(8) for _ in range(n))
    if cls == "text":
        words = [b"the ", b"quick ", b"brown ", b"fox ", b"jumps ", b"over ", b"lazy ", b"dog ", b"lorem ", b"ipsum ",
                 b"compress ", b"stream ", b"\n"]
        out = bytearray()
        while len(out) < n:
            out += r.choice(words)
        return bytes(out[:n])
    if cls == "x86":
        out = bytearray()
        while len(out) < n:
            k = r.randrange(6)
            if k == 0:
                out += b"\xe8" + struct.pack("<i", r.randrange(-4000, 4000))
            elif k == 1:
                out += b"\xe9" + struct.pack("<i", r.randrange(-70000, 70000))
            elif k == 2:
                out += b"\x0f" + bytes([0x80 + r.randrange(16)]) + struct.pack("<i", r.randrange(-300, 300))
            else:
                out += bytes(r.choice(b"\x55\x89\xe5\x8b\x45\x08\x90\xc3\x31\xc0") for _ in range(r.randrange(1, 9)))
        return bytes(out[:n])
    if cls == "periodic":
        p = bytes(r.getrandbits(8) for _ in range(1 + seed % 37))
        return (p * (n // len(p) + 1))[:n]
    # mixed
    out = bytearray()
    while len(out) < n:
        k = r.randrange(3)
        seg = r.randrange(1, 400)
        if k == 0:
            out += bytes(r.getrandbits(8) for _ in range(seg))
        elif k == 1:
            out += bytes((i * 7) & 0xFF for i in range(seg))
        else:
            out += bytes(r.choice(b"abcd") for _ in range(seg))
    return bytes(out[:n])
