"""Plans for the MT writers (MtWriter.tla)."""
from vlib import mtlib

WRITER = dict(base="MtWriter", trace="Trace_MtWriter",
              inv=["TypeOK", "InOrder", "NoFalseSuccess", "FlushDrains", "WorkerBound", "PushSeesOpen"],
              props=["Terminates", "CallsReturn", "WorkersReleased"],
              silent={"CCall", "CG0Hit", "CFlChk", "CXAfter", "CDrop0"})
UNIT = 4096


def consts(workers, calls, panic=()):
    c = {"MaxWorkers": str(workers), "Calls": list(calls), "PanicUnits": mtlib.tla_set(panic)}
    c["CloseLock"] = mtlib.ASBUILT["CloseLock"]
    c["WakeOnError"] = mtlib.ASBUILT["WakeOnError"]
    c["PanicGuard"] = mtlib.ASBUILT["PanicGuard"]
    return c


def rows(quick, fault, drop):
    R = []
    if fault:
        R += [("w-panic0", "lzma2", 2, ["F", "F", "X"], dict(panic=[0]), "rand"),
              ("w-panic1-flush", "lzip", 2, ["F", "F", "f", "X"], dict(panic=[1]), "rand")]
        # every call returns on valid input too: exact multiples of the unit size, flush then finish, backlog at finish
        R += [("w-valid-small", "lzma2", 2, ["F", "P", "X"], {}, "tour"),
              ("w-exact", "lzma2", 2, ["F", "F", "X"], {}, "rand"),
              ("w-flush-first", "lzma2", 2, ["f", "F", "X"], {}, "tour"),
              ("w-flush-only", "lzip", 2, ["f", "f", "X"], {}, "tour"),
              ("w-exact-lzip", "lzip", 2, ["F", "F", "X"], {}, "tour"),
              ("w-flush-finish", "lzip", 2, ["F", "P", "f", "X"], {}, "rand"),
              ("w-backlog-1w", "lzip", 1, ["F", "F", "F", "X"], {}, "rand"),
              ("w-backlog-1w-lzma2", "lzma2", 1, ["F", "F", "F", "X"], {}, "rand")]
        if not quick:
            R += [("w-panic2-3w", "lzip", 3, ["F", "F", "F", "X"], dict(panic=[2]), "rand")]
    elif drop:
        R += [("w-drop0", "lzma2", 2, ["D"], {}, "tour"),
              ("w-drop-mid", "lzma2", 2, ["F", "F", "D"], {}, "tour"),
              ("w-drop-partial", "lzip", 2, ["F", "P", "D"], {}, "tour"),
              ("w-drop-after-flush", "lzip", 2, ["F", "f", "D"], {}, "rand"),
              ("w-finish", "lzma2", 2, ["F", "F", "X"], {}, "rand"),
              ("w-finish-lzip", "lzip", 2, ["F", "F", "X"], {}, "rand"),
              ("w-finish-backlog-1w", "lzip", 1, ["F", "F", "F", "X"], {}, "rand"),
              ("w-flush-finish", "lzma2", 2, ["F", "f", "X"], {}, "rand"),
              ("w-finish-empty", "lzip", 2, ["X"], {}, "tour"),
              ("w-1worker", "lzma2", 1, ["F", "F", "F", "X"], {}, "rand"),
              # workers idle, one more unit pushed, then dropped at once
              ("w-drop-after-3", "lzip", 2, ["F", "F", "F", "D"], {}, "tour")]
        if not quick:
            R += [("w-drop-3w", "lzma2", 3, ["F", "F", "F", "D"], {}, "tour"),
                  ("w-drop-6u", "lzip", 2, ["F", "F", "F", "F", "F", "F", "D"], {}, "rand")]
    else:
        R += [("w-ffx", "lzma2", 2, ["F", "F", "X"], {}, "tour"),
              ("w-ffx-lzip", "lzip", 2, ["F", "F", "X"], {}, "rand"),
              ("w-flush", "lzma2", 2, ["F", "F", "f", "P", "X"], {}, "rand"),
              ("w-partials", "lzip", 2, ["P", "P", "F", "P", "X"], {}, "rand"),
              ("w-empty", "lzma2", 2, ["X"], {}, "tour"),
              ("w-3w", "lzip", 3, ["F", "F", "F", "X"], {}, "rand"),
              ("w-1w", "lzma2", 1, ["F", "F", "X"], {}, "tour"),
              ("w-preset", "lzma2", 2, ["F", "F", "P", "X"], dict(extra=dict(preset=True)), "rand"),
              # flush in the middle of a unit: a short unit, then full ones (unit boundaries no longer multiples)
              ("w-flush-first", "lzma2", 2, ["f", "F", "X"], {}, "tour"),
              ("w-flush-only", "lzip", 2, ["f", "X"], {}, "tour"),
              # one write() call that starts in the middle of a unit and spans several unit boundaries
              # (the script must keep its iteration structure under merging: one P, then full iterations)
              ("w-merged-lzip", "lzip", 2, ["P", "F", "F", "F", "X"], dict(extra=dict(merge=True)), "rand"),
              ("w-merged-lzma2", "lzma2", 2, ["P", "F", "F", "F", "X"], dict(extra=dict(merge=True)), "rand"),
              ("w-midflush", "lzma2", 2, ["F", "P", "f", "F", "F", "X"], dict(extra=dict(weight=4)), "rand"),
              ("w-midflush-lzip-3w", "lzip", 3, ["F", "P", "f", "F", "X"], {}, "rand")]
        if not quick:
            R += [("w-backpressure", "lzma2", 2, ["F", "F", "F", "F", "F", "F", "X"], {}, "rand"),
                  ("w-3w-flush", "lzma2", 3, ["F", "F", "f", "F", "F", "X"], {}, "rand"),
                  ("w-ffx-full", "lzip", 2, ["F", "F", "X"], {}, "fulltour")]
    return R


def cfgs(quick, fault=False, drop=False):
    out = []
    for (name, kind, workers, calls, kw, mode) in rows(quick, fault, drop):
        kw = dict(kw)
        extra = kw.pop("extra", None)
        weight = (extra or {}).pop("weight", 1) if extra else 1
        out.append(dict(name=name, fam=kind + "_writer", consts=consts(workers, calls, **kw), mode=mode,
                        calls=calls, extra=extra or None, weight=weight, **WRITER))
    return out


def merge_calls(cs):
    """Merges runs of consecutive write calls (from the second call on) into one call: a write() call is a run of
    F / P iterations for the model, and call boundaries inside it are not runtime operations."""
    out = []
    for c in cs:
        if c["op"] == "write" and len(out) >= 1 and out[-1]["op"] == "write" and out[-1].get("merged", len(out) >= 2):
            out[-1] = {"op": "write", "n": out[-1]["n"] + c["n"]}
        else:
            out.append(dict(c))
    return out


def concrete_calls(calls, unit=UNIT):
    cur, out = 0, []
    for k in calls:
        if k == "F":
            out.append({"op": "write", "n": unit - cur})
            cur = 0
        elif k == "P":
            n = unit // 5
            assert cur + n < unit
            out.append({"op": "write", "n": n})
            cur += n
        elif k == "f":
            out.append({"op": "flush"})
            cur = 0
        elif k == "X":
            out.append({"op": "finish"})
        else:
            out.append({"op": "drop"})
            break
    return out


def make_scn(c, sid, policy, unit=UNIT, dict_size=None):
    """Concretises a model-level call script. `unit` is the configured chunk / member size; with `dict_size` larger than
    it the constructors raise the unit size to the dictionary size, so a full iteration (F) of the model is `dict_size` bytes."""
    k = c["consts"]
    eff = unit if dict_size is None else max(unit, dict_size)
    s = {"id": sid, "family": c["fam"], "workers": int(k["MaxWorkers"]), "unit_len": unit,
         "calls": concrete_calls(c["calls"], eff),
         "panic": eval(k["PanicUnits"].replace("{", "[").replace("}", "]")), "policy": policy,
         # non-periodic input: an encoder that refers to the wrong history must not decode correctly by coincidence
         "data_class": "text", "seed": 7}
    if dict_size is not None:
        s["dict_size"] = dict_size
    if c.get("extra"):
        s.update(c["extra"])
    if s.pop("merge", False):
        s["calls"] = merge_calls(s["calls"])
    return s


# (configured unit size, dictionary size) pairs: unit above, equal to and below the dictionary size. Below it the constructors
# raise the unit size to the dictionary size (C18: "both raised to the dictionary size when smaller").
UNIT_CONFIGS = [(5000, 4096), (4096, 4096), (3000, 8192), (1, 4096), (6000, 16384)]


def partitions(raw, eff, total, rnd):
    """Write partitions of `total` bytes for a writer whose configured unit size is `raw` and whose effective unit size is
    `eff` (>= raw): one write, pieces below the configured size, pieces between the configured and the effective size,
    pieces above the effective size, none of them dividing the unit; a call ending one byte before a boundary; ragged."""
    def equal(n):
        n = max(257, n)             # the deterministic runtime pays per call: no byte-sized pieces
        return [n] * (total // n) + ([total % n] if total % n else [])

    def ragged(sizes):
        out, left = [], total
        while left > 0:
            n = min(left, max(1, rnd.choice(sizes)))
            out.append(n)
            left -= n
        return out
    between = (raw + eff) // 2 + 1 if eff > raw + 2 else eff - eff // 3 - 1
    parts = [("one", [total]),
             ("below", equal(min(raw, eff) * 2 // 5 + 1 if raw >= 700 else eff // 7 + 1)),
             ("between", equal(between)),
             ("above", equal(eff + eff // 3 + 1)),
             ("exact", equal(eff)),
             ("edge", [eff - 1, total - eff + 1] if total > eff else [total]),
             ("ragged", ragged([300, 997, max(300, raw - 1), raw + 1, between, eff - 300, eff + 1, 2 * eff - 5]))]
    return [(n, [x for x in p if x > 0]) for n, p in parts]


def partition_scns(fam, raw, dict_size, total, workers, policy, sid, rnd, data_class="text", seed=7):
    """One scenario per partition shape: write calls, then finish."""
    eff = max(raw, dict_size, 4096)
    out = []
    for name, part in partitions(raw, eff, total, rnd):
        out.append({"id": f"{sid}-{name}", "family": fam, "workers": workers, "unit_len": raw, "dict_size": dict_size,
                    "calls": [{"op": "write", "n": n} for n in part] + [{"op": "finish"}], "panic": [],
                    "policy": policy(), "data_class": data_class, "seed": seed, "shape": name})
    return out
