"""C12: concatenated XZ streams and LZIP members decode to the concatenated data."""
import random
from concurrent.futures import ThreadPoolExecutor
from vlib import core, contlib

MANIFEST = dict(
    level="model_checking",
    technique="TLA+ specs XzContainer (writer, environment concatenating streams with stream padding / trailing bytes, reader with the "
              "multi-stream scan of try_start_next_stream) and LzipContainer (member loop, file concatenation, backward member scan of the "
              "MT reader) model-checked with TLC (Concat, ConsumesExactly, ScanOrder, RoundTrip); every terminal behaviour is exported, "
              "assembled from real streams (crate writer, liblzma, forge) and decoded by the real XZReader / LZIPReader / LZIPReaderMT; the "
              "strict-parser records of the assembled inputs are validated by TLC against the reader model (Trace_XzReader)",
    text="TLC visits every sequence of 1..3 streams (empty ones, different check types and block limits) x stream padding 0,4,8 / 1,2,3,5 "
         "x trailing bytes x multi-stream on/off of the XzContainer model and checks as invariants that with multi-stream decoding the "
         "reader delivers the concatenation, rejects padding that is not a multiple of four between streams, and that with multi-stream "
         "decoding disabled it stops after the first stream, exactly behind its footer; for LZIP that every member of every concatenated "
         "file is decoded in order and that the backward scan of the MT reader finds the members in file order. Each behaviour is "
         "replayed into the real readers with streams produced by the crate's writers, liblzma and the forge; the property oracle "
         "(decoded bytes = concatenation / error / first stream only) decides, the model's predicted outcome and byte count must also "
         "match, and the reader model is run by TLC over the strict-parser records of the real inputs (trace validation). Beyond the model's bound on the number of units, the real readers are run over inputs of 3 000 - 40 001 members / streams (empty, tiny, data in front / middle / end), one process each under a 1 MiB stack; a dead process is a violation.",
    ref="4.8, 6/C12",
    note="TLC results hold for <= 3 streams / files and the stated padding values; padding after the last stream is judged like padding "
         "between streams (must be a multiple of four); trailing non-stream bytes in multi-stream mode are predicted by the model "
         "(error) but not judged.",
    ready=True)


def run(tier, replay=None):
    ctx = core.Check("C12", tier, "model_checking")
    core.build_harness()
    j = contlib.Judge(ctx, {"C12"})
    if replay:
        return contlib.run_replay(ctx, j, replay)
    quick = tier == "quick"
    pool = ThreadPoolExecutor(max_workers=8)
    outer = ThreadPoolExecutor(max_workers=3)
    seed = ctx.seed

    def xz_all():
        scns, res = contlib.family_concat_xz(ctx, j, quick, random.Random(seed), pool, want_recs=True)
        runs = [(s, r, contlib.input_valid(s)) for s, r in zip(scns, res) if r.get("recs") is not None]
        contlib.validate_reader(ctx, j, runs, "concatenated inputs")
        return scns

    def lz_all():
        # multi-member files of the LZIP writer (member_size), validated against LzipContainer, with the MT reader's order
        scns, res, runs = contlib.family_lzip(ctx, j, quick, random.Random(seed + 1), pool, cap=120 if quick else 1500)
        contlib.validate_lz_runs(ctx, j, runs, pool)
        return scns

    fs = [outer.submit(xz_all), outer.submit(lambda: contlib.family_concat_lz(ctx, j, quick, random.Random(seed + 2), pool)[0]), outer.submit(lz_all)]
    scns = [s for f in fs for s in f.result()]
    scns += contlib.family_long_runs(ctx, j, quick, random.Random(seed + 3))[0]
    outer.shutdown()
    pool.shutdown()
    contlib.finish(ctx, j, scns,
                   "one evaluation = one assembled input (TLC behaviour: stream shapes x paddings x trailing bytes x multi flag, or member "
                   "structure) decoded by a real reader; distinct = (format, multi flag, number of streams/files, padding class, trailing "
                   "kind, stream sources, outcome)")
