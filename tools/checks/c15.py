"""C15: the unsafe fast paths stay inside their buffers - decided at the level of INDEX PRECONDITIONS.

Stage 1  TLC: EncWindow MatchSourceInRange / ExtendInRange / HistoryRetained / CopyInRange / IndicesInRange (every
         source index of a match, rep match, matched literal or re-hashed pending position is >= 0, forward reads
         end inside buffered data) over all schedules of the scaled model; MatchFinderPos DeltaIsTrueDistance
         (a candidate accepted by delta < cyclic_size is at its true distance, across renormalisations).
Stage 2/3 the C01 workload (matches touching both window ends, window moves, flush with pending bytes, finishing
         with < 8 bytes, renormalisation in both builds) plus hostile decoder inputs (mutated LZMA2 streams: direct-bit
         runs at and beyond the end of the chunk buffer) run with the cfg-gated shadow assertions of hook H5 switched
         on: immediately before each unsafe access (extend_match get_unchecked, get_match_len_fast_reject
         read_unaligned, normalize_* align_to_mut, assembly decode_direct_bits) the bounds precondition is restated in
         safe code and recorded in a monitor (count, minimum margin, first violating arguments).
Oracle   no shadow assertion fails."""
from vlib import core
from checks import encplans as P

MANIFEST = dict(
    level="exploration",
    technique="TLA+ specifications EncWindow (index invariants MatchSourceInRange, ExtendInRange, HistoryRetained, CopyInRange) and "
              "MatchFinderPos (DeltaIsTrueDistance) model-checked with TLC; the same predicates evaluated inline in the real code by "
              "cfg-gated shadow assertions immediately before each unsafe access (hook H5) while TLC-derived and grid workloads run; "
              "traced runs validated by TLC against EncWindow with the real constants",
    text="On all explored encoder inputs / options and hostile decoder inputs the restated bounds precondition held before every "
         "unsafe access (unchecked sub-slices of extend_match, unaligned 2-byte reads of get_match_len_fast_reject, aligned SIMD "
         "loads / stores of normalize_*, the clamped byte load of the assembly decode_direct_bits); minimum margins are reported.",
    ref="DESIGN.md sections 1(C), 6/C15; notes/groupC1.md",
    note="LIMIT: what is decided is the index precondition restated in safe code, not machine-level memory safety: that satisfying "
         "the precondition implies the access is in bounds, alignment of SIMD accesses beyond the pointer check, aliasing and the "
         "assembly's register use need a sanitizer or Miri, which are outside this technique. x86-64 only (NEON not executed).",
    ready=True,
)


def run(tier, replay=None):
    ctx = core.Check("C15", tier, "exploration")
    core.build_harness()
    if replay:
        return P.run_replay(ctx, replay, {"C15"})
    P.run_plan(ctx, "C15", tier)
