"""C19: a writer that reports success has produced a decodable stream.

Stage 1  TLC evaluates spec/Options.tla over the boundary grid of every public option field for every writer: with
         the repaired constants the contract (Class in {Err, OkDecodable}; accepted => decodable) must hold on the
         model; with the as-built constants (spec/asbuilt_options.json) the grid and the predicted outcome class of
         every point are exported (ToJson).
Stage 2  every exported point is concretised and executed on the real writer - constructor, write, finish under
         panic containment, then the corresponding reader - for several inputs (text, long runs, incompressible,
         empty, large). Points that may abort the process (dictionaries >= 768 MiB, huge chunk sizes) run one per
         child process. Oracle (the property): outcome in {Err, OkDecodable}. A point whose outcome differs from the
         model's prediction while the oracle holds is reported as DRIFT.
"""
import json, os, random, time, collections
from vlib import core
from vlib.core import log, ToolError
from checks import dlib

MANIFEST = dict(
    level="exploration",
    technique="TLA+ spec Options (writer-side validation vs reader-side limits as predicates over the option grid, as-built and repaired variants) evaluated by TLC; every grid point exported by TLC is executed on the real writers and readers and compared with the predicted outcome class",
    text="Options.tla states what every reader accepts (lc<=8, lp<=4, pb<=4, lc+lp<=4 and props<=224 for LZMA2, delta 1..256, BCJ alignment, dictionary limits, no preset dictionary in containers) and what every writer validates, as predicates over the boundary grid of all public option fields (lc 0..9 x lp 0..5, pb, 12 dictionary classes up to u32::MAX, nice_len {0,1,2,3,4,7,8,273,274,1000} x match finder x mode, depth extremes, preset dictionary classes, XZ filter properties, chunk/block/member sizes, worker counts, .lzma expected size). TLC checks WriterAccepts => ReaderDecodes \\/ WriterErrors on the repaired variant and exports every as-built grid point with its predicted class; each point is executed on the real code with five inputs (panics contained, possible aborts isolated in child processes) and must end in Err or in a stream the corresponding reader decodes to the written bytes.",
    ref="4.11, 6/C19",
    note="Boundary slices around one base point per writer, not the full product of all fields; inputs <= 300 KiB (quick) / 4 MiB (thorough). Dictionaries >= 768 MiB really commit several GiB; they are executed one at a time under a 5 GiB address-space limit with a 3000-byte input (limit hit = no verdict), and the quick tier executes only the 768 MiB boundary on two writers plus the classes refused before allocation. Decoding uses the crate's own corresponding reader with the writer's parameters.",
    ready=True,
)

ASB_FILE = os.path.join(core.VERIF, "spec", "asbuilt_options.json")
VNAMES = ["VProps", "VDict", "VNice", "VPreset", "VFilter", "VSize", "VReaderMinDict"]
WRITERS = ["lzma", "lzmahdr", "lzma2", "xz", "lzip", "lzma2mt", "lzipmt"]
DICT = {"0": 0, "1": 1, "4095": 4095, "4096": 4096, "5000": 5000, "64K": 65536, "100000": 100000, "600000": 600000, "1M": 1 << 20, "768M": 768 << 20, "768M+1": (768 << 20) + 1,
        "1.5G": 0x60000000, "2G": 0x80000000, "4G-16": 0xFFFFFFF0, "4G-1": 0xFFFFFFFF}
DEPTH = {"min": -(1 << 31), "neg1": -1, "zero": 0, "one": 1, "max": (1 << 31) - 1}
PD = {"empty": 0, "some": 100, "long": 70000}
BCJ_ALIGN = {"arm": 4, "armthumb": 2, "arm64": 4, "ppc": 4, "sparc": 4, "ia64": 16, "riscv": 2, "x86": 1}
RANK = {"OkDecodable": 0, "Err": 1, "OkUndecodable": 2, "Panic": 3, "Abort": 4}


def asbuilt():
    d = {v: "FALSE" for v in VNAMES}
    if os.path.exists(ASB_FILE):
        d.update(json.load(open(ASB_FILE)).get("options", {}))
    return d


def opt_model(consts, invariants, export):
    c = dict(consts)
    c["Writers"] = "{" + ",".join('"%s"' % w for w in WRITERS) + "}"
    c["Export"] = "TRUE" if export else "FALSE"
    d, mod, cfg = core.write_model("Options", c, invariants=list(invariants) + (["Exported"] if export else []))
    r = core.run_tlc(mod, cfg, workers=1 if export else 2, cwd=d, timeout=600)
    pts = []
    for x in r.printed:
        if x.startswith('"{'):
            try:
                pts.append(json.loads(json.loads(x)))
            except Exception:
                pass
    return r, pts


def value_class(p):
    s = p["slice"]
    if s == "props":
        lzip = p["w"] in ("lzip", "lzipmt")
        if lzip:
            return "overridden"
        if p["lc"] > 8:
            return "lc>8"
        if p["pb"] > 4:
            return "pb>4"
        if p["lp"] > 4:
            return "lp>4"
        if p["w"] in ("lzma2", "xz", "lzma2mt") and p["lc"] + p["lp"] > 4:
            return "lc+lp>4"
        return "inrange"
    if s == "dict":
        return "dict=" + p["dict"]
    if s == "nice":
        n = p["nice"]
        return "nice<2" if n < 2 else "nice=2" if n == 2 else "nice=3" if n == 3 else "nice4..7" if n < 8 else "nice8..273" if n <= 273 else "nice>273"
    if s == "depth":
        return "depth=" + p["depth"]
    if s == "preset":
        return "preset=" + p["pd"]
    if s == "filter":
        return p["ft"] + ("=" + p["fv"] if p["fv"] != "none" else "")
    if s == "size":
        return "size=" + p["sz"]
    return "base"


def far_short_hex(d, n, seed):
    """Incompressible bytes in which every ~24th position starts a 3..9-byte copy of what stood d - d/64 - 1 .. d bytes
    earlier: short matches (below nice_len, so the optimal parser prices them) in the top distance slot of the dictionary,
    some at exactly dict_size."""
    rnd = random.Random(seed)
    v = bytearray(rnd.randbytes(min(n, d)))
    while len(v) < n:
        v += rnd.randbytes(rnd.randrange(8, 40))
        back = d - rnd.randrange(0, d // 64 + 2)
        if back <= len(v):
            k = rnd.randrange(3, 10)
            st = len(v) - back
            v += v[st:st + k]
    return bytes(v[:n]).hex()


def concretise(p, idx, variant):
    """grid point -> vh_opt case for one input variant (gen, len)."""
    gen, n = variant
    if gen == "far_short":
        c = concretise(p, idx, ("hex", n))
        c["data"]["hex"] = far_short_hex(DICT[p["dict"]], n, 11 + idx)
        return c
    w = p["w"]
    o = {"preset": 1, "lc": p["lc"], "lp": p["lp"], "pb": p["pb"], "dict_size": DICT[p["dict"]], "nice_len": p["nice"],
         "mode": p["mode"], "mf": p["mf"], "depth": DEPTH[p["depth"]]}
    if p["pd"] != "none":
        o["preset_dict"] = PD[p["pd"]]
    target = {"lzmahdr": "lzma"}.get(w, w)
    if w == "lzmahdr":
        o["header"] = True
        o["expected"] = "exact"
    if w == "lzma":
        o["end_marker"] = True
    sz = p["sz"]
    key = {"lzma2": "chunk_size", "xz": "block_size", "lzip": "member_size", "lzma2mt": "chunk_size", "lzipmt": "member_size"}.get(w)
    if w in ("lzma2mt", "lzipmt"):
        o[key] = 65536
        o["workers"] = 2
    if sz == "one":
        o[key] = 1
    elif sz == "dict":
        o[key] = 65536
    elif sz == "huge":
        o[key] = (1 << 64) - 1
    elif sz == "unset":
        o.pop(key, None)
    elif sz in ("w0", "w1", "w1000"):
        o["workers"] = int(sz[1:])
    elif sz == "exp_none":
        o["expected"] = "none"
    elif sz == "exp_less":
        if n == 0:
            return None
        o["expected"] = n - 1
    elif sz == "exp_more":
        o["expected"] = n + 7
    elif sz == "nomarker":
        o["end_marker"] = False
    ft, fv = p["ft"], p["fv"]
    if ft == "delta":
        o["filters"] = [{"t": "delta", "p": int(fv)}]
    elif ft == "bcj":
        archs = ["arm", "armthumb", "arm64", "ppc", "sparc", "ia64", "riscv"] + (["x86"] if fv != "unaligned" else [])
        arch = archs[(idx + len(gen)) % len(archs)]
        a = BCJ_ALIGN[arch]
        off = {"zero": 0, "aligned": 16 * (1 + idx % 5), "unaligned": a // 2 + 16 * (idx % 3), "top": (1 << 32) - 16}[fv]
        o["filters"] = [{"t": arch, "p": off}]
    elif ft == "lzma2":
        o["filters"] = [{"t": "lzma2", "p": 0}]
    elif ft == "three":
        o["filters"] = [{"t": "delta", "p": 1}, {"t": "x86", "p": 0}, {"t": "delta", "p": 256}]
    elif ft == "four":
        o["filters"] = [{"t": "delta", "p": 1}] * 4
    return {"target": target, "opts": o, "data": {"gen": gen, "len": n, "seed": 11 + idx, "arch": "x86"}}


BIG_DICT = ("768M", "768M+1", "1.5G", "2G", "4G-16", "4G-1")


def isolated(p):
    return p["dict"] in BIG_DICT or p["sz"] == "huge"


def affordable(p, quick):
    """Dictionaries >= 768 MiB commit several GiB (the aligned match-finder tables are really zero-filled, ~25 s each
    on a busy machine). Quick executes only: the classes whose value overflows the encoder's 31-bit positions (refused
    or failing before anything is allocated) on the three single-threaded non-LZIP writers, and the first value above
    the encoder maximum on the XZ writer (refused before allocation once validated). Everything else: thorough."""
    if p["dict"] not in BIG_DICT:
        return True
    if not quick:
        return True
    # only writers that refuse the value before allocating: LZMA2Writer clamps it to a real 768 MiB dictionary (~4.5 GiB)
    if p["dict"] in ("2G", "4G-16", "4G-1"):
        return p["w"] in ("lzma", "xz")
    return p["dict"] == "768M+1" and p["w"] == "xz"


def run(tier, replay=None):
    ctx = core.Check("C19", tier, "exploration")
    core.build_harness()
    if replay:
        return run_replay(ctx, replay)
    quick = tier == "quick"
    asb = asbuilt()
    # ---------------------------------------------------------------- stage 1: the model
    t0 = time.time()
    rep_consts = {v: "TRUE" for v in VNAMES}
    (r_rep, _), (r_asb, pts) = dlib.parallel([lambda: opt_model(rep_consts, ["Contract", "AcceptImpliesDecodes"], False),
                                              lambda: opt_model(asb, [], True)], workers=2)
    ctx.note_tlc("Options repaired", r_rep)
    ctx.note_tlc("Options as-built (export)", r_asb)
    log(f"[tlc] repaired: {r_rep}; as-built export: {r_asb}, {len(pts)} points")
    if not r_rep.ok:
        raise ToolError(f"Options.tla: the repaired variant violates {r_rep.violated}:\n" + "\n".join(s["text"] for s in r_rep.trace[-1:]))
    if len(pts) < 500 or len(pts) != r_asb.distinct:
        raise ToolError(f"grid export incomplete: {len(pts)} points printed, {r_asb.distinct} states")
    pred_bad = [x for x in pts if x["class"] in ("Panic", "OkUndecodable")]
    log(f"[stage1] {len(pts)} grid points, {len(pred_bad)} predicted outside the contract by the as-built model, in {time.time()-t0:.1f}s")

    # ---------------------------------------------------------------- stage 2: execute every point
    t0 = time.time()
    small = [("text", 3000), ("zeros", 5000), ("random", 2000), ("text", 0)]
    large = ("text", 300000 if quick else 4 << 20)
    cases, iso_cases = [], []
    skipped_resource = 0
    for i, x in enumerate(pts):
        p = x["point"]
        variants = list(small)
        if not affordable(p, quick):
            skipped_resource += 1
            continue
        if isolated(p):
            variants = [("text", 3000)]
        elif (not quick) or p["slice"] in ("props", "preset", "filter", "size", "base") or (i % 4 == 0):
            variants.append(large)
        # dictionary slice: an input whose matches lie just inside the dictionary (a random block repeated at distance
        # dict - 500): a container that announces a smaller window than the encoder used is only then undecodable
        if p["slice"] == "dict" and 4096 <= DICT[p["dict"]] <= (1 << 20):
            variants.append(("repeat_far", 3 * (DICT[p["dict"]] - 500)))
        # ... short matches in the top distance slot of the dictionary (sizes off the 2^n / 3 * 2^(n-1) grid included), and
        # inputs longer than the encoder's window buffer (1.5 * dict_size + ~257 KiB) that do not compress / compress in
        # parts: the window moves inside chunks that the LZMA2-based writers store uncompressed out of it
        if p["slice"] == "dict" and p["dict"] not in BIG_DICT and DICT[p["dict"]] <= ((1 << 17) if quick else (1 << 20)):
            d = max(DICT[p["dict"]], 4096)
            variants.append(("far_short", d + 60000))
            variants += [("random", 3 * d // 2 + 400000), ("mixed", 3 * d // 2 + 400000)]
        for v in variants:
            c = concretise(p, i, v)
            if c is None:
                continue
            c["id"] = f"p{i}-{v[0]}{v[1]}"
            c["pi"] = i
            (iso_cases if isolated(p) else cases).append(c)
    strip = lambda c: {k: v for k, v in c.items() if k != "pi"}
    res = dlib.run_cases("vh_opt", [strip(c) for c in cases], timeout=3000, per_batch=40)
    # strictly sequential, 5 GiB address-space cap, 180 s each: a grid point must never exhaust the machine
    ires = dlib.run_cases_isolated("vh_opt", [strip(c) for c in iso_cases], nproc=1, timeout=180, as_limit=5 << 30)
    per_point = collections.defaultdict(list)
    n_resource = 0
    for c, r in list(zip(cases, res)) + list(zip(iso_cases, ires)):
        if r.get("tool_error"):
            raise ToolError(f"vh_opt: {r['tool_error']} for {c}")
        if "resource" in r:
            n_resource += 1
            continue
        if "abort" in r:
            err = r.get("stderr", "")
            r = {"class": "Abort", "detail": f"process died (rc={r['abort']}): {err.strip().splitlines()[-1] if err.strip() else ''}"}
        per_point[c["pi"]].append((c, r))
    log(f"[stage2] {len(cases)} + {len(iso_cases)} isolated executions in {time.time()-t0:.1f}s")

    classes = set()
    mismatches = []
    exact_mismatch = 0
    reproduced = 0
    for i, x in enumerate(pts):
        p, pred = x["point"], x["class"]
        runs = per_point.get(i, [])
        if not runs:
            continue
        worst_c, worst_r = max(runs, key=lambda cr: RANK.get(cr[1].get("class"), 0))
        obs = worst_r.get("class")
        vc = value_class(p)
        if obs in ("Panic", "OkUndecodable", "Abort"):
            sig = {"family": p["w"], "slice": p["slice"], "value": vc, "outcome": "Panic" if obs == "Abort" else obs}
            what = (f"{p['w']} writer, {vc}" + (f" ({p['mf']}/{p['mode']})" if p["slice"] == "nice" else "") +
                    f": {obs} - {worst_r.get('detail', '')[:160]} [input {worst_c['data']['gen']}/{worst_c['data']['len']}]")
            ctx.violation(what, sig, {"case": strip(worst_c), "point": p, "predicted": pred})
            if pred in ("Panic", "OkUndecodable"):
                reproduced += 1
        obs_n = "Panic" if obs == "Abort" else obs
        inside = lambda c: c in ("Err", "OkDecodable")
        if inside(obs_n) != inside(pred):
            mismatches.append((p, pred, obs, worst_r.get("detail", "")[:100]))      # the model is wrong about the contract
        elif obs_n != pred:
            exact_mismatch += 1                                                       # e.g. Panic vs OkUndecodable, Err vs clamp
        if p["slice"] != "base":
            classes.add((p["w"], p["slice"], vc, obs_n))
    if pred_bad and reproduced == 0:
        raise ToolError(f"the as-built model predicts {len(pred_bad)} grid points outside the contract but none reproduces on the code: "
                        f"spec/asbuilt_options.json does not describe this tree")
    for (p, pred, obs, det) in mismatches[:8]:
        ctx.note_drift(f"Options.tla (as-built) predicts {pred} for {p['w']}/{p['slice']}/{value_class(p)}"
                       f"{'/' + p['mf'] + '/' + p['mode'] if p['slice'] == 'nice' else ''} but the code gives {obs} {det}")
    ctx.cov["model_mispredictions"] = len(mismatches)
    ctx.cov["model_class_differs_same_side_of_contract"] = exact_mismatch
    # only when the property oracles found nothing: otherwise the VIOLATION lines (with replays) are the verdict
    if len(mismatches) > len(pts) // 10 and not ctx.violations and not ctx.known_hits:
        raise ToolError(f"Options.tla mispredicts {len(mismatches)} of {len(pts)} grid points: the model does not describe this tree "
                        f"(first: {mismatches[0]})")
    ctx.cov["grid_points"] = len(pts)
    ctx.cov["points_not_executed_resource"] = skipped_resource
    ctx.cov["executions_without_verdict_resource"] = n_resource
    ctx.cov["predicted_outside_contract"] = len(pred_bad)
    ctx.cov["evaluations"] = len(cases) + len(iso_cases)
    ctx.cov["distinct_nontrivial"] = len(classes)
    ctx.cov["rule"] = ("one evaluation = construct / write / finish / decode of one grid point with one input on the real code; distinct = "
                       "(writer, grid slice, value class, observed outcome class) over points that differ from the writer's base point")
    ctx.cov["asbuilt_constants"] = asb
    for c in (cases[0], cases[len(cases) // 3], cases[-1]) + ((iso_cases[0],) if iso_cases else ()):
        ctx.sample(strip(c))
    ctx.assumptions += ["boundary slices around one base point per writer (not the full product of the option fields)",
                        "decoding with the crate's own corresponding reader, told the writer's parameters where the format carries none",
                        "dictionaries >= 768 MiB commit several GiB (aligned tables are really zero-filled): executed one at a time under a "
                        "5 GiB address-space limit with a 3000-byte input; hitting the limit is 'no verdict'; quick executes only the "
                        "768 MiB boundary on two writers and the classes refused before allocation"]
    ctx.finish()


def run_replay(ctx, path):
    rep = json.load(open(path))
    c = dict(rep["replay"]["case"])
    c.setdefault("id", "replay")
    r = dlib.run_cases_isolated("vh_opt", [c])[0]
    print(json.dumps(r, indent=1))
    obs = "Abort" if "abort" in r else r.get("class")
    if "resource" in r:
        raise ToolError("replay hit the resource limit: " + r["resource"])
    if obs in ("Panic", "OkUndecodable", "Abort"):
        ctx.violation(f"{rep['sig']['family']} writer, {rep['sig']['value']}: {obs} - {r.get('detail', r.get('stderr', ''))[:160]}", rep["sig"], rep["replay"])
    ctx.cov["evaluations"] = 1
    ctx.cov["distinct_nontrivial"] = 2
    ctx.cov["rule"] = "replay of one recorded grid point"
    ctx.finish()
