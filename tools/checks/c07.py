"""C07: results do not depend on how callers split writes, flushes and reads; a zero-length read never disturbs
the stream.

Stage 1  TLC on spec/CallPartition.tla: the caller-facing contract of writers (Conservation, PartitionIndependent,
         FlushDrained) and readers (SizeIndependent, ZeroReadNoop, EofSticky) over every call script within the
         bounds; every complete script is exported (ToJson). TLC on spec/FilterStream.tla (writer and delta machines)
         with the as-built variant constants: PartitionIndependent / ShortWriteSafe / DeltaHistory; a counter-example
         of the as-built design is replayed on the real filter writer and only an implementation witness counts.
Stage 2  every exported script is replayed, with sizes rescaled, on every real writer (LZMA with and without header,
         LZMA2, XZ incl. filter chains, LZIP, the MT writers, BCJ x 8, Delta) and every real reader (LZMA, LZMA2, XZ,
         LZIP, BCJ, Delta, BCJ2, the MT readers). Oracles: the stream decodes to the concatenation of the slices;
         the bytes read are the written ones for every size sequence; zero-length reads return 0; end is sticky.
Stage 3  API-level traces (call, size, returned size, bytes forwarded) of a sample of those runs are validated by
         TLC against Trace_CallPartition (byte-level contract) and Trace_FilterStream (filter writers, real constants).
"""
import json, os, random, time, collections
from vlib import core
from vlib.core import log, ToolError
from checks import dlib
from checks.dlib import ARCHS, ARCH_KA

MANIFEST = dict(
    level="model_checking",
    technique="TLA+ specs CallPartition (caller-facing writer/reader contract, all call scripts) and FilterStream (BCJ/Delta writer per-call state) model-checked with TLC; every TLC-enumerated call script replayed into every real writer and reader; API-level traces validated by TLC (Trace_CallPartition, Trace_FilterStream)",
    text="TLC enumerates every partition of <= 6 (thorough: 8) abstract input units into write() calls with empty writes and flush() interleaved, and every read-size sequence over {0,1,2,3,>stream}, and checks the contract (content = concatenation of slices, nothing lost at flush/finish; bytes independent of the read sizes, zero-length read is a no-op, end of stream sticky) in every state. FilterStream.tla models BCJWriter::write and DeltaWriter::write per call as coded and as intended; TLC decides PartitionIndependent / ShortWriteSafe / DeltaHistory for all head placements, partitions and sink acceptance patterns in small scope. Each exported script is replayed with rescaled sizes (1, primes, 4095/4096/4097, 65537, > stream) on all real writers and readers with byte-level oracles, and recorded API traces are accepted by the trace specifications (for the filter writers with B=4096 and the real K/A, including the model's prediction of which partitions change the output).",
    ref="4.10, 6/C07",
    note="Quick replays a sample of the exported writer scripts (about 3500 at 6 units): short scripts exhaustively with three non-uniform size tables on the plain LZMA2 / XZ writers, the rest rotating over writers and unit sizes. Small-scope: scripts of <= 9 (11) calls over <= 6 (8) units, <= 1 empty write and <= 2 flushes per script; the relation between encoded bytes forwarded and units consumed is not modelled (hidden behind the writer's nondeterministic Forward). MT writers and readers are driven outside a deterministic-runtime session (real threads).",
    ready=True,
)

UNITS = [1, 13, 4096, 4097, 1000, 65537, 4095, 3]

WRITER_TARGETS = [
    ("lzma", {"preset": 1, "dict_size": 65536}, "text"),
    ("lzma", {"preset": 4, "dict_size": 4096, "header": True}, "text"),
    ("lzma", {"preset": 0, "dict_size": 1 << 20, "end_marker": False}, "dense"),
    ("lzma2", {"preset": 1, "dict_size": 65536}, "dense"),
    ("lzma2", {"preset": 5, "dict_size": 4096, "chunk_size": 8192}, "text"),
    ("lzma2", {"preset": 3, "dict_size": 1 << 16}, "random"),
    ("xz", {"preset": 1, "dict_size": 65536, "check": "crc64"}, "dense"),
    ("xz", {"preset": 2, "dict_size": 4096, "block_size": 8192, "check": "sha256"}, "text"),
    ("xz", {"preset": 0, "dict_size": 65536, "filters": [{"t": "delta", "p": 3}]}, "text"),
    ("xz", {"preset": 0, "dict_size": 65536, "filters": [{"t": "x86", "p": 0}]}, "dense"),
    ("xz", {"preset": 0, "dict_size": 65536, "block_size": 65536, "filters": [{"t": "delta", "p": 256}, {"t": "delta", "p": 1}]}, "mixed"),
    ("xz", {"preset": 0, "dict_size": 65536, "filters": [{"t": "arm64", "p": 0}, {"t": "delta", "p": 4}]}, "dense"),
    ("lzip", {"preset": 1, "dict_size": 65536}, "dense"),
    ("lzip", {"preset": 4, "dict_size": 4096, "member_size": 8192}, "text"),
    ("lzma2mt", {"preset": 1, "dict_size": 4096, "chunk_size": 8192, "workers": 2}, "text"),
    ("lzipmt", {"preset": 1, "dict_size": 4096, "member_size": 8192, "workers": 3}, "text"),
]
READER_TARGETS = [
    ("lzma", {"preset": 1, "dict_size": 65536}, False),
    ("lzma", {"preset": 4, "dict_size": 4096, "header": True}, False),
    ("lzma", {"preset": 0, "dict_size": 65536, "header": True, "expected": "none"}, False),
    ("lzma2", {"preset": 1, "dict_size": 65536}, False),
    ("lzma2", {"preset": 5, "dict_size": 4096, "chunk_size": 8192}, False),
    ("xz", {"preset": 1, "dict_size": 65536, "check": "crc64"}, False),
    ("xz", {"preset": 2, "dict_size": 4096, "block_size": 8192, "check": "sha256"}, False),
    ("xz", {"preset": 0, "dict_size": 65536, "filters": [{"t": "delta", "p": 3}]}, False),
    ("xz", {"preset": 0, "dict_size": 65536, "block_size": 65536, "filters": [{"t": "x86", "p": 0}]}, False),
    ("xz", {"preset": 0, "dict_size": 65536, "filters": [{"t": "riscv", "p": 0}, {"t": "delta", "p": 2}]}, False),
    ("lzip", {"preset": 1, "dict_size": 65536}, False),
    ("lzip", {"preset": 4, "dict_size": 4096, "member_size": 8192}, False),
    ("lzma2mt", {"preset": 1, "dict_size": 4096, "chunk_size": 8192, "workers": 2}, True),
    ("lzipmt", {"preset": 1, "dict_size": 4096, "member_size": 8192, "workers": 3}, True),
]


def cp_consts(side, tier, **kw):
    quick = tier == "quick"
    n = 6 if quick else 8
    c = dict(Side='"%s"' % side, N=str(n), MaxCalls=str(n + 3), MaxEmpty="1", MaxFlush="2",
             WriteSizes="{" + ",".join(str(i) for i in range(1, n + 1)) + "}", ReadSizes="{1,2,3,99}",
             FlushDrains="TRUE", ShortReads="FALSE", Export="TRUE")
    c.update({k: str(v) for k, v in kw.items()})
    return c


def cp_model(consts, invariants, properties=(), workers=3):
    d, mod, cfg = core.write_model("CallPartition", consts, invariants=invariants, properties=properties)
    r = core.run_tlc(mod, cfg, workers=workers, cwd=d, timeout=1200)
    scripts = []
    for x in r.printed:
        if x.startswith('"['):
            try:
                scripts.append(json.loads(json.loads(x)))
            except Exception:
                pass
    return r, scripts


def script_class(ws):
    nw = sum(1 for x in ws if x > 0)
    return "multi_write" if nw >= 2 else "single_write"


def has(ws, v):
    return any(x == v for x in ws)


def writer_cases(scripts, tier, rnd):
    """Every script on every writer family; unit size rotates with (script, target)."""
    cases = []
    quick = tier == "quick"
    for i, sc in enumerate(scripts):
        units = sum(k for (op, k) in sc if op == "w")
        for t, (target, opts, cls) in enumerate(WRITER_TARGETS):
            if (i + t) % (12 if quick else 3) != 0:
                continue
            u = UNITS[(i + 2 * t) % len(UNITS)]
            ws = [(k * u if op == "w" else 0 if op == "e" else -1) for (op, k) in sc]
            cases.append({"bin": "vh_part", "mode": "writer", "target": target, "opts": opts, "script": ws,
                          "sink_caps": [[], [], [], [7, 0], [], [1 << 14]][(i + t) % 6],
                          "data": {"gen": cls if cls != "dense" else "dense", "len": units * u, "seed": 1000 + i, "arch": "x86"},
                          "fam": target, "unit": u, "si": i})
        for t, arch in enumerate(ARCHS + ["delta"]):
            if (i + t) % (12 if quick else 3) != 1:
                continue
            u = UNITS[(i + t) % len(UNITS)]
            ws = [(k * u if op == "w" else 0 if op == "e" else -1) for (op, k) in sc]
            c = {"bin": "vh_filter", "kind": "delta" if arch == "delta" else "bcj", "arch": "" if arch == "delta" else arch,
                 "start": 0, "dist": 1 + (i * 7) % 256, "writes": ws, "sink_caps": [[], [], [1, 0], [], [3], [4096, 1]][(i + 2 * t) % 6],
                 "data": {"gen": "dense", "len": units * u, "seed": 2000 + i, "arch": "x86" if arch == "delta" else arch},
                 "fam": "delta_writer" if arch == "delta" else "bcj_writer", "unit": u, "si": i}
            cases.append(c)
    # non-uniform concretisation: abstract slice size k -> bytes through a table, so that one script mixes large slices
    # with 1..3 byte slices. With flushes this isolates tiny pieces in mid-stream after real data (LZMA2 chunk kinds
    # LZMA, uncompressed, LZMA; a block / member that receives a few bytes after a flush).
    tab_targets = [t for t in WRITER_TARGETS if t[0] in ("lzma2", "xz", "lzip", "lzma2mt", "lzipmt")]
    primary_idx = [next(j for j, t in enumerate(tab_targets) if t[0] == "lzma2"), next(j for j, t in enumerate(tab_targets) if t[0] == "xz")]
    for i, sc in enumerate(scripts):
        if not any(op == "f" for (op, _) in sc):
            continue
        short = len(sc) <= 5
        for t, (target, opts, cls) in enumerate(tab_targets):
            # short scripts: every table on the plain LZMA2 and XZ writers (table and target must not be coupled through
            # the script index); longer scripts and the other configurations rotate
            primary = t in primary_idx
            if primary and short:
                tables = range(len(WRITE_TABLES))
            elif (i + t) % (24 if quick else 4) == 0:
                tables = [(i // 7 + t) % len(WRITE_TABLES)]
            else:
                continue
            for tn in tables:
                tab = WRITE_TABLES[tn]
                ws = [(tab[k] if op == "w" else 0 if op == "e" else -1) for (op, k) in sc]
                total = sum(x for x in ws if x > 0)
                cases.append({"bin": "vh_part", "mode": "writer", "target": target, "opts": opts, "script": ws,
                              "data": {"gen": ["text", "dense", "mixed"][(i + tn) % 3], "len": total, "seed": 8000 + i, "arch": "x86"},
                              "fam": target, "unit": "table%d" % tn, "si": i})
    for j, c in enumerate(cases):
        c["id"] = f"w{j}"
    return cases


# abstract slice size -> bytes; in every table size 1 (and one more) is a 1..3 byte piece and sizes 2, 3 are real data
WRITE_TABLES = [{1: 2, 2: 3000, 3: 70000, 4: 1, 5: 9000, 6: 200000, 7: 3, 8: 40000},
                {1: 1, 2: 70000, 3: 5000, 4: 3, 5: 2, 6: 100000, 7: 66000, 8: 1},
                {1: 3, 2: 200000, 3: 66000, 4: 2500, 5: 1, 6: 2, 7: 8192, 8: 4097}]
# source chunk patterns that end the reader's filter calls at every offset relative to an instruction
SWEEP_CHUNKS = [[3], [5, 2], [7, 1, 4], [6], [2, 9], [4, 8, 1], [11], [13, 3], [0], [4095, 7, 1], [10, 1, 1], [9]]
READ_TABLES = [{0: 0, 1: 1, 2: 4096, 3: 4097, 99: 1 << 20}, {0: 0, 1: 13, 2: 4095, 3: 7, 99: 1 << 22},
               {0: 0, 1: 3, 2: 2, 3: 65537, 99: 1 << 21}]


def reader_cases(scripts, tier, rnd):
    cases = []
    quick = tier == "quick"
    fam_list = [("codec", t) for t in READER_TARGETS] + [("bcj", a) for a in ARCHS] + [("delta", None), ("bcj2", None)]
    for i, sc in enumerate(scripts):
        for t, (fk, ft) in enumerate(fam_list):
            if (i + t) % (8 if quick else 3) != 0:
                continue
            tab = READ_TABLES[(i + t) % len(READ_TABLES)]
            reads = [tab[k] for (_, k) in sc]
            if all(x == 0 for x in reads):
                reads.append(4096)
            chunks = [[0], [1], [4096, 13], [7]][(i + 3 * t) % 4]
            n = [6000, 20011, 40000][(i + t) % 3]
            if any(0 < x <= 3 for x in reads) and sum(1 for x in reads if x > 100) == 0:
                n = 1500          # byte-sized reads only: keep the call count bounded
            if fk == "codec":
                target, opts, mt = ft
                gen_, n_ = ("text" if (i % 2) else "dense"), n
                if mt and n > 1500:
                    # several work units: LZMA2Writer cuts independent chunks only when it emits chunks, which needs
                    # enough poorly compressible data (64 KiB of output per chunk)
                    gen_, n_ = ("random" if (i % 2) else "mixed"), 200000
                cases.append({"bin": "vh_part", "mode": "reader", "target": target, "opts": opts, "mt": mt, "reads": reads, "src_chunks": chunks,
                              "data": {"gen": gen_, "len": n_, "seed": 3000 + i, "arch": "x86"},
                              "fam": target + "_reader", "si": i})
            elif fk == "bcj":
                cases.append({"bin": "vh_filter", "kind": "bcj", "arch": ft, "start": 0, "reads": reads, "src_chunks": chunks,
                              "data": {"gen": "dense", "len": n, "seed": 4000 + i}, "fam": "bcj_reader", "si": i})
            elif fk == "delta":
                cases.append({"bin": "vh_filter", "kind": "delta", "dist": 1 + (i * 5) % 256, "reads": reads, "src_chunks": chunks,
                              "data": {"gen": "random", "len": n, "seed": 5000 + i}, "fam": "delta_reader", "si": i})
            else:
                cases.append({"bin": "vh_filter", "kind": "bcj2", "policy": [0, 100, 40][i % 3], "reads": reads, "src_chunks": chunks,
                              "data": {"gen": "dense", "len": n, "seed": 6000 + i, "arch": "x86"}, "fam": "bcj2_reader", "si": i})
    # call-boundary sweep of the BCJ readers: opcode-dense code (x86: E8 / E9 one to four bytes apart with every kind of
    # high byte) read through small, varying source chunks, so that BCJReader's filter calls end at every offset
    # relative to an opcode pair and coder state carried between calls (x86 prev_mask) decides the bytes
    archs = ARCHS + ["x86", "x86"]
    for i, sc in enumerate(scripts):
        if quick and i % 3 != 0:
            continue
        arch = archs[i % len(archs)]
        tab = READ_TABLES[i % len(READ_TABLES)]
        reads = [tab[k] for (_, k) in sc]
        if all(x == 0 for x in reads):
            reads.append(4096)
        if any(0 < x <= 3 for x in reads) and not any(x > 100 for x in reads):
            reads.append(4095)
        cases.append({"bin": "vh_filter", "kind": "bcj", "arch": arch, "start": 0, "reads": reads,
                      "src_chunks": SWEEP_CHUNKS[(i // len(archs)) % len(SWEEP_CHUNKS)],
                      "data": {"gen": "opdense", "len": [9000, 21000, 4100][i % 3], "seed": 9000 + i}, "fam": "bcj_reader", "si": i})
    for j, c in enumerate(cases):
        c["id"] = f"r{j}"
    return cases


def strip(c):
    return {k: v for k, v in c.items() if k not in ("bin", "fam", "unit", "si")}


def run_all(cases):
    by = collections.defaultdict(list)
    for c in cases:
        by[c["bin"]].append(c)
    out = {}
    for b, cs in by.items():
        rs = dlib.run_cases(b, [strip(c) for c in cs], timeout=2400, per_batch=30)
        for c, r in zip(cs, rs):
            out[c["id"]] = r
    return [out[c["id"]] for c in cases]


def filt_of(opts):
    fs = [f["t"] for f in opts.get("filters", [])]
    if any(f not in ("delta",) for f in fs):
        return "bcj"
    return "delta" if fs else "none"


def judge_writer(ctx, c, r, classes):
    if r.get("tool_error"):
        raise ToolError(f"{c['bin']}: {r['tool_error']}")
    fam = c["fam"]
    ws = c.get("script", c.get("writes", []))
    cls = script_class(ws)
    sig = {"family": fam, "class": cls, "sink": "short" if any(x > 0 for x in c.get("sink_caps", [])) else "full"}
    if c["bin"] == "vh_part":
        sig["filter"] = filt_of(c["opts"])
        if c["data"]["len"] == 0:
            sig["class"] = "empty_input"
    rep = {"case": strip(c), "bin": c["bin"]}
    feat = (fam, sig.get("filter", ""), cls, "e" if has(ws, 0) else "", "f" if has(ws, -1) else "", c.get("unit"), sig["sink"])
    if r.get("panic"):
        ctx.violation(f"{fam}: panic under call script {ws}: {r['panic']}", dict(sig, outcome="panic"), rep)
        return
    w = r.get("write", "")
    if w != "ok":
        # the slices were valid input: an error (or panic) from write / flush / finish means the content was not encoded
        ctx.violation(f"{fam}: {w} under call script {ws}", dict(sig, outcome="panic" if w.startswith("panic") else "error"), rep)
        return
    ok = r.get("dec_ok") if c["bin"] == "vh_part" else r.get("dec_of_partitioned_ok")
    if ok is not True:
        ctx.violation(f"{fam}{'+' + sig['filter'] if sig.get('filter', 'none') != 'none' else ''}: the stream written with call script {ws} (unit {c.get('unit')}) does not decode to the "
                      f"concatenation of the slices (first difference at byte {r.get('dec_first_diff')}, decoder: {r.get('dec_err')})",
                      dict(sig, outcome="wrong_content"), rep)
        return
    classes.add(feat)


def judge_reader(ctx, c, r, classes):
    if r.get("tool_error"):
        raise ToolError(f"{c['bin']}: {r['tool_error']}")
    fam = c["fam"]
    reads = c["reads"]
    rep = {"case": strip(c), "bin": c["bin"]}
    zero = 0 in reads
    sig = {"family": fam, "class": "zero_read" if zero else "read_sizes"}
    if c["bin"] == "vh_part":
        sig["filter"] = filt_of(c["opts"])
        if r.get("stream") != "ok":
            # the one-shot writer failed: not a reader verdict (reported by the writer side / C19)
            return
        ok, err = r.get("bytes_ok"), r.get("read_err")
    else:
        if r.get("panic"):
            ctx.violation(f"{fam}: panic with read sizes {reads}: {r['panic']}", dict(sig, outcome="panic"), rep)
            return
        if r.get("oneshot", "ok") != "ok":
            return
        ok, err = r.get("rt_ok"), r.get("rt_err")
    if ok is not True:
        ctx.violation(f"{fam}: bytes read with destination sizes {reads} (source chunks {c.get('src_chunks')}) differ from the content "
                      f"(first difference {r.get('first_diff', r.get('rt_first_diff'))}, got {r.get('got_len', r.get('rt_len'))} of {r.get('n')} bytes, error: {err}; {ok})",
                      dict(sig, outcome="wrong_bytes" if not err else "error"), rep)
        return
    if r.get("zero_ok") is not True:
        ctx.violation(f"{fam}: a zero-length read did not return Ok(0)", dict(sig, outcome="zero_nonzero"), rep)
        return
    if r.get("after_eof_ok") is not True:
        ctx.violation(f"{fam}: a read after end of stream did not return Ok(0)", dict(sig, **{"class": "after_eof", "outcome": "not_sticky"}), rep)
        return
    classes.add((fam, sig.get("filter", ""), "z" if zero else "", tuple(sorted(set(min(x, 70000) for x in reads)))[:4], tuple(c.get("src_chunks", []))))


def ev(op, **kw):
    e = {"op": op, "n": 0, "ret": 0, "total": 0, "ok": 0, "len": 0}
    e.update(kw)
    return e


def cp_trace(r, side):
    out = [ev("Reset", total=r["n"])]
    for e in r.get("events", []) or r.get("wevents" if side == "writer" else "revents", []):
        out.append(ev(e["op"], n=e.get("n", 0), ret=e.get("ret", 0)))
    if side == "writer":
        if "dec_ok" in r or "dec_of_partitioned_ok" in r:
            ok = r.get("dec_ok", r.get("dec_of_partitioned_ok"))
            if "events" not in r:
                out.append(ev("Finish"))            # filter writers have no finish: end of the script
            out.append(ev("Obs", ok=1 if ok is True else 0, len=r["n"]))
    else:
        ok = r.get("bytes_ok", r.get("rt_ok"))
        out.append(ev("Obs", ok=1 if ok is True else 0, len=r["n"]))
    return out


def run(tier, replay=None):
    ctx = core.Check("C07", tier, "model_checking")
    core.build_harness()
    if replay:
        return run_replay(ctx, replay)
    quick = tier == "quick"
    rnd = random.Random(ctx.seed)
    wclasses, rclasses = set(), set()

    # ---------------------------------------------------------------- stage 1: TLC
    t0 = time.time()
    fsA = dlib.FS_ASBUILT
    hc = dlib.head_choices
    jobs = {
        "cp writer": lambda: cp_model(cp_consts("writer", tier), ["Conservation", "PartitionIndependent", "FlushDrained"]),
        "cp writer noflush": lambda: cp_model(cp_consts("writer", tier, FlushDrains="FALSE", Export="FALSE", N=5, MaxCalls=8, WriteSizes="{1,2,3,4,5}"),
                                              ["Conservation", "PartitionIndependent"]),
        "cp reader": lambda: cp_model(cp_consts("reader", tier), ["SizeIndependent"], ["ZeroReadNoop", "EofSticky"]),
        "cp reader short": lambda: cp_model(cp_consts("reader", tier, ShortReads="TRUE", Export="FALSE", N=5, MaxCalls=8),
                                            ["SizeIndependent"], ["ZeroReadNoop", "EofSticky"]),
        "cp witnesses w": lambda: cp_model(cp_consts("writer", tier, Export="FALSE", N=3, MaxCalls=6, WriteSizes="{1,2,3}"), ["WitnessInterleaved"]),
        "cp witnesses r": lambda: cp_model(cp_consts("reader", tier, Export="FALSE", N=3, MaxCalls=6), ["WitnessZeroMid"]),
        # filter writers, as built
        "fs writer asbuilt": lambda: dlib.fs_model(dlib.fs_consts("writer", Lens="{6}", HeadChoices=hc(range(6), 3, 2)),
                                                   ["TypeOK", "PartitionIndependent", "ShortWriteSafe"], workers=2),
        "fs writer intended": lambda: dlib.fs_model(dlib.fs_consts("writer", Lens="{6}", HeadChoices=hc(range(6), 3, 2 if quick else 6), Buffered="TRUE", WriteAll="TRUE"),
                                                    ["TypeOK", "PartitionIndependent", "ShortWriteSafe"], workers=2),
        "fs delta asbuilt": lambda: dlib.fs_model(dlib.fs_consts("delta", Lens="{6}"), ["DeltaHistory"], workers=2),
    }
    names = list(jobs)
    res = dict(zip(names, dlib.parallel([jobs[n] for n in names], workers=5)))
    for n in names:
        r = res[n][0]
        ctx.note_tlc(n, r)
        log(f"[tlc] {n}: {r}")
    for n in ("cp witnesses w", "cp witnesses r"):
        if res[n][0].ok:
            raise ToolError(f"vacuous model: {n} never violated")
    for n in ("cp writer", "cp writer noflush", "cp reader", "cp reader short", "fs writer intended"):
        if not res[n][0].ok:
            raise ToolError(f"TLC reports {res[n][0].violated} for {n}: the contract / intended design must hold")
    wscripts, rscripts = res["cp writer"][1], res["cp reader"][1]
    if len(wscripts) < 50 or len(rscripts) < 50:
        raise ToolError(f"script export failed: {len(wscripts)} writer / {len(rscripts)} reader scripts")
    ctx.cov["writer_scripts"] = len(wscripts)
    ctx.cov["reader_scripts"] = len(rscripts)
    log(f"[stage1] TLC done in {time.time()-t0:.1f}s: {len(wscripts)} writer scripts, {len(rscripts)} reader scripts")

    # as-built filter-writer design: a TLC counter-example needs an implementation witness
    cex_cases = []
    for n, fam in (("fs writer asbuilt", "bcj_writer"), ("fs delta asbuilt", "delta_writer")):
        r = res[n][0]
        if r.ok:
            continue
        c = cex_to_case(r, fam)
        c["id"] = "cex-" + fam
        cex_cases.append((n, fam, r, c))
    need_witness = []
    if cex_cases:
        rs = run_all([c for (_, _, _, c) in cex_cases])
        for (n, fam, r, c), out in zip(cex_cases, rs):
            before = len(ctx.violations) + sum(h["count"] for h in ctx.known_hits)
            judge_writer(ctx, c, out, wclasses)
            after = len(ctx.violations) + sum(h["count"] for h in ctx.known_hits)
            if after == before:
                need_witness.append((n, fam, r))       # the rescaled counter-example did not reproduce: stage 2 must
            else:
                ctx.add("design_counterexamples_reproduced")
    # regression probes: schedules of the regressed designs replayed into the current code
    probes = []
    if fsA["WriteAll"] == "TRUE":
        probes.append(("bcj_writer", dlib.fs_consts("writer", Lens="{6}", HeadChoices=hc(range(6), 3, 1), WriteAll="FALSE"), ["ShortWriteSafe"]))
    if fsA["DeltaWriteAll"] == "TRUE":
        probes.append(("delta_writer", dlib.fs_consts("delta", Lens="{6}", WriteAll="FALSE"), ["DeltaHistory"]))
    pr = dlib.parallel([(lambda p=p: dlib.fs_model(p[1], p[2], workers=2)) for p in probes], workers=3) if probes else []
    pcases = []
    for (fam, consts, invs), (r, _) in zip(probes, pr):
        ctx.add("regression_models_checked")
        if not r.ok:
            c = cex_to_case(r, fam)
            c["id"] = "probe-" + fam
            pcases.append(c)
    for c, out in zip(pcases, run_all(pcases) if pcases else []):
        judge_writer(ctx, c, out, wclasses)
        ctx.add("regression_probes")

    # ---------------------------------------------------------------- stage 2: replay of every script
    t0 = time.time()
    wc = writer_cases(wscripts, tier, rnd)
    rc = reader_cases(rscripts, tier, rnd)
    # a sample of runs is traced for stage 3
    n_tr = 60 if quick else 200
    for cs in (wc, rc):
        idx = list(range(len(cs)))
        rnd.shuffle(idx)
        seen = collections.Counter()
        for i in idx:
            c = cs[i]
            if seen[c["fam"]] < max(4, n_tr // 12) and c["data"]["len"] <= 30000:
                c["trace"] = True
                seen[c["fam"]] += 1
    wres = run_all(wc)
    rres = run_all(rc)
    for c, r in zip(wc, wres):
        judge_writer(ctx, c, r, wclasses)
    for c, r in zip(rc, rres):
        judge_reader(ctx, c, r, rclasses)
    log(f"[stage2] {len(wc)} writer runs + {len(rc)} reader runs in {time.time()-t0:.1f}s")
    for (n, fam, r) in need_witness:
        hit = any(v["sig"].get("family") == fam for v in ctx.violations) or \
              any(k["match"].get("family") == fam for k in ctx.known if k["id"] in [h["id"] for h in ctx.known_hits])
        if not hit:
            raise ToolError(f"TLC reports {r.violated} for the as-built design '{n}' but no run of the real {fam} reproduces it: "
                            f"the model misrepresents the code (update spec/asbuilt.json if the code was repaired)")
        ctx.add("design_counterexamples_reproduced")
    fams_w = set(c[0] for c in wclasses)
    fams_r = set(c[0] for c in rclasses)
    for need in ("lzma", "lzma2", "xz", "lzip", "lzma2mt", "lzipmt", "delta_writer"):
        if need not in fams_w and not ctx.violations and not ctx.known_hits:
            raise ToolError(f"vacuous replay: no passing writer run for {need}")
    # the MT readers must have handed out several work units / members in runs that contain a zero-length read
    for fam in ("lzma2mt_reader", "lzipmt_reader"):
        multi = [r.get("units") or 0 for c, r in zip(rc, rres) if c["fam"] == fam and 0 in c["reads"]]
        ctx.cov[fam + "_max_units_with_zero_read"] = max(multi) if multi else 0
        if (not multi or max(multi) < 2) and not ctx.violations:
            raise ToolError(f"vacuous replay: no {fam} run with a zero-length read saw more than one work unit ({multi[:5]})")
    for need in ("lzma_reader", "lzma2_reader", "lzip_reader", "bcj_reader", "delta_reader", "bcj2_reader", "lzma2mt_reader", "lzipmt_reader"):
        if need not in fams_r and not ctx.violations:
            raise ToolError(f"vacuous replay: no passing reader run for {need}")

    # ---------------------------------------------------------------- stage 3: trace validation
    t0 = time.time()
    wruns = [cp_trace(r, "writer") for c, r in zip(wc, wres) if c.get("trace") and (r.get("write") == "ok") and
             (r.get("dec_ok", r.get("dec_of_partitioned_ok")) is True) and len(r.get("events", r.get("wevents", []))) < 1500]
    rruns = [cp_trace(r, "reader") for c, r in zip(rc, rres) if c.get("trace") and r.get("bytes_ok", r.get("rt_ok")) is True and
             len(r.get("events", r.get("revents", []))) < 1500]
    # filter writers against FilterStream with the real constants (known-head code, the model predicts eq)
    fcases = []
    for i in range(16 if quick else 60):
        sc = wscripts[rnd.randrange(len(wscripts))]
        arch = ARCHS[i % len(ARCHS)] if i % 4 else "x86"
        if arch == "ia64":
            arch = "armthumb"
        u = [1, 3, 4, 7, 16, 100][i % 6]
        units = sum(k for (op, k) in sc if op == "w")
        ws = [(k * u if op == "w" else 0 if op == "e" else -1) for (op, k) in sc]
        cuts = [sum(x for x in ws[:j] if x > 0) for j in range(len(ws))]
        fcases.append({"id": f"f{i}", "bin": "vh_filter", "kind": "bcj", "arch": arch, "start": 0, "writes": ws, "trace": True,
                       "sink_caps": [[], [0], [1, 0], [3]][i % 4],
                       "data": {"gen": "known", "len": units * u, "seed": 7000 + i, "density": 60, "force": [max(0, x - 2) for x in cuts]},
                       "fam": "bcj_writer", "unit": u, "si": i})
    fres = run_all(fcases)
    fruns = collections.defaultdict(list)
    for c, r in zip(fcases, fres):
        judge_writer(ctx, c, r, wclasses)
        if r.get("panic") or r.get("write") != "ok":
            continue
        evs = [dlib.reset_event("writer", r)] + dlib.norm_events(r["wevents"]) + \
              [{"op": "End", "n": 0, "ret": 0, "len": 0, "heads": [], "dist": 0, "eq": 1 if r.get("enc_eq_oneshot") else 0}]
        fruns[c["arch"]].append(evs)

    def val_cp(side, runs):
        lines = [json.dumps(e) for run_ in runs for e in run_]
        ok, reached, total, r = core.validate_events("Trace_CallPartition", {"Side": '"%s"' % side}, lines, invariants=("Track",), timeout=900)
        return ("cp " + side, len(runs), ok, reached, total, lines[reached] if (reached is not None and reached < len(lines)) else "?", r)

    def val_fs(arch, runs):
        ok, reached, total, nxt, r = dlib.validate_runs(ctx, f"writer {arch}", dlib.fs_trace_consts("writer", arch), runs)
        return ("fs writer " + arch, len(runs), ok, reached, total, nxt, r)
    vjobs = []
    if wruns:
        vjobs.append(lambda: val_cp("writer", wruns))
    if rruns:
        vjobs.append(lambda: val_cp("reader", rruns))
    for arch, runs in fruns.items():
        vjobs.append(lambda a=arch, rr=runs: val_fs(a, rr))
    accepted = 0
    for (name, n, ok, reached, total, nxt, r) in dlib.parallel(vjobs, workers=5):
        if name.startswith("cp"):
            ctx.note_tlc("trace " + name, r)
        if ok:
            accepted += n
        else:
            ctx.add("trace_groups_rejected")
            ctx.note_drift(f"trace spec rejected {name} after event {reached} of {total}; next event {nxt}"
                           + (f" (TLC: {r.violated})" if r.violated and r.violated != "postcondition" else ""))
    ctx.cov["traces_validated_against_impl"] = accepted
    if accepted == 0:
        raise ToolError("no API trace was accepted by the trace specifications")
    log(f"[stage3] {accepted} traces accepted by TLC in {time.time()-t0:.1f}s")

    ctx.cov["evaluations"] = len(wc) + len(rc) + len(fcases)
    ctx.cov["distinct_nontrivial"] = len(wclasses) + len(rclasses)
    ctx.cov["rule"] = ("one evaluation = one TLC-enumerated call script on one real writer / reader; distinct = (family, filter chain kind, "
                       "script class, empty write?, flush?, unit size) for writers and (family, zero read?, size set, source chunks) for readers, passing runs only")
    for c in (wc[0], wc[len(wc) // 2], rc[0], rc[-1]):
        ctx.sample(strip(c))
    ctx.cov["samples"] += [json.dumps(wscripts[-1]), json.dumps(rscripts[-1])]
    ctx.assumptions += ["small scope: <= 6 (8) units, <= 9 (11) calls, <= 1 empty write, <= 2 flushes per script",
                        "MT writers / readers driven with real threads (no deterministic runtime session)",
                        "encoded-byte counts forwarded to the sink are not related to units in the contract"]
    ctx.finish()


def cex_to_case(r, fam):
    """FilterStream counter-example (writer / delta machine) -> vh_filter case on known-head x86 code."""
    writes, caps, heads, n, dist = [], [], [], 0, 1
    for s in r.trace[1:]:
        name, args = dlib.parse_label(s["action"])
        if name in ("WChoose",):
            n = int(args[0])
            heads = dlib.parse_heads(args[1])
        elif name == "DChoose":
            n, dist = int(args[0]), int(args[1])
        elif name == "WWrite":
            writes.append(int(args[0]))
            caps += [int(args[1]), int(args[2])]
        elif name == "DWrite":
            writes.append(int(args[0]))
            caps.append(int(args[1]))
    u = 5 if fam == "bcj_writer" else 1
    # model K = 3 -> x86 K = 5: scale sizes by 5/3 rounding so that a tail of 1..2 stays a tail of 1..4
    if fam == "bcj_writer":
        ws = [w * 2 if w < 99 else 1 << 20 for w in writes]
        ln = n * 2
        force = [h * 2 for h, _ in heads]
        return {"bin": "vh_filter", "kind": "bcj", "arch": "x86", "start": 0, "writes": ws, "sink_caps": [0 if c >= 99 else c for c in caps] or [0],
                "data": {"gen": "known", "len": max(ln, 12), "seed": 1, "density": 0, "force": force or [2]},
                "fam": fam, "unit": u, "si": -1}
    return {"bin": "vh_filter", "kind": "delta", "arch": "", "dist": dist, "writes": [w * 50 if w < 99 else 1 << 20 for w in writes],
            "sink_caps": [0 if c >= 99 else c for c in caps] or [0],
            "data": {"gen": "random", "len": max(n, 6) * 50, "seed": 1}, "fam": fam, "unit": 1, "si": -1}


def run_replay(ctx, path):
    rep = json.load(open(path))
    c = dict(rep["replay"]["case"])
    c["bin"] = rep["replay"]["bin"]
    c["fam"] = rep["sig"]["family"]
    c.setdefault("id", "replay")
    r = run_all([c])[0]
    if c.get("mode") == "reader" or (c["bin"] == "vh_filter" and "writes" not in c):
        judge_reader(ctx, c, r, set())
    else:
        judge_writer(ctx, c, r, set())
    print(json.dumps({k: v for k, v in r.items() if k not in ("events", "revents", "wevents")}, indent=1))
    ctx.cov["traces_validated_against_impl"] = 0
    ctx.cov["states"] = 0
    ctx.cov["transitions"] = 0
    ctx.finish()
