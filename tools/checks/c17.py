"""C17: memory estimators are sound and within a small constant factor; memory limits are enforced before allocation.

Stage 1  TLC on spec/MemModel.tla: with the intended formulas (UnitsFixed, HashTermFixed) the estimators are Sound
         (estimate >= allocation inventory) and Tight (estimate <= 2 * inventory + 256 KiB) on the whole grid
         (dictionary 4 KiB .. 768 MiB x mode x match finder x lc+lp x LZMA / LZMA2), decoders included; with the
         as-built constants (spec/asbuilt_mem.json) every grid point is exported with the value each estimator
         must return and the inventory it must allocate.
Stage 2  on the real code: (a) the public estimators are called for every grid point (pure arithmetic) and must
         return exactly the model's values; (b) for dictionaries up to 32 MiB (thorough: 256 MiB) the object is
         really constructed and used under a counting global allocator: peak <= estimate * 1024 and
         estimate <= 2 * peak + 256 KiB, and the peak must be what the inventory predicts; readers are measured
         while decoding streams of every LZMA2 chunk kind (LZMA chunks, uncompressed chunks, both) through caller
         buffers from 1 byte to larger than any chunk; (c) LZMAReader::
         new_mem_limit over forged .lzma headers x limits: need > limit => OutOfMemory with < 1 KiB allocated.
Stage 3  the measurements are validated by TLC as a trace against Trace_MemModel (formula and inventory binding).
"""
import json, os, time, collections
from vlib import core
from vlib.core import log, ToolError
from checks import dlib

MANIFEST = dict(
    level="exploration",
    technique="TLA+ spec MemModel (allocation inventory and estimator formulas, as-built and intended variants) checked by TLC over the option grid; every grid point's estimator values compared exactly with the real functions; real peak heap measured with a counting global allocator and validated by TLC as a trace (Trace_MemModel)",
    text="MemModel.tla transcribes what the encoder allocates (window buffer, hash2/3/4, chain or tree, optimum array, literal coders, LZMA2 range-coder buffer) and what the decoders allocate, and the four public estimator formulas in u32 KiB arithmetic; TLC checks Estimate >= Alloc and Estimate <= 2*Alloc + 256 KiB on the grid dictionary {4 KiB .. 768 MiB} x mode x match finder x lc+lp for the intended formulas. The model is bound to the code three ways: the real estimators must return exactly the model's value on every grid point; the peak heap measured by a counting global allocator around real construction + use (dictionaries <= 32 MiB quick, 256 MiB thorough) must match the inventory within 24 KiB and satisfy the two inequalities on the measured numbers; and the measurements are accepted as a trace by TLC. Writers are also measured when constructed with a preset dictionary (0, 4 KiB, dict, 3 x dict): the estimate does not depend on it, so neither may the peak. LZMAReader::new_mem_limit is run over forged .lzma headers (dictionary x props x uncompressed-size field: unknown, small, around the dictionary, 2^32, 2^32 + 16, 2^64 - 2) x limits around the need: above the limit it must fail with OutOfMemory having allocated < 1 KiB.",
    ref="4.11, 6/C17",
    note="Allocator overhead, fragmentation and RSS are not measured (requested bytes of the Rust allocator API). Peaks above 32 MiB (quick) / 256 MiB (thorough) dictionaries are not measured: for those the claim rests on the inventory formula validated on the smaller ones. pb = 2 and nice_len = 64 are fixed in the measured grid (they only size price tables of a few KiB). 'Small constant factor' is read as estimate <= 2 * peak + 256 KiB.",
    ready=True,
)

ASB_FILE = os.path.join(core.VERIF, "spec", "asbuilt_mem.json")
MiB = 1 << 20
DICTS = [4096, 4097, 65536, 100000, 1 * MiB, 8 * MiB, 32 * MiB, 256 * MiB, 768 * MiB]
C_FACTOR, K_ADD, SLACK = 2, 256, 24


def asbuilt():
    d = {"UnitsFixed": "FALSE", "HashTermFixed": "FALSE"}
    if os.path.exists(ASB_FILE):
        d.update(json.load(open(ASB_FILE)).get("mem", {}))
    return d


def mem_model(consts, invariants, export):
    c = dict(consts)
    c["Dicts"] = "{" + ",".join(str(d) for d in DICTS) + "}"
    c["Export"] = "TRUE" if export else "FALSE"
    d, mod, cfg = core.write_model("MemModel", c, invariants=list(invariants) + (["Exported"] if export else []))
    r = core.run_tlc(mod, cfg, workers=1 if export else 2, cwd=d, timeout=600)
    pts = []
    for x in r.printed:
        if x.startswith('"{'):
            try:
                pts.append(json.loads(json.loads(x)))
            except Exception:
                pass
    return r, pts


def opts_of(p, lc=None):
    lclp = p["lclp"]
    lc_ = {0: 0, 3: 3, 4: 0, 8: 4}[lclp] if lc is None else lc
    lp_ = lclp - lc_
    return {"preset": 1, "dict_size": p["dict"], "mode": p["mode"], "mf": p["mf"], "lc": lc_, "lp": lp_, "pb": 2, "nice_len": 64}


def dict_class(d):
    return "<=64K" if d <= 65536 else "<=8M" if d <= 8 * MiB else "<=32M" if d <= 32 * MiB else ">32M"


def kib(b):
    return (b + 1023) // 1024


def run(tier, replay=None):
    ctx = core.Check("C17", tier, "exploration")
    core.build_harness()
    if replay:
        return run_replay(ctx, replay)
    quick = tier == "quick"
    asb = asbuilt()
    stats = collections.Counter()
    # ---------------------------------------------------------------- stage 1
    t0 = time.time()
    fixed = {"UnitsFixed": "TRUE", "HashTermFixed": "TRUE"}
    (r_fix, _), (r_asb, pts) = dlib.parallel([lambda: mem_model(fixed, ["Sound", "Tight", "DecSound", "DecTight"], False),
                                              lambda: mem_model(asb, [], True)], workers=2)
    ctx.note_tlc("MemModel intended formulas", r_fix)
    ctx.note_tlc("MemModel as-built (export)", r_asb)
    log(f"[tlc] intended: {r_fix}; as-built export: {r_asb}, {len(pts)} points")
    if not r_fix.ok:
        raise ToolError(f"MemModel.tla: the intended formulas violate {r_fix.violated}: " + (r_fix.trace[-1]["text"] if r_fix.trace else ""))
    if len(pts) != r_asb.distinct or len(pts) < 100:
        raise ToolError(f"grid export incomplete: {len(pts)} of {r_asb.distinct}")
    model_bad = [x for x in pts if not (x["est"] >= x["alloc"] and x["est"] <= C_FACTOR * x["alloc"] + K_ADD)]
    log(f"[stage1] {len(pts)} grid points; the as-built formulas are outside Sound/Tight on {len(model_bad)} of them ({time.time()-t0:.1f}s)")

    # ---------------------------------------------------------------- stage 2a: estimator values, every grid point
    t0 = time.time()
    est_cases = [{"id": f"e{i}", "kind": "est", "opts": opts_of(x["point"])} for i, x in enumerate(pts)]
    # dictionary sizes no writer accepts: the estimator must still not panic
    for j, d in enumerate([0, 1, 0x60000000, 0x80000000, 0xFFFFFFF0, 0xFFFFFFFF]):
        est_cases.append({"id": f"x{j}", "kind": "est", "opts": {"preset": 1, "dict_size": d, "mode": "normal", "mf": "bt4"}})
    eres = dlib.run_cases("vh_mem", est_cases, nproc=4)
    formula_mismatch = []
    trace = []
    for c, r in zip(est_cases, eres):
        if r.get("tool_error"):
            raise ToolError(f"vh_mem: {r['tool_error']}")
        for key in ("enc_kib", "dec_lzma_kib", "dec_lzma2_kib"):
            v = r.get(key)
            if isinstance(v, str) and v.startswith("panic"):
                ctx.violation(f"estimator {key} panics for dict_size={c['opts']['dict_size']}: {v}",
                              {"family": "estimator", "estimator": key, "class": "estimator_panic"}, {"case": c})
        if not c["id"].startswith("e"):
            continue
        x = pts[int(c["id"][1:])]
        p = x["point"]
        got = (r.get("enc_kib"), r.get("dec_lzma_kib"), r.get("dec_lzma2_kib"))
        want = (x["est"], x["dlz"], x["dlz2"])
        if got != want:
            formula_mismatch.append((p, want, got))
        elif p["kind"] == "lzma2":
            trace.append({"op": "Est", "kind": p["kind"], "dict": p["dict"], "mode": p["mode"], "mf": p["mf"], "lclp": p["lclp"],
                          "est": got[0], "dlz": got[1], "dlz2": got[2], "peak": 0})
    stats["estimator_values_equal_model"] = len(pts) - len(formula_mismatch)
    for (p, want, got) in formula_mismatch[:5]:
        ctx.note_drift(f"MemModel.tla (as-built) gives (enc, lzma dec, lzma2 dec) = {want} KiB for {p} but the code returns {got}")

    # ---------------------------------------------------------------- stage 2b: measured peaks
    dmax = (32 if quick else 256) * MiB
    meas = []
    for i, x in enumerate(pts):
        p = x["point"]
        if p["dict"] > dmax:
            continue
        if quick and p["dict"] >= 8 * MiB and p["lclp"] != 3:
            continue
        meas.append({"id": f"m{i}", "kind": "enc_" + p["kind"], "opts": opts_of(p), "input_len": min(p["dict"] + 200000, 2 * MiB), "data": "text", "pi": i})
    # writers constructed WITH a preset dictionary: the estimate does not grow with the preset, so the peak must not either
    # (set_preset_dict copies into the window; any kept or temporary copy shows up as peak > estimate / > inventory)
    for i, x in enumerate(pts):
        p = x["point"]
        if p["lclp"] != 3 or p["dict"] not in (4096, 65536, 1 * MiB, 8 * MiB):
            continue
        for n in sorted(set([0, 4096, p["dict"], min(3 * p["dict"], 3 * MiB)])):
            o = opts_of(p)
            o["preset_dict"] = n
            meas.append({"id": f"mp{i}-{n}", "kind": "enc_" + p["kind"], "opts": o, "input_len": min(p["dict"] + 200000, 2 * MiB), "data": "text", "pi": i, "preset": n})
    dec = []
    for d in [4096, 65536, 1 * MiB, 8 * MiB] + ([] if quick else [64 * MiB]):
        for lclp in (0, 3, 4, 8):
            dec.append({"id": f"dl-{d}-{lclp}", "kind": "dec_lzma", "opts": opts_of({"dict": d, "mode": "fast", "mf": "hc4", "lclp": lclp}), "input_len": min(d + 100000, 2 * MiB), "dict": d, "lclp": lclp})
            if lclp <= 4:
                dec.append({"id": f"d2-{d}-{lclp}", "kind": "dec_lzma2", "opts": opts_of({"dict": d, "mode": "fast", "mf": "hc4", "lclp": lclp}), "input_len": min(d + 100000, 2 * MiB), "dict": d, "lclp": lclp})
    # the RUNNING reader: streams made of every chunk kind (LZMA chunks from compressible data, uncompressed chunks from
    # incompressible data, both) read through caller buffers from one byte to larger than any chunk. The estimate is a function of
    # (dict_size, props) alone, so neither the content nor the caller's buffer size may show up in the reader's own heap.
    read_lens = [1, 4096, 65536, 1 * MiB, 3 * MiB]
    k = 0
    for d in [4096, 65536, 8 * MiB] + ([] if quick else [1 * MiB, 64 * MiB]):
        for data in ("random", "text+random", "mixed", "text") + (() if quick else ("random+text",)):
            for rl in read_lens:
                if data == "text" and rl == 65536:
                    continue                     # the base case above
                k += 1
                for kind, lclp in (("dec_lzma2", (0, 3, 4)[k % 3]), ("dec_lzma", (0, 3, 8)[k % 3])):
                    if kind == "dec_lzma" and (k % 2 or data == "mixed") and quick:
                        continue
                    dec.append({"id": f"{kind}-{d}-{lclp}-{data}-{rl}", "kind": kind, "opts": opts_of({"dict": d, "mode": "fast", "mf": "hc4", "lclp": lclp}),
                                "input_len": min(d + 100000, 2 * MiB), "dict": d, "lclp": lclp, "data": data, "read_len": rl})
    strip = lambda c: {k: v for k, v in c.items() if k not in ("pi", "dict", "lclp", "preset")}
    big = [c for c in meas if c["opts"]["dict_size"] > 32 * MiB]
    small = [c for c in meas if c["opts"]["dict_size"] <= 32 * MiB]
    mres = dict(zip([c["id"] for c in small], dlib.run_cases("vh_mem", [strip(c) for c in small], nproc=4, per_batch=6, timeout=2400)))
    mres.update(zip([c["id"] for c in big], dlib.run_cases("vh_mem", [strip(c) for c in big], nproc=1, timeout=2400)))
    dres = dlib.run_cases("vh_mem", [strip(c) for c in dec], nproc=8)
    classes = set()
    run_classes = collections.Counter()
    ratios = []
    inv_mismatch = 0

    def judge(family, estimator, c, r, alloc_model, sigx):
        nonlocal inv_mismatch
        if r.get("tool_error"):
            raise ToolError(f"vh_mem: {r['tool_error']}")
        if r.get("panic") or r.get("error"):
            ctx.violation(f"{family} {sigx}: construction / use failed: {r.get('panic') or r.get('error')}",
                          {"family": family, "estimator": estimator, "class": "run_failed"}, {"case": strip(c)})
            return None
        est = r.get("estimate_kib")
        if not isinstance(est, int):
            ctx.violation(f"{family} {sigx}: estimator {estimator} gives {est}", {"family": family, "estimator": estimator, "class": "estimator_panic"}, {"case": strip(c)})
            return None
        peak = r["peak"]
        pk = kib(peak)
        dcl = dict_class(c["opts"]["dict_size"])
        if est * 1024 < peak:
            ctx.violation(f"{family} {sigx}: peak heap {peak} bytes ({pk} KiB) exceeds the estimate of {estimator} = {est} KiB",
                          {"family": family, "estimator": estimator, "class": "too_small"}, {"case": strip(c), "estimate_kib": est, "peak": peak})
        elif est > C_FACTOR * pk + K_ADD:
            ctx.violation(f"{family} {sigx}: {estimator} = {est} KiB for a real peak of {pk} KiB ({est / max(pk, 1):.1f}x; bound {C_FACTOR} * peak + {K_ADD} KiB)",
                          {"family": family, "estimator": estimator, "class": "too_large"}, {"case": strip(c), "estimate_kib": est, "peak": peak})
        else:
            ratios.append(est / max(pk, 1))
        if abs(pk - alloc_model) > SLACK:
            inv_mismatch += 1
            if inv_mismatch <= 3:
                ctx.note_drift(f"MemModel.tla inventory predicts {alloc_model} KiB for {family} {sigx} but {pk} KiB were allocated (allocations >= 512 B: {sorted(r.get('allocs', []), reverse=True)[:10]})")
        classes.add((family, dcl, c["opts"]["mode"], c["opts"]["mf"], c["opts"]["lc"] + c["opts"]["lp"],
                     "sound" if est * 1024 >= peak else "unsound", "tight" if est <= C_FACTOR * pk + K_ADD else "loose"))
        return est, pk

    for c in meas:
        x = pts[c["pi"]]
        p = x["point"]
        pre = f" preset_dict={c['preset']}" if "preset" in c else ""
        out = judge("encoder/" + p["kind"] + ("+preset" if pre else ""), "LZMAOptions::get_memory_usage", c, mres[c["id"]], x["alloc"],
                    f"dict={p['dict']} {p['mode']}/{p['mf']} lc+lp={p['lclp']}{pre}")
        if out:
            trace.append({"op": "Enc", "kind": p["kind"], "dict": p["dict"], "mode": p["mode"], "mf": p["mf"], "lclp": p["lclp"], "est": out[0], "peak": out[1], "dlz": 0, "dlz2": 0})
    for c, r in zip(dec, dres):
        lz2 = c["kind"] == "dec_lzma2"
        d, lclp = c["dict"], c["lclp"]
        r16 = lambda v: (v + 15) // 16 * 16
        alloc = (kib(r16(d)) + 64 if lz2 else kib(r16(max(d, 4096)))) + kib(1536 << lclp)
        out = judge("decoder/" + ("lzma2" if lz2 else "lzma"), "lzma2_get_memory_usage" if lz2 else "lzma_get_memory_usage_by_props", c, r, alloc,
                    f"dict={d} lc+lp={lclp}" + (f" data={c['data']} read buffer={c['read_len']} (chunks: {r.get('chunks_lzma', '-')} LZMA, {r.get('chunks_unc', '-')} uncompressed)" if "read_len" in c else ""))
        if out:
            rl = c.get("read_len", 65536)
            kinds = ("lzma" if r.get("chunks_lzma") else "") + ("+unc" if r.get("chunks_unc") else "") if lz2 else "lzma1"
            run_classes[(c["kind"], kinds, "1" if rl == 1 else "<chunk" if rl < 65536 else "=chunk" if rl == 65536 else ">chunk")] += 1
        if out and lclp in (0, 3, 4) and "read_len" not in c:
            trace.append({"op": "Dec", "kind": "lzma2" if lz2 else "lzma", "dict": d, "mode": "fast", "mf": "hc4", "lclp": lclp, "est": out[0], "peak": out[1], "dlz": 0, "dlz2": 0})
    stats["measured"] = len(meas) + len(dec)
    for kinds in ("lzma", "+unc", "lzma+unc"):
        for rcl in ("1", "<chunk", "=chunk", ">chunk"):
            if not run_classes[("dec_lzma2", kinds, rcl)]:
                raise ToolError(f"vacuous: no LZMA2Reader measured on a stream of chunk kinds '{kinds}' with read buffers of class {rcl}")
    classes.update(("decoder-run",) + k for k in run_classes)
    ctx.cov["decoder_run_classes"] = {"/".join(k): n for k, n in sorted(run_classes.items())}
    log(f"[stage2] {len(est_cases)} estimator evaluations, {len(meas)} encoder + {len(dec)} decoder measurements in {time.time()-t0:.1f}s; "
        f"est/peak in [{min(ratios):.3f}, {max(ratios):.3f}]" if ratios else f"[stage2] done in {time.time()-t0:.1f}s (no measurement inside the bounds)")
    if model_bad and not ctx.violations and not ctx.known_hits:
        raise ToolError(f"the as-built formulas are outside Sound/Tight on {len(model_bad)} grid points of the model but no measurement of the real "
                        f"code violates the property: spec/asbuilt_mem.json does not describe this tree")

    # ---------------------------------------------------------------- stage 2c: memory limit before allocation
    lim = []
    for d in (4096, 1 * MiB, 64 * MiB, 0xFFFFFFF0):
        for props in (0x5D, 0, 224, 4 * 9 + 8):
            if d == 64 * MiB and props != 0x5D and quick:
                continue
            need = 10 + (((max(d, 4096) + 15) & ~15) // 1024) + ((0x600 << ((props % 45) // 9 + (props % 45) % 9)) // 1024)
            # uncompressed-size field of the header: unknown, small, just below / above the dictionary, 2^32 with a small
            # low word, 2^32 exactly, the largest known size. The need is a function of (dict_size, props) alone.
            uncomps = [None, 10, max(d - 1, 1), d + 1000, (1 << 32) + 16, 1 << 32, (1 << 64) - 2]
            for lk in sorted(set([0, max(need - 1, 0), need, need + 1, 1024, 0xFFFFFFFF])):
                if lk >= need and d > 64 * MiB:
                    continue           # would really build a 4 GiB window
                for u in uncomps:
                    c = {"id": f"l-{d}-{props}-{lk}-{u}", "kind": "limit", "opts": {"preset": 1, "dict_size": d}, "props": props, "limit_kib": lk, "need": need}
                    if u is not None:
                        c["uncomp"] = u
                    lim.append(c)
    lres = dlib.run_cases("vh_mem", [{k: v for k, v in c.items() if k != "need"} for c in lim], nproc=2)
    for c, r in zip(lim, lres):
        if r.get("panic"):
            ctx.violation(f"LZMAReader::new_mem_limit panics: {r['panic']}", {"family": "mem_limit", "class": "panic"}, {"case": c})
            continue
        need, lk = r.get("need_kib"), c["limit_kib"]
        if need != c["need"]:
            ctx.note_drift(f"lzma_get_memory_usage_by_props gives {need}, the formula {c['need']} for {c}")
        if not isinstance(need, int):
            continue
        above = need > lk
        if above and not (r["outcome"] == "err:OutOfMemory" and r["peak"] < 1024):
            ctx.violation(f"new_mem_limit(limit={lk} KiB) for a stream needing {need} KiB: {r['outcome']}, {r['peak']} bytes allocated "
                          f"(expected an out-of-memory error before allocating)", {"family": "mem_limit", "class": "limit_not_enforced"}, {"case": c})
        elif not above and r["outcome"] == "err:OutOfMemory":
            ctx.violation(f"new_mem_limit(limit={lk} KiB) refuses a stream needing only {need} KiB", {"family": "mem_limit", "class": "limit_too_strict"}, {"case": c})
        else:
            u = c.get("uncomp")
            ucl = "unknown" if u is None else "<dict" if u < c["opts"]["dict_size"] else ">=2^32" if u >= (1 << 32) else ">dict"
            classes.add(("mem_limit", dict_class(c["opts"]["dict_size"]), ucl, "above" if above else "within", r["outcome"]))
    stats["limit_cases"] = len(lim)

    # The model must describe this tree. Checked only now: if the estimators changed in a way that breaks the property,
    # the measured oracles above have already produced a VIOLATION with a replay, which is the more useful verdict.
    if len(formula_mismatch) > len(pts) // 4 and not ctx.violations and not ctx.known_hits:
        raise ToolError(f"MemModel.tla disagrees with the real estimators on {len(formula_mismatch)} of {len(pts)} grid points while every "
                        f"measured object satisfies the property: spec/asbuilt_mem.json does not describe this tree (first: {formula_mismatch[0]})")
    ctx.cov["estimator_values_differ_from_model"] = len(formula_mismatch)

    # ---------------------------------------------------------------- stage 3: the measurements as a trace
    t0 = time.time()
    consts = dict(asb)
    consts.update({"Dicts": "{}", "Export": "FALSE", "CheckProperty": "FALSE", "Slack": str(SLACK)})
    ok, reached, total, r = core.validate_events("Trace_MemModel", consts, [json.dumps(e) for e in trace], invariants=("Track",), timeout=600)
    ctx.note_tlc("trace Mem events", r)
    if ok:
        ctx.cov["traces_validated_against_impl"] = len(trace)
    else:
        ctx.cov["traces_validated_against_impl"] = reached or 0
        ctx.note_drift(f"Trace_MemModel rejected the measurements after event {reached} of {total}: {trace[reached] if reached is not None and reached < len(trace) else '?'}")
    log(f"[stage3] {len(trace)} Mem events, accepted={ok} in {time.time()-t0:.1f}s")

    ctx.cov["evaluations"] = len(est_cases) + len(meas) + len(dec) + len(lim)
    ctx.cov["distinct_nontrivial"] = len(classes)
    ctx.cov["rule"] = ("one evaluation = one estimator call, one measured construction + use, or one new_mem_limit call on the real code; distinct = "
                       "(family, dictionary class, mode, match finder, lc+lp, sound?, tight?) over measured objects plus (limit, dictionary class, "
                       "above/within, outcome) over limit cases")
    ctx.cov["estimator_values_equal_model"] = stats["estimator_values_equal_model"]
    ctx.cov["grid_points"] = len(pts)
    ctx.cov["measured_objects"] = stats["measured"]
    ctx.cov["inventory_mismatches"] = inv_mismatch
    if ratios:
        ctx.cov["estimate_over_peak_min_max"] = [round(min(ratios), 4), round(max(ratios), 4)]
    ctx.cov["asbuilt_constants"] = asb
    for c in (est_cases[0], strip(meas[0]), strip(meas[-1]), strip(dec[0]), {k: v for k, v in lim[1].items()}, {k: v for k, v in lim[-3].items()}):
        ctx.sample(c)
    ctx.assumptions += ["requested bytes of the Rust allocator API, not RSS; allocator overhead and fragmentation not counted",
                        f"peaks measured for dictionaries <= {dmax // MiB} MiB; larger ones rest on the inventory formula validated on those",
                        "small constant factor read as estimate <= 2 * peak + 256 KiB; pb = 2, nice_len = 64 in the measured grid"]
    ctx.finish()


def run_replay(ctx, path):
    rep = json.load(open(path))
    c = dict(rep["replay"]["case"])
    c.setdefault("id", "replay")
    r = dlib.run_cases("vh_mem", [{k: v for k, v in c.items() if k != "need"}], nproc=1)[0]
    print(json.dumps(r, indent=1))
    est, peak = r.get("estimate_kib"), r.get("peak")
    if isinstance(est, int) and isinstance(peak, int):
        pk = kib(peak)
        if est * 1024 < peak or est > C_FACTOR * pk + K_ADD:
            ctx.violation(f"estimate {est} KiB vs peak {pk} KiB", rep["sig"], rep["replay"])
    ctx.cov["evaluations"] = 1
    ctx.cov["distinct_nontrivial"] = 2
    ctx.cov["rule"] = "replay of one measurement"
    ctx.finish()
