"""C09: multi-threaded I/O always terminates and reports worker failures."""
import json, random
from vlib import core, mtlib
from vlib.core import log
from checks import mtcommon
from checks.mtplans import run_plan, reader_cfgs, writer_cfgs, run_replay


def run(tier, replay=None):
    ctx = core.Check("C09", tier, "model_checking")
    core.build_harness()
    if replay:
        return run_replay(ctx, {"C09"}, replay)
    quick = tier == "quick"
    plan = []
    R = mtlib.reader_consts
    # fault scenarios of the readers: each is model-checked (safety + liveness), toured or sampled, and explored
    # under random / PCT schedules on the real code
    plan += reader_cfgs([
        ("lz2-bad1", "lzma2", 2, ["I", "I", "I"], dict(bad=[1], calls_after_err=1), "tour"),
        ("lz2-bad1-again", "lzma2", 2, ["I", "I", "I"], dict(bad=[0], calls_after_err=2), "rand"),
        ("lz2-bad0", "lzma2", 2, ["I", "I", "I"], dict(bad=[0]), "rand"),
        ("lz2-bad2", "lzma2", 2, ["I", "I", "I"], dict(bad=[2]), "rand"),
        ("lz2-zero", "lzma2", 2, [], dict(terminated=False), "tour"),
        ("lz2-empty-ok", "lzma2", 2, [], dict(), "tour"),
        ("lz2-noterm", "lzma2", 2, ["I", "I", "I"], dict(terminated=False), "rand"),
        ("lz2-noterm1", "lzma2", 2, ["I"], dict(terminated=False), "tour"),
        ("lz2-srcfail", "lzma2", 2, ["I", "I", "X"], dict(calls_after_err=1), "tour"),
        ("lz2-srcfail0", "lzma2", 2, ["X"], dict(), "tour"),
        ("lz2-dep-bad", "lzma2", 2, ["I", "D", "I"], dict(bad=[1]), "rand"),
        ("lz2-panic1", "lzma2", 2, ["I", "I", "I"], dict(panic=[1]), "rand"),
        ("lzip-bad1", "lzip", 2, ["M", "M", "M"], dict(bad=[1]), "rand"),
        ("lzip-bad0", "lzip", 2, ["M", "M"], dict(bad=[0], calls_after_err=1), "tour"),
        ("lzip-panic0", "lzip", 2, ["M", "M"], dict(panic=[0]), "rand"),
        ("lz2-valid", "lzma2", 2, ["I", "I", "I"], dict(), "rand"),
    ] + ([] if quick else [
        ("lz2-3w-bad2", "lzma2", 3, ["I", "I", "D", "I"], dict(bad=[2]), "tour"),
        ("lz2-3w-bad01", "lzma2", 3, ["I", "I", "I"], dict(bad=[0, 1]), "rand"),
        ("lz2-5u-bad3", "lzma2", 2, ["I", "I", "I", "I", "I"], dict(bad=[3]), "rand"),
        ("lzip-3w-bad2", "lzip", 3, ["M", "M", "M"], dict(bad=[2]), "tour"),
        ("lzip-bad2", "lzip", 2, ["M", "M", "M"], dict(bad=[2]), "tour"),
        ("lz2-bad1-full", "lzma2", 2, ["I", "I", "I"], dict(bad=[1]), "fulltour"),
    ]))
    plan += writer_cfgs(quick, fault=True)
    run_plan(ctx, {"C09"}, plan, quick, lzip_scan=True)
