"""C18: size options and declared sizes are honoured."""
import random
from concurrent.futures import ThreadPoolExecutor
from vlib import core, contlib

MANIFEST = dict(
    level="model_checking",
    technique="TLA+ specs XzContainer / LzipContainer (SizeLimit, BlocksFull / MembersFull over every write partition incl. one huge write), "
              "LzmaAlone (expected-size contract), Lzma2Chunks (CountUnits) model-checked with TLC; every behaviour replayed into the real "
              "XZWriter / LZIPWriter / LZMAWriter / LZMA2Writer; strict-parser records and call results validated by TLC (TSizeLimit, "
              "THeaderExact, TNoOverrun, TShortRefused, TUnits, TMtCount); MT writers and readers under random schedules of the "
              "deterministic runtime (unit sizes, chunk_count / member_count)",
    text="TLC checks on the writer models, for every write partition within the constants (one huge write, many small ones, flushes), that "
         "every XZ block and LZIP member holds at most max(limit, dictionary) bytes and that all but the last are full, and on LzmaAlone "
         "that a write beyond the expected size is rejected, a short finish is refused and a finished header carries exactly the bytes "
         "written. The behaviours are replayed into the real writers; block / member sizes are read from the produced files by an "
         "independent strict parser (and confirmed by liblzma) and validated by TLC as trace invariants; the call results of the .lzma "
         "writer must equal the model's. chunk_count() of LZMA2ReaderMT and member_count() of LZIPReaderMT are compared with the number "
         "of independent units the strict parser finds; the MT writers' unit sizes come from the MT machinery (mtlib) under random "
         "schedules.",
    ref="4.8, 6/C18",
    note="TLC results hold for the stated constants (<= 5 units per stream, <= 4 write calls); unit-size exactness of the MT writers is "
         "also decided by C08's specification MtWriter (UnitSizes), here only sampled under random schedules.",
    ready=True)


def run(tier, replay=None):
    ctx = core.Check("C18", tier, "model_checking")
    core.build_harness()
    j = contlib.Judge(ctx, {"C18"})
    if replay:
        return contlib.run_replay(ctx, j, replay)
    quick = tier == "quick"
    pool = ThreadPoolExecutor(max_workers=8)
    outer = ThreadPoolExecutor(max_workers=5)
    seed = ctx.seed

    def xz_all():
        scns, res, meta, runs = contlib.family_xz(ctx, j, quick, random.Random(seed), pool, cap=300 if quick else 4000, nrand=40 if quick else 400)
        contlib.validate_xz_runs(ctx, j, runs, pool)
        return scns

    def lz_all():
        scns, res, runs = contlib.family_lzip(ctx, j, quick, random.Random(seed + 1), pool, cap=200 if quick else 3000)
        contlib.validate_lz_runs(ctx, j, runs, pool)
        return scns

    fs = [outer.submit(xz_all), outer.submit(lz_all),
          outer.submit(lambda: contlib.family_lzma(ctx, j, quick, random.Random(seed + 2), pool)[0]),
          outer.submit(lambda: contlib.family_lzma2(ctx, j, quick, random.Random(seed + 3), pool)[0]),
          outer.submit(lambda: contlib.family_mt_units(ctx, j, quick, random.Random(seed + 4))[0])]
    scns = [s for f in fs for s in f.result()]
    outer.shutdown()
    pool.shutdown()
    contlib.finish(ctx, j, scns,
                   "one evaluation = one run of a real writer on a concretised TLC behaviour (write partition x limit / expected size) or one "
                   "MT execution under a fixed schedule; distinct = (family, limit set, write shape, number of blocks/members, call results)")
