"""C18: size options and declared sizes are honoured."""
import random
from concurrent.futures import ThreadPoolExecutor
from vlib import core, contlib

MANIFEST = dict(
    level="model_checking",
    technique="TLA+ specs XzContainer / LzipContainer (SizeLimit, BlocksFull / MembersFull over every write partition incl. one huge write), "
              "LzmaAlone (expected-size contract), Lzma2Chunks (CountUnits) model-checked with TLC; every behaviour replayed into the real "
              "XZWriter / LZIPWriter / LZMAWriter / LZMA2Writer; strict-parser records and call results validated by TLC (TSizeLimit, "
              "THeaderExact, TNoOverrun, TShortRefused, TUnits, TMtCount); MT writers and readers under random schedules of the "
              "deterministic runtime (unit sizes, chunk_count / member_count)",
    text="TLC checks on the writer models, for every write partition within the constants (one huge write, many small ones, flushes), that "
         "every XZ block and LZIP member holds at most max(limit, dictionary) bytes and that all but the last are full, and on LzmaAlone "
         "that a write beyond the expected size is rejected, a short finish is refused and a finished header carries exactly the bytes "
         "written. The behaviours are replayed into the real writers; block / member sizes are read from the produced files by an "
         "independent strict parser (and confirmed by liblzma) and validated by TLC as trace invariants; the call results of the .lzma "
         "writer must equal the model's. chunk_count() of LZMA2ReaderMT and member_count() of LZIPReaderMT are compared with the number "
         "of independent units the strict parser finds; the MT writers' unit sizes come from the MT machinery (mtlib) under random "
         "schedules.",
    ref="4.8, 6/C18",
    note="TLC results hold for the stated constants (<= 5 units per stream, <= 4 write calls); unit-size exactness of the MT writers is "
         "also decided by C08's specification MtWriter (UnitSizes), here only sampled under random schedules.",
    ready=True)


def run(tier, replay=None):
    ctx = core.Check("C18", tier, "model_checking")
    core.build_harness()
    j = contlib.Judge(ctx, {"C18"})
    if replay:
        return contlib.run_replay(ctx, j, replay)
    quick = tier == "quick"
    pool = ThreadPoolExecutor(max_workers=8)
    outer = ThreadPoolExecutor(max_workers=6)
    seed = ctx.seed

    def xz_all():
        scns, res, meta, runs = contlib.family_xz(ctx, j, quick, random.Random(seed), pool, cap=300 if quick else 4000, nrand=40 if quick else 400)
        contlib.validate_xz_runs(ctx, j, runs, pool)
        return scns

    def lz_all():
        scns, res, runs = contlib.family_lzip(ctx, j, quick, random.Random(seed + 1), pool, cap=200 if quick else 3000)
        contlib.validate_lz_runs(ctx, j, runs, pool)
        return scns

    def mt_unit_configs():
        """MT writers: the lead's writer shapes (model-level scripts of full / partial iterations, merged and flushed) concretised for
        unit sizes above, at and below the dictionary size - below it the unit size is raised to the dictionary size - plus plain
        write partitions with pieces below the configured size, between it and the effective size and above the effective size.
        Verdict: mtlib.judge's C18 oracle (every unit but the last holds exactly the effective unit size, none holds more)."""
        from vlib import mtlib
        from checks import mtwriter
        rnd = random.Random(seed + 5)
        scns = []
        shapes = [c for c in mtwriter.cfgs(True) if c["name"].startswith(("w-merged", "w-partials", "w-ffx", "w-midflush", "w-3w"))]
        n = 2 if quick else 20

        def pol():
            return {"kind": "random", "seed": rnd.getrandbits(40)}
        for (raw, dsz) in mtwriter.UNIT_CONFIGS:
            eff = max(raw, dsz)
            for c in shapes:
                for i in range(n):
                    scns.append(mtwriter.make_scn(c, f"c18-{c['name']}-{raw}of{dsz}-{i}", pol(), unit=raw, dict_size=dsz))
            for fam in ("lzma2_writer", "lzip_writer"):
                for workers in (1, 3) if quick else (1, 2, 3, 4):
                    for i in range(1 if quick else 6):
                        scns += mtwriter.partition_scns(fam, raw, dsz, eff * 3 + eff // 3, workers, pol, f"c18-{fam}-{raw}of{dsz}-w{workers}-{i}", rnd)
        if not any(s.get("dict_size", 0) > s["unit_len"] for s in scns):
            raise core.ToolError("vacuous: no MT writer configuration with the unit size below the dictionary size")
        res = mtlib.run_scenarios(scns)
        nfull = 0
        for s1, r1 in zip(scns, res):
            j.nruns += 1
            nfull += len(r1.get("unit_sizes") or []) > 1
            j.classes.add(("mt-unit", s1["family"], s1["workers"], s1["unit_len"] < s1["dict_size"], s1.get("shape") or tuple(c["op"] for c in s1["calls"]),
                           r1.get("outcome")))
            for (pid, what, sig) in mtlib.judge(s1, r1):
                j.violation(pid, what + f" [configured {s1['unit_len']}, dictionary {s1['dict_size']}, writes {[c.get('n', c['op']) for c in s1['calls']][:12]}]",
                            dict(sig, clamped=s1["unit_len"] < s1["dict_size"]), {"scenario": dict(s1, log=False), "source": "mt-unit-configs", "mt": True})
        if nfull < len(scns) // 2:
            raise core.ToolError(f"vacuous: only {nfull} of {len(scns)} MT writer runs produced more than one unit")
        ctx.add("mt_unit_config_executions", len(scns))
        return scns

    fs = [outer.submit(xz_all), outer.submit(lz_all),
          outer.submit(lambda: contlib.family_lzma(ctx, j, quick, random.Random(seed + 2), pool)[0]),
          outer.submit(lambda: contlib.family_lzma2(ctx, j, quick, random.Random(seed + 3), pool)[0]),
          outer.submit(lambda: contlib.family_mt_units(ctx, j, quick, random.Random(seed + 4))[0]),
          outer.submit(mt_unit_configs)]
    scns = [s for f in fs for s in f.result()]
    outer.shutdown()
    pool.shutdown()
    contlib.finish(ctx, j, scns,
                   "one evaluation = one run of a real writer on a concretised TLC behaviour (write partition x limit / expected size) or one "
                   "MT execution under a fixed schedule; distinct = (family, limit set, write shape, number of blocks/members, call results)")
