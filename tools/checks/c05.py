"""C05: truncation and I/O faults surface as errors, never as wrong or endless data; short reads / Interrupted /
short writes are transparent; sink errors are returned.

Pipeline (DESIGN.md 2.1, 4.9, 6/C05):
 1. TLC model-checks spec/IoFaults.tla (reader half and writer half) with the repaired layer contracts: the
    C05 properties hold for the COMPLETE fault-script set (truncation point x call index x fault kind over a
    12-byte / 8-call abstract stream); the as-built / regressed variants of the layers (single read() for a
    record, swallowed read errors, filter history advancing past the accepted bytes) must produce
    counter-examples (vacuity guard, and the source of the regression probes).
 2. Every script TLC exported is applied to every real reader / writer on real streams, fault points rescaled
    to real offsets and call numbers (record boundaries +-1, a stride inside records, the first calls); the
    property-level oracle below decides.
 3. The I/O logs of a sample of those runs (every reader / writer x every fault class) are validated by TLC
    against spec/Trace_IoFaults.tla (layer contracts + the C05 properties on the reconstructed state).
"""
import json, os, random, struct, collections
from concurrent.futures import ThreadPoolExecutor
from vlib import core
from vlib.core import log, ToolError
from checks import blib as B, bforge as F

MANIFEST = dict(
    level="fault_enumeration",
    technique="TLA+ spec IoFaults (layered source/sink fault model) model-checked with TLC; the complete fault-script set "
              "TLC enumerates is replayed into every real reader and writer through fault-injecting Read/Write/Seek wrappers; "
              "recorded I/O logs are validated by TLC against Trace_IoFaults",
    text="TLC checks TruncationIsError, ErrorKindPropagates, NoUnboundedOutput, ShortIoTransparent, SinkErrorReturned and "
         "NoWrongSuccess on the layered model for every (truncation point x call index x fault kind) script over a 12-byte / "
         "8-call abstract stream, and shows that each deviating layer contract (single read for a record, swallowed read "
         "error, filter history running ahead of the sink) breaks them. Every script is then applied to the real LZMA, LZMA2, "
         "XZ, LZIP, BCJ, Delta, BCJ2 and MT readers and to the real LZMA, LZMA2, XZ, LZIP, BCJ, Delta and MT writers with the "
         "fault placed at every record boundary +-1, at a stride inside records and at the first calls (thorough: every byte "
         "offset / call of small streams); a run fails if a cut stream or a delivered source error does not end in Err (with "
         "the source's kind), if success comes with different bytes, if output exceeds the declared size without end, if a "
         "short / interrupted script changes decoded or compressed bytes, or if a sink error is not returned.",
    ref="4.9, 5.4, 6/C05",
    note="Streams are small (<= 64 KiB quick); payloads come from liblzma so the readers are judged on well-formed input; "
         "'unbounded output' is decided by byte count (2x declared size + 1 MiB), never by wall clock; MT readers / writers "
         "run on real threads and only their results are judged (hangs are C09's subject: watchdog -> tool error). Error "
         "kind equality is demanded for readers only (the statement asks writers to return the error).",
    ready=True)

KINDS = {"EK1": "PermissionDenied", "EK2": "ConnectionReset"}
INV = ("TypeOK", "TruncationIsError", "ErrorKindPropagates", "SinkErrorReturned", "NoUnboundedOutput", "NoWrongSuccess",
       "ShortIoTransparent")
ASBUILT_FILE = os.path.join(core.VERIF, "spec", "asbuilt_groupB.json")


def asbuilt():
    d = {"xz_padding_single_read": False, "lzma_stream_swallows_read_errors": False, "filter_writer_advances_history": False}
    if os.path.exists(ASBUILT_FILE):
        d.update(json.load(open(ASBUILT_FILE)).get("io", {}))
    return d


def consts(half="reader", single="{}", swallow="{}", declared="TRUE", filtered="TRUE", adv="FALSE"):
    return {"Half": '"%s"' % half, "Reqs": [2, 1, 4, 3, 2], "OutPer": [0, 0, 5, 0, 0], "MaxCalls": "8",
            "Kinds": '{"EK1","EK2"}', "ShortLens": "{1,2}", "Declared": declared, "SingleRead": single, "Swallow": swallow,
            "Writes": [3, 1, 4], "Filtered": filtered, "FilterAdvances": adv}


def tlc_design(ctx, name, c, export):
    d, mod, cfg = core.write_model("IoFaults", c, invariants=INV + (("Export",) if export else ()), constraint="Bound",
                                   seq_consts=("Reqs", "OutPer", "Writes"))
    r = core.run_tlc(mod, cfg, workers=1, cwd=d, timeout=900)
    scripts = []
    if export:
        for line in r.printed:
            if line.startswith('"'):
                try:
                    s = json.loads(line)
                    if isinstance(s, str) and s.startswith("{"):
                        scripts.append(json.loads(s))
                except ValueError:
                    pass
    return name, r, scripts


# --------------------------------------------------------------------------------------------- real streams
def bcj2_streams(n, seed):
    """a valid BCJ2 quadruple without any convertible opcode: main = data, call / jump empty, rc = 5 zero bytes"""
    rnd = random.Random(seed)
    main = bytes(rnd.choice(b"\x00\x01\x20\x41\x55\x89\x8b\x90\xc3\x7f\x10") for _ in range(n))
    return main, b"", b"", b"\0" * 5


def reader_streams(quick, seed):
    """[dict(name, dec, data, expect, bounds, exact, inputs?)]"""
    S = []
    t1 = F.gen_data("text", 5000, seed)
    m1 = F.gen_data("mixed", 9000 if quick else 40000, seed + 1)
    r1 = F.gen_data("random", 3000, seed + 2)
    x1 = F.gen_data("x86", 6000, seed + 3)

    def bounds(recs):
        return [a for (_, a, b, _) in F.layout(recs)] + [len(F.assemble(recs))]

    def concat_of(recs):
        """offsets at which a concatenable format (lzip members, xz streams) is complete -> content length so far"""
        out, off, plen = {}, 0, 0
        for r in recs:
            off += len(r.raw)
            if r.kind in ("LBODY", "DATA"):
                plen += r.info.get("usize", 0)
            if r.kind in ("LTRL", "FOOTER", "SPAD"):
                out[off] = plen
        return out

    def add(name, dec, recs, expect, exact=True, **kw):
        data = F.assemble(recs) if isinstance(recs, list) else recs
        if isinstance(recs, list):
            kw.setdefault("concat", concat_of(recs))
            kw.setdefault("layout", [(k, a, b_) for (k, a, b_, _) in F.layout(recs)])
        S.append(dict(name=name, dec=dec, data=data, expect=expect, bounds=bounds(recs) if isinstance(recs, list) else [0, len(data)],
                      exact=exact, **kw))

    add("lzma_known", {"kind": "lzma"}, F.lzma_alone(t1, 4096, known_size=True), t1)
    add("lzma_eos", {"kind": "lzma"}, F.lzma_alone(m1, 1 << 16), m1)
    raw = F.lzma1_raw(t1, 4096)
    add("lzma_raw_declared", {"kind": "lzma_raw", "props": 0x5D, "dict": 4096, "usize": len(t1)}, raw, t1)
    l2 = F.lzma2_raw(m1 + r1, 1 << 16)
    ch = F.lzma2_chunks(l2)
    S.append(dict(name="lzma2", dec={"kind": "lzma2", "dict": 1 << 16}, data=l2, expect=m1 + r1,
                  bounds=[a for (a, b, c) in ch] + [len(l2)], exact=True))
    st = F.lzma2_stored(r1[:700], chunk=300)
    S.append(dict(name="lzma2_stored", dec={"kind": "lzma2", "dict": 4096}, data=st, expect=r1[:700],
                  bounds=[a for (a, b, c) in F.lzma2_chunks(st)] + [len(st)], exact=True))
    add("xz_crc32", {"kind": "xz"}, F.xz_stream([t1], "crc32", 4096), t1)
    add("xz_crc64_2blocks", {"kind": "xz"}, F.xz_stream([t1, m1[:3001]], "crc64", 1 << 16, with_sizes=True), t1 + m1[:3001])
    add("xz_sha256", {"kind": "xz"}, F.xz_stream([m1[:2002]], "sha256", 4096), m1[:2002])
    add("xz_delta_x86", {"kind": "xz"}, F.xz_stream([x1], "crc32", 1 << 16, pre=(("delta", 4), ("x86", 0))), x1)
    add("xz_empty", {"kind": "xz"}, F.xz_stream([], "crc32"), b"")
    two = F.xz_stream([t1[:1000]], "crc32", 4096) + [F.stream_pad(4)] + F.xz_stream([r1[:501]], "crc32", 4096, sno=1)
    add("xz_2streams", {"kind": "xz", "multi": True}, two, t1[:1000] + r1[:501])
    add("lzip_1", {"kind": "lzip"}, F.lz_file([t1], 4096), t1)
    add("lzip_2", {"kind": "lzip"}, F.lz_file([m1[:4000], r1[:900]], 1 << 16), m1[:4000] + r1[:900])
    add("lzip_mt", {"kind": "lzip_mt", "workers": 2}, F.lz_file([t1[:2000], m1[:2500], r1[:300]], 4096), t1[:2000] + m1[:2500] + r1[:300])
    S.append(dict(name="lzma2_mt", dec={"kind": "lzma2_mt", "dict": 1 << 16, "workers": 2}, data=l2, expect=m1 + r1,
                  bounds=[a for (a, b, c) in ch] + [len(l2)], exact=True))
    # filters: input = filtered bytes (liblzma's encoder side), expected = original
    filt = F.lzma2_unraw(F.lzma2_raw(x1, 1 << 16, pre=(("x86", 0),)), 1 << 16)
    # (a bare filter stream has no framing: every prefix is a complete stream, so truncation is not judged)
    S.append(dict(name="bcj_x86", dec={"kind": "bcj", "arch": "x86"}, data=filt, expect=x1, bounds=[0, 4096, len(filt)], exact=False,
                  unframed=True))
    dl = F.lzma2_unraw(F.lzma2_raw(t1, 1 << 16, pre=(("delta", 3),)), 1 << 16)
    S.append(dict(name="delta", dec={"kind": "delta", "distance": 3}, data=dl, expect=t1, bounds=[0, len(dl)], exact=False,
                  unframed=True))
    # many small end-marker streams: whether the normalisation after the end marker fetches one more byte depends on the
    # coder state, so the "fault on exactly the last byte" scripts are applied to a population of them
    for i in range(40 if quick else 200):
        d = F.gen_data(("text", "mixed", "random", "periodic")[i % 4], 20 + 7 * i % 300 + i, seed * 100 + i)
        S.append(dict(name=f"lzma_eos_mini{i}", dec={"kind": "lzma"}, data=F.assemble(F.lzma_alone(d, 4096)), expect=d, bounds=[0, 13],
                      exact=True, mini=True, group="lzma_eos_mini"))
        lz = F.lz_file([d], 4096)
        S.append(dict(name=f"lzip_mini{i}", dec={"kind": "lzip"}, data=F.assemble(lz), expect=d, bounds=[0, 6], exact=True, mini=True,
                      group="lzip_mini", layout=[(k, a, b_) for (k, a, b_, _) in F.layout(lz)], concat={}))
    main, call, jump, rc = bcj2_streams(5000, seed)
    S.append(dict(name="bcj2", dec={"kind": "bcj2", "bcj2_size": len(main)}, data=main, expect=main, bounds=[0, len(main)],
                  exact=False, inputs=[B.hexs(call), B.hexs(jump), B.hexs(rc)]))
    return S


def writer_cases(quick, seed):
    t1 = F.gen_data("text", 6000, seed)
    m1 = F.gen_data("mixed", 12000, seed + 1)
    x1 = F.gen_data("x86", 9000, seed + 3)
    r1 = F.gen_data("random", 20000, seed + 5)
    W = [
        # incompressible input: LZMA2 falls back to uncompressed chunks (a different write path to the sink)
        dict(name="lzma2_incompressible", enc={"kind": "lzma2", "preset": 1, "dict": 1 << 16}, data=r1, writes=[6000]),
        dict(name="xz_incompressible", enc={"kind": "xz", "preset": 1, "dict": 1 << 16, "check": "crc32"}, data=r1 + t1, writes=[9000]),
        dict(name="lzip_incompressible", enc={"kind": "lzip", "preset": 1, "dict": 1 << 16}, data=r1[:8000], writes=[3000]),
        dict(name="lzma_header_known", enc={"kind": "lzma", "preset": 1, "dict": 4096, "lzma_mode": "header_known"}, data=t1, writes=[1000]),
        dict(name="lzma_raw_eos", enc={"kind": "lzma", "preset": 6, "dict": 1 << 16, "lzma_mode": "raw_eos"}, data=m1, writes=[777, 3]),
        dict(name="lzma2", enc={"kind": "lzma2", "preset": 3, "dict": 1 << 16}, data=m1, writes=[4096], flush_every=2),
        dict(name="xz_crc64", enc={"kind": "xz", "preset": 2, "dict": 1 << 16, "check": "crc64"}, data=t1 + m1, writes=[5000]),
        dict(name="xz_blocks_sha256", enc={"kind": "xz", "preset": 1, "dict": 4096, "check": "sha256", "block_size": 4096}, data=m1, writes=[1500]),
        dict(name="xz_delta", enc={"kind": "xz", "preset": 1, "dict": 1 << 16, "check": "crc32", "filters": [["delta", 4]]}, data=t1, writes=[999]),
        dict(name="xz_x86", enc={"kind": "xz", "preset": 1, "dict": 1 << 16, "check": "crc32", "filters": [["x86", 0]]}, data=x1, writes=[2048]),
        dict(name="lzip", enc={"kind": "lzip", "preset": 1, "dict": 1 << 16}, data=t1, writes=[2000]),
        dict(name="lzip_members", enc={"kind": "lzip", "preset": 1, "dict": 4096, "member_size": 4096}, data=m1, writes=[3000]),
        dict(name="delta", enc={"kind": "delta", "distance": 3}, data=t1, writes=[700, 13]),
        dict(name="bcj_x86", enc={"kind": "bcj", "arch": "x86"}, data=x1, writes=[1024, 5]),
        dict(name="bcj_arm", enc={"kind": "bcj", "arch": "arm"}, data=x1[:4000], writes=[512]),
        dict(name="lzma2_mt", enc={"kind": "lzma2_mt", "preset": 1, "dict": 1 << 16, "chunk_size": 65536, "workers": 2}, data=m1, writes=[5000]),
        dict(name="lzip_mt", enc={"kind": "lzip_mt", "preset": 1, "dict": 1 << 16, "member_size": 65536, "workers": 2}, data=m1, writes=[5000]),
    ]
    return W


# --------------------------------------------------------------------------------------------- rescaling
def buckets(anchors, nb):
    """partition of the sorted anchor list into nb consecutive buckets (every anchor in exactly one)"""
    anchors = sorted(set(anchors))
    out = [[] for _ in range(nb)]
    for j, a in enumerate(anchors):
        out[min(nb - 1, j * nb // max(1, len(anchors)))].append(a)
    return out


def trunc_anchors(s, need, quick):
    L = need
    if not quick and L <= 3000:
        return list(range(0, L))
    A = {0, 1, max(0, L - 1)}
    for b in s["bounds"]:
        for d in (-1, 0, 1):
            if 0 <= b + d < L:
                A.add(b + d)
    # every offset inside every short record (headers, trailers, paddings, checks, index, footer)
    for (k, a, b) in s.get("layout", []):
        if b - a <= 40:
            A.update(x for x in range(a, b) if x < L)
    stride = max(1, L // (24 if quick else 200))
    A.update(range(0, L, stride))
    return sorted(A)


def call_anchors(calls_log, bounds, ncalls, quick):
    if not quick and ncalls <= 1200:
        return list(range(ncalls))
    A = set(range(min(8, ncalls)))
    offs = [e["off"] for e in calls_log if e["d"] in ("r", "w")]
    for b in bounds:
        for i, o in enumerate(offs):
            if o >= b:
                for d in (-1, 0, 1):
                    if 0 <= i + d < ncalls:
                        A.add(i + d)
                break
    stride = max(1, ncalls // (12 if quick else 150))
    A.update(range(0, ncalls, stride))
    if ncalls:
        A.add(ncalls - 1)
    return sorted(A)


def real_fault(abs_script, req_at, call):
    k = abs_script["k"]
    if k == "short":
        m = 1 if abs_script["m"] == 1 else max(1, req_at.get(call, 2) // 2)
        return {"call": call, "kind": "short", "m": m}
    if k == "intr":
        return {"call": call, "kind": "intr"}
    if k == "zero":
        return {"call": call, "kind": "zero"}
    return {"call": call, "kind": "err", "err": KINDS.get(abs_script["e"], "Other")}


def pos_class(s, off):
    """record-relative position class of a source offset"""
    b = s["bounds"]
    for i in range(len(b) - 1):
        if b[i] <= off < b[i + 1]:
            rel = "start" if off == b[i] else "start+1" if off == b[i] + 1 else "end-1" if off == b[i + 1] - 1 else "inside"
            return f"rec{min(i, 9)}:{rel}"
    return "end"


# --------------------------------------------------------------------------------------------- oracle
def judge_reader(s, job, r, need, declared):
    """property-level oracle for one reader run: list of (what, sig)"""
    v = []
    name = s["name"]
    sc = job["script"]
    trunc = sc.get("trunc")
    cut = trunc is not None and trunc < need
    kinds = [f["kind"] for f in sc.get("faults", [])]
    fault = "trunc" if cut and not kinds else (kinds[0] if kinds else ("chunk" if sc.get("chunk") else "none"))
    if cut and kinds:
        fault = "trunc+" + kinds[0]
    base = {"side": "reader", "reader": s.get("group", name), "dec": s["dec"]["kind"], "fault": fault}
    base["cut_at_zero"] = bool(cut and trunc == 0)
    base["cut_in"] = next((k for (k, a, b_) in s.get("layout", []) if cut and a <= trunc < b_), "")
    base["fault_class"] = "cut" if cut else "err" if "err" in kinds else "intr" if ("intr" in kinds or sc.get("intr_every")) else \
        "short" if (kinds or sc.get("chunk")) else "none"
    o = r["o"]
    benign = not cut and all(k in ("short", "intr") for k in kinds)
    if cut and trunc in s.get("concat", {}) and trunc > 0:
        # the cut falls on a member / stream boundary of a concatenable format: what is left is a complete, shorter file
        plen = s["concat"][trunc]
        if o == "ok" and r.get("pre") and r["n"] == plen and r.get("err_delivered") is None:
            return v
    if o in ("panic", "abort", "spin"):
        v.append((f"{name}: {o} under I/O fault script {sc}: {r.get('m', '')}", dict(base, outcome=o)))
        return v
    if o == "intr_stuck":
        v.append((f"{name}: after one Interrupted result of the source the reader returns Interrupted for ever ({sc})",
                  dict(base, outcome="intr_stuck")))
        return v
    if o == "unbounded":
        v.append((f"{name}: output without bound: {r['n']} bytes and still producing, stream declares {declared} ({sc})",
                  dict(base, outcome="unbounded")))
        return v
    unframed_cut = cut and s.get("unframed")
    if unframed_cut and o == "ok" and r.get("err_delivered") is None:
        return v        # a prefix of an unframed filter stream is a complete stream
    if o == "ok" and r.get("eq") is False:
        missing = r.get("pre") and r["n"] < declared
        v.append((f"{name}: success with {'missing' if missing else 'different'} bytes ({r['n']} bytes, first difference at "
                  f"{r.get('first_diff')}, expected {declared}) under {sc}",
                  dict(base, outcome="false_success" if (missing and cut) else "wrong_success")))
        return v
    if cut and o == "ok":
        v.append((f"{name}: source cut at {trunc} of {need} needed bytes, reader reports success", dict(base, outcome="false_success")))
    ed = r.get("err_delivered")
    if ed is not None:
        if o != "err":
            v.append((f"{name}: the source returned {ed} at call {sc['faults'][0]['call']}, reader reports {o}",
                      dict(base, outcome="error_swallowed")))
        elif r.get("k") != ed:
            v.append((f"{name}: the source returned {ed}, reader returned kind {r.get('k')} ({r.get('m')})",
                      dict(base, outcome="error_kind_changed")))
    if benign and ed is None and (o != "ok" or not r.get("eq")):
        v.append((f"{name}: short / interrupted reads changed the result: {o} {r.get('k', '')} {r.get('m', '')} after {r['n']} "
                  f"bytes ({sc})", dict(base, outcome="short_io_not_transparent")))
    # callers do call read() again after an error: what such calls hand out is data like any other
    if o == "err" and r.get("bytes_after_err", 0) > 0 and r.get("first_diff") is not None \
            and r["first_diff"] >= r["n"] - r["bytes_after_err"]:
        v.append((f"{name}: after returning Err({r.get('k')}: {r.get('m')}) the reader went on to return {r['bytes_after_err']} bytes that "
                  f"differ from the original (first difference at {r['first_diff']}) under {sc}",
                  dict(base, outcome="wrong_bytes_after_error")))
    if o == "ok" and r.get("eof_then_data"):
        v.append((f"{name}: data returned after end of stream was reported", dict(base, outcome="eof_then_data")))
    return v


def judge_writer(w, job, r):
    v = []
    name = w["name"]
    sc = job["script"]
    kinds = [f["kind"] for f in sc.get("faults", [])]
    fault = kinds[0] if kinds else ("chunk" if sc.get("chunk") else "none")
    base = {"side": "writer", "writer": name, "enc": w["enc"]["kind"], "fault": fault}
    o = r["o"]
    if not r.get("clean_ok"):
        raise ToolError(f"fault-free run of writer {name} failed: {r}")
    if o in ("panic", "abort"):
        v.append((f"{name}: {o} under sink fault script {sc}: {r.get('m', '')}", dict(base, outcome=o)))
        return v
    if o == "intr_stuck":
        v.append((f"{name}: writer returns Interrupted for ever after one interrupted sink call", dict(base, outcome="intr_stuck")))
        return v
    ed = r.get("err_delivered")
    benign = all(k in ("short", "intr") for k in kinds)
    if ed is not None and o != "err":
        v.append((f"{name}: the sink failed with {ed} at call {sc['faults'][0]['call']}, every writer call reported success",
                  dict(base, outcome="sink_error_lost")))
    if ed is None and benign:
        if o != "ok":
            v.append((f"{name}: short / interrupted sink writes made the writer fail: {r.get('k')} {r.get('m')} ({sc})",
                      dict(base, outcome="short_io_not_transparent")))
        elif not r["same_as_clean"]:
            v.append((f"{name}: short / interrupted sink writes changed the compressed bytes ({r['sink_len']} vs {r['clean_len']} "
                      f"bytes, {sc})", dict(base, outcome="short_write_corrupts")))
    return v


# --------------------------------------------------------------------------------------------- trace events
def reader_events(s, job, r, need, declared):
    sc = job["script"]
    trunc = sc.get("trunc")
    L = len(s["data"]) if trunc is None else min(trunc, len(s["data"]))
    kinds = [f["kind"] for f in sc.get("faults", [])]
    errk = next((f["err"] for f in sc.get("faults", []) if f["kind"] == "err"), "none")
    benign = L >= need and all(k in ("short", "intr") for k in kinds)
    ev = [{"ev": "Reset", "half": "r", "len": L, "need": need, "declared": declared, "benign": benign, "exact": s["exact"], "errk": errk}]
    for e in r["io"]:
        ev.append({"ev": "Io", "d": e["d"], "req": e["req"], "ret": e["ret"], "k": e["k"], "off": e["off"], "inj": e["inj"]})
    ev.append({"ev": "Api", "res": "ok" if r["o"] == "ok" else "err", "k": r.get("k", ""), "n": r["n"], "eq": bool(r.get("eq"))})
    return ev


def writer_events(w, job, r):
    sc = job["script"]
    kinds = [f["kind"] for f in sc.get("faults", [])]
    benign = all(k in ("short", "intr") for k in kinds) and not sc.get("capacity")
    errk = next((f.get("err", "WriteZero") for f in sc.get("faults", []) if f["kind"] in ("err", "zero")), "none")
    ev = [{"ev": "Reset", "half": "w", "len": 0, "need": 0, "declared": r["clean_len"], "benign": benign, "exact": False, "errk": errk}]
    for e in r["io"]:
        ev.append({"ev": "Io", "d": e["d"], "req": e["req"], "ret": e["ret"], "k": e["k"], "off": e["off"], "inj": e["inj"]})
    ev.append({"ev": "Api", "res": "ok" if r["o"] == "ok" else "err", "k": r.get("k", ""), "n": r["sink_len"], "eq": bool(r["same_as_clean"])})
    return ev


def validate_logs(ctx, events_per_run, name):
    """TLC validates the concatenated logs; returns (accepted_runs, rejected: list of run indexes)."""
    runs = list(events_per_run)
    rejected = []
    accepted = 0
    for _ in range(4):
        if not runs:
            break
        starts, flat = [], []
        for (idx, ev) in runs:
            starts.append((len(flat) + 1, idx))
            flat.extend(ev)
        ok, reached, total, r = core.validate_events("Trace_IoFaults", {}, flat, invariants=("Track", "Props", "Contracts"), timeout=900)
        ctx.note_tlc("trace " + name, r)
        if ok:
            accepted += len(runs)
            break
        # which run was rejected? the last state's event counter tells
        lpos = None
        if r.trace:
            try:
                lpos = int(r.trace[-1]["vars"].get("l", "0"))
            except ValueError:
                lpos = None
        if lpos is None:
            lpos = (reached or 0) + 1
        bad = None
        for (st, idx) in starts:
            if st <= lpos - 1:
                bad = idx
        rejected.append((bad, r.violated))
        accepted_before = [x for x in runs if x[0] != bad]
        runs = accepted_before
    return accepted, rejected


# --------------------------------------------------------------------------------------------- the check
def run(tier, replay=None):
    ctx = core.Check("C05", tier, "fault_enumeration")
    B.bindir()
    if replay:
        return run_replay(ctx, replay)
    quick = tier == "quick"
    rnd = random.Random(ctx.seed)
    ab = asbuilt()

    # ---------------- stage 1: the design, repaired and deviating layer contracts
    plan = [
        ("reader/repaired", consts(), True, True),
        ("writer/repaired", consts("writer"), True, True),
        ("writer/no-filter-layer", consts("writer", filtered="FALSE", adv="TRUE"), True, False),
        ("reader/single-read(D8)", consts(single="{4}"), False, False),
        ("reader/swallow(D7)", consts(swallow="{3}"), False, False),
        ("reader/swallow-undeclared(D7)", consts(swallow="{3}", declared="FALSE"), False, False),
        ("writer/filter-advances(D9)", consts("writer", adv="TRUE"), False, False),
    ]
    with ThreadPoolExecutor(max_workers=7) as ex:
        futs = [ex.submit(tlc_design, ctx, n, c, exp) for (n, c, ok, exp) in plan]
        res = [f.result() for f in futs]
    rscripts, wscripts, cex = [], [], {}
    for (n, c, expect_ok, exp), (name, r, scripts) in zip(plan, res):
        ctx.note_tlc("design " + name, r)
        log(f"[tlc] design {name}: {r} scripts={len(scripts)}")
        if expect_ok and not r.ok:
            raise ToolError(f"IoFaults {name}: TLC reports {r.violated} for the repaired design")
        if not expect_ok:
            if r.ok:
                raise ToolError(f"IoFaults {name}: the deviating layer contract does not break any property (vacuous model)")
            cex[name] = r
        if name == "reader/repaired":
            ctx.require_coverage(r, ["RStep"], name)
            rscripts = scripts
        if name == "writer/repaired":
            ctx.require_coverage(r, ["WStep"], name)
            wscripts = scripts
    if len(rscripts) < 500 or len(wscripts) < 40:
        raise ToolError(f"script export incomplete: {len(rscripts)} reader / {len(wscripts)} writer scripts")
    ctx.cov["abstract_scripts"] = {"reader": len(rscripts), "writer": len(wscripts)}
    ctx.cov["deviating_contracts_refuted_by_tlc"] = {n: r.violated for n, r in cex.items()}

    # ---------------- stage 2: every script on every real reader
    streams = reader_streams(quick, ctx.seed % 1000)
    defs = [B.base_def("s_" + s["name"], s["data"], s["expect"]) for s in streams]
    clean_jobs = [dict(op="decode", id="clean/" + s["name"], base="s_" + s["name"], dec=s["dec"], log=True,
                       inputs=s.get("inputs", []), bufs=[4096, 100, 1]) for s in streams]
    clean = B.run_jobs(clean_jobs, defs)
    jobs, meta = [], []
    usable = []
    for s, c in zip(streams, clean):
        if c["o"] != "ok" or not c["eq"]:
            # a reader that rejects the well-formed stream is another property's finding (C02 / C03 / C12)
            ctx.add("streams_rejected_fault_free")
            ctx.cov.setdefault("streams_skipped", []).append({"stream": s["name"], "result": c["o"], "msg": c.get("m")})
            continue
        usable.append(s)
        need, declared = c["src_max_off"], len(s["expect"])
        s["need"], s["declared"] = need, declared
        ncalls = c["src_calls"]
        rlog = [e for e in c["io"] if e["d"] == "r"]
        req_at = {i: e["req"] for i, e in enumerate(rlog)}
        off_at = {i: e["off"] for i, e in enumerate(rlog)}
        s["off_at"] = off_at
        T = trunc_anchors(s, need, quick)
        J = call_anchors(c["io"], s["bounds"], ncalls, quick)
        tb = buckets(T, 12)          # abstract cut points 0..11 (12 = complete)
        jb = buckets(J, 8)
        limit = 2 * declared + (1 << 20)

        def mk(script, src):
            j = dict(op="decode", id=f"{s['name']}/{len(jobs)}", base="s_" + s["name"], dec=s["dec"], script=script,
                     inputs=s.get("inputs", []), bufs=[4096, 100, 1], out_limit=limit, probe_more=16)
            jobs.append(j)
            meta.append((s, src))

        if s.get("mini"):
            # the last bytes of the coded stream: cut by 1..3, and an error / short read / interrupt on each of the last calls
            body_end = next((b_ for (k_, a_, b_) in s.get("layout", []) if k_ == "LBODY"), need)
            for tt in (body_end - 1, body_end - 2, body_end - 3, need - 1):
                if 0 <= tt < need:
                    mk({"trunc": tt}, "mini:trunc")
            last_calls = [i for i, o_ in off_at.items() if body_end - 3 <= o_ < body_end]
            for cc in last_calls:
                mk({"faults": [{"call": cc, "kind": "err", "err": "PermissionDenied"}]}, "mini:err")
                mk({"faults": [{"call": cc, "kind": "intr"}]}, "mini:intr")
            continue
        for a in rscripts:
            t, cidx, k = a["trunc"], a["call"], a["k"]
            full = t == a["n"]
            if k == "chunk":
                if full:
                    mk({"chunk": a["m"]}, "tlc:chunk")
                    mk({"chunk": 1 if a["m"] == 1 else 7, "intr_every": 3}, "tlc:chunk+intr")
                else:
                    for tt in (tb[t] if not quick else tb[t][:1]):
                        mk({"trunc": tt, "chunk": a["m"]}, "tlc:trunc+chunk")
                continue
            if cidx == 0:
                if not full:
                    for tt in tb[t]:
                        mk({"trunc": tt}, "tlc:trunc")
                continue
            calls = jb[cidx - 1]
            if full:
                for cc in calls:
                    mk({"faults": [real_fault(a, req_at, cc)]}, "tlc:fault")
            else:
                # combined scripts: one concrete instance per abstract script (quick: every 3rd), all in thorough
                if quick and (t * 41 + cidx * 7 + len(k)) % 3:
                    continue
                if not tb[t] or not calls:
                    continue
                pairs = [(rnd.choice(tb[t]), rnd.choice(calls))] if quick else [(x, y) for x in tb[t][:3] for y in calls[:3]]
                for (tt, cc) in pairs:
                    mk({"trunc": tt, "faults": [real_fault(a, req_at, cc)]}, "tlc:trunc+fault")
        # sticky error variant of the first-call faults
        for cc in J[:4]:
            mk({"faults": [{"call": cc, "kind": "err", "err": "TimedOut"}], "sticky": True}, "sticky")
    log(f"[impl] {len(jobs)} reader runs over {len(usable)} streams")
    results = B.run_jobs(jobs, defs)
    B.timeouts_to_toolerror(results)
    classes = set()
    viol_runs = set()
    for i, (j, (s, src), r) in enumerate(zip(jobs, meta, results)):
        vs = judge_reader(s, j, r, s["need"], s["declared"])
        for (what, sig) in vs:
            ctx.violation(what, sig, {"kind": "reader", "stream": s["name"], "dec": s["dec"], "input": B.hexs(s["data"]),
                                      "expect": B.hexs(s["expect"]), "inputs": s.get("inputs", []), "script": j["script"],
                                      "bufs": j["bufs"], "out_limit": j["out_limit"], "source": src})
            viol_runs.add(i)
        sc = j["script"]
        delivered = bool(r.get("injected")) or (sc.get("trunc") is not None and r.get("eof_hits", 0) > 0) or bool(sc.get("chunk"))
        if delivered:
            fk = sc["faults"][0]["kind"] if sc.get("faults") else ("chunk" if sc.get("chunk") else "trunc")
            where = sc["trunc"] if sc.get("trunc") is not None and not sc.get("faults") else \
                s["off_at"].get(sc["faults"][0]["call"], s["need"]) if sc.get("faults") else 0
            classes.add((s.get("group", s["name"]), fk + ("+trunc" if sc.get("faults") and sc.get("trunc") is not None else ""), pos_class(s, where)))
    ctx.cov["reader_runs"] = len(jobs)

    # ---------------- stage 2b: every script on every real writer
    writers = writer_cases(quick, ctx.seed % 1000)
    wdefs = [B.base_def("w_" + w["name"], w["data"]) for w in writers]
    wclean = B.run_jobs([dict(op="encode", id="clean/" + w["name"], base="w_" + w["name"], enc=w["enc"], writes=w["writes"],
                              flush_every=w.get("flush_every"), log=True) for w in writers], wdefs)
    wjobs, wmeta = [], []
    for w, c in zip(writers, wclean):
        if c["o"] != "ok":
            raise ToolError(f"fault-free run of writer {w['name']} failed: {c}")
        ncalls = c["sink_calls"]
        wl = [e for e in c["io"] if e["d"] == "w"]
        req_at = {i: e["req"] for i, e in enumerate(wl)}
        w["off_at"] = {i: e["off"] for i, e in enumerate(wl)}
        w["clean_len"] = c["clean_len"]
        J = call_anchors(c["io"], [0, c["clean_len"]], ncalls, quick)
        jb = buckets(J, 8)

        def mkw(script, src):
            wjobs.append(dict(op="encode", id=f"{w['name']}/{len(wjobs)}", base="w_" + w["name"], enc=w["enc"], writes=w["writes"],
                              flush_every=w.get("flush_every"), script=script))
            wmeta.append((w, src))

        for a in wscripts:
            if a["k"] == "chunk":
                mkw({"chunk": a["m"]}, "tlc:chunk")
                mkw({"chunk": 1 if a["m"] == 1 else 5, "intr_every": 2}, "tlc:chunk+intr")
                continue
            if a["call"] == 0:
                continue
            for cc in jb[a["call"] - 1]:
                mkw({"faults": [real_fault(a, req_at, cc)]}, "tlc:fault")
        mkw({"capacity": max(1, c["clean_len"] // 2)}, "sink-full")
    log(f"[impl] {len(wjobs)} writer runs over {len(writers)} writers")
    wresults = B.run_jobs(wjobs, wdefs)
    B.timeouts_to_toolerror(wresults)
    wviol = set()
    for i, (j, (w, src), r) in enumerate(zip(wjobs, wmeta, wresults)):
        for (what, sig) in judge_writer(w, j, r):
            ctx.violation(what, sig, {"kind": "writer", "writer": w["name"], "enc": w["enc"], "data": B.hexs(w["data"]),
                                      "writes": w["writes"], "flush_every": w.get("flush_every"), "script": j["script"], "source": src})
            wviol.add(i)
        if r.get("injected") or j["script"].get("chunk"):
            sc = j["script"]
            fk = sc["faults"][0]["kind"] if sc.get("faults") else ("chunk" if sc.get("chunk") else "capacity")
            off = w["off_at"].get(sc["faults"][0]["call"], 0) if sc.get("faults") else 0
            cl = "first" if off == 0 else "last" if off >= w["clean_len"] - 1 else "middle"
            classes.add((w["name"], fk, cl))
    ctx.cov["writer_runs"] = len(wjobs)

    # ---------------- stage 3: TLC validates recorded I/O logs (a sample per reader / writer x fault class)
    want = 10 if quick else 60
    pick = collections.defaultdict(list)
    for i, (j, (s, src), r) in enumerate(zip(jobs, meta, results)):
        if i in viol_runs or r["o"] not in ("ok", "err"):
            continue
        sc = j["script"]
        key = (s.get("group", s["name"]), sc["faults"][0]["kind"] if sc.get("faults") else "chunk" if sc.get("chunk") else "trunc")
        if len(pick[key]) < max(1, want // 5):
            pick[key].append(i)
    sel = [i for v in pick.values() for i in v]
    ljobs = [dict(jobs[i], log=True, probe_more=0) for i in sel]      # the monitor judges the run up to its first result
    lres = B.run_jobs(ljobs, defs)
    ev_runs = []
    for i, r in zip(sel, lres):
        s = meta[i][0]
        if len(r.get("io", [])) >= 19_000:
            continue
        tr = jobs[i]["script"].get("trunc")
        if tr is not None and tr < s["need"] and (s.get("unframed") or tr in s.get("concat", {})):
            continue        # a shorter complete stream, not a truncated one
        ev_runs.append((i, reader_events(s, jobs[i], r, s["need"], s["declared"])))
    wpick = collections.defaultdict(list)
    for i, (j, (w, src), r) in enumerate(zip(wjobs, wmeta, wresults)):
        if i in wviol or r["o"] not in ("ok", "err"):
            continue
        sc = j["script"]
        key = (w["name"], sc["faults"][0]["kind"] if sc.get("faults") else "chunk")
        if len(wpick[key]) < 2:
            wpick[key].append(i)
    wsel = [i for v in wpick.values() for i in v]
    wl = B.run_jobs([dict(wjobs[i], log=True) for i in wsel], wdefs)
    for i, r in zip(wsel, wl):
        if len(r.get("io", [])) >= 19_000:
            continue
        ev_runs.append((100000 + i, writer_events(wmeta[i][0], wjobs[i], r)))
    # keep the TLC input bounded
    tot, kept = 0, []
    for (i, ev) in ev_runs:
        if tot + len(ev) > (30_000 if quick else 400_000):
            continue
        tot += len(ev)
        kept.append((i, ev))
    acc, rej = validate_logs(ctx, kept, "io-logs")
    log(f"[trace] {acc} of {len(kept)} I/O logs ({tot} events) accepted by Trace_IoFaults; rejected {rej}")
    for (idx, why) in rej:
        if idx is None:
            raise ToolError("Trace_IoFaults rejected a log that could not be attributed to a run")
        if idx >= 100000:
            j, (w, src) = wjobs[idx - 100000], wmeta[idx - 100000]
            who, rp = w["name"], {"kind": "writer", "writer": w["name"], "enc": w["enc"], "data": B.hexs(w["data"]),
                                  "writes": w["writes"], "flush_every": w.get("flush_every"), "script": j["script"]}
        else:
            j, (s, src) = jobs[idx], meta[idx]
            who, rp = s["name"], {"kind": "reader", "stream": s["name"], "dec": s["dec"], "input": B.hexs(s["data"]),
                                  "expect": B.hexs(s["expect"]), "inputs": s.get("inputs", []), "script": j["script"],
                                  "bufs": j["bufs"], "out_limit": j["out_limit"]}
        if why == "Contracts":
            ctx.note_drift(f"{who}: I/O log breaks a layer contract of Trace_IoFaults under {j['script']} (all C05 oracles hold)")
        else:
            ctx.violation(f"{who}: Trace_IoFaults property {why} fails on the recorded I/O log under {j['script']}",
                          {"side": "trace", "who": who, "outcome": "trace_rejected"}, rp)
    ctx.cov["traces_validated_against_impl"] = acc
    ctx.cov["trace_events"] = tot
    # binding demonstration: an accepted log whose Api record is turned into a false success must be rejected by the monitor
    demo = next((ev for (i, ev) in kept if ev[0]["half"] == "r" and ev[0]["len"] < ev[0]["need"] and ev[-1]["res"] == "err"), None)
    if demo is None:
        raise ToolError("no truncated reader log in the validated sample")
    forged = [dict(e) for e in demo]
    forged[-1] = dict(forged[-1], res="ok", eq=True)
    okd, _, _, rd = core.validate_events("Trace_IoFaults", {}, forged, invariants=("Track", "Props", "Contracts"), timeout=600)
    ctx.note_tlc("trace binding-demonstration", rd)
    if okd or rd.violated != "Props":
        raise ToolError("Trace_IoFaults accepts a truncated run that reports success (the monitor does not discriminate)")
    ctx.add("binding_demonstrations_rejected", 1)

    # ---------------- evidence
    ctx.cov["evaluations"] = len(jobs) + len(wjobs)
    ctx.cov["distinct_nontrivial"] = len(classes)
    ctx.cov["rule"] = ("one evaluation = one run of a real reader / writer under one concrete fault script derived from a TLC "
                       "script; distinct = (reader or writer, fault kind, record-relative position class of the fault) counted "
                       "only when the wrapper actually delivered the fault (truncation: the reader hit the cut)")
    ctx.cov["readers"] = sorted(set(s.get("group", s["name"]) for s in usable))
    ctx.cov["writers"] = [w["name"] for w in writers]
    ctx.cov["asbuilt"] = ab
    by_out = collections.Counter((r["o"]) for r in results)
    ctx.cov["reader_outcomes"] = dict(by_out)
    ctx.cov["writer_outcomes"] = dict(collections.Counter(r["o"] for r in wresults))
    for j in (jobs[:2] + jobs[len(jobs) // 2:len(jobs) // 2 + 2] + wjobs[:2]):
        ctx.sample({k: v for k, v in j.items() if k in ("id", "dec", "enc", "script", "bufs", "writes")})
    if len(classes) < 40:
        raise ToolError(f"vacuous run: only {len(classes)} delivered fault classes")
    for need_kind in ("short", "intr", "err", "trunc", "chunk", "zero"):
        if not any(c[1].startswith(need_kind) for c in classes):
            raise ToolError(f"vacuous run: fault kind {need_kind} never delivered")
    ctx.assumptions += [
        "the readers are judged on well-formed streams produced by liblzma (python lzma) and the group B forge",
        "unbounded output is decided at 2x the declared size + 1 MiB",
        "error kinds injected: PermissionDenied, ConnectionReset, TimedOut (sticky); the property asks for the source's kind",
        "TLC results hold for the 12-byte / 8-call abstract stream; real fault points are a rescaled subset in quick",
    ]
    ctx.finish()


def run_replay(ctx, path):
    rp = json.load(open(path))["replay"]
    if rp["kind"] == "reader":
        job = dict(op="decode", id="replay", input=rp["input"], expect=rp["expect"], dec=rp["dec"], script=rp["script"],
                   inputs=rp.get("inputs", []), bufs=rp.get("bufs", [4096]), out_limit=rp.get("out_limit"), probe_more=16)
        clean = dict(job, script={}, id="clean", probe_more=0)
        c, r = B.run_jobs([clean, job])
        s = {"name": rp["stream"], "dec": rp["dec"]}
        print(json.dumps({k: v for k, v in r.items() if k not in ("io",)}))
        for (what, sig) in judge_reader(s, job, r, c["src_max_off"], len(bytes.fromhex(rp["expect"]))):
            ctx.violation(what, sig, rp)
    else:
        job = dict(op="encode", id="replay", input=rp["data"], enc=rp["enc"], writes=rp["writes"], flush_every=rp.get("flush_every"),
                   script=rp["script"])
        r = B.run_jobs([job])[0]
        print(json.dumps({k: v for k, v in r.items() if k not in ("io",)}))
        for (what, sig) in judge_writer({"name": rp["writer"], "enc": rp["enc"]}, job, r):
            ctx.violation(what, sig, rp)
    B.finish_replay(ctx, rp.get("script"))
