"""C04: corrupted XZ / LZIP input is never returned as valid different data.

Pipeline (DESIGN.md 2.1, 4.8, 6/C04):
 1. TLC on spec/Corruption.tla: every single-record alteration (field x change class x CRC fix-up), every
    record / unit deletion, duplication, transposition, non-format prefixes and appended bytes of every
    well-formed abstract file shape; RejectsDamage must hold for the intended reader design, and every case is
    exported with the outcome the reader halves AS BUILT predict.
 2. bforge.py concretises every case to bytes (CRCs recomputed where the class says so); the real XZReader,
    LZIPReader and LZIPReaderMT read them.
 3. TLC (Trace_Corruption.tla) rebuilds every altered file and judges the observed outcome: tolerated by C04
    (else VIOLATION) and predicted by the as-built reader half (else DRIFT).
 4. Outside TLC: every single-bit flip of small real files, seeded byte mutations of larger ones with and
    without CRC fix-up, and non-format byte strings, judged by the same rule in python.
"""
import json, os, random, struct, collections, zlib
from concurrent.futures import ThreadPoolExecutor
from vlib import core
from vlib.core import log, ToolError
from checks import blib as B, bforge as F

MANIFEST = dict(
    level="exploration",
    technique="TLA+ spec Corruption (abstract XZ / LZIP record sequences, alteration set, reader halves) model-checked with "
              "TLC; every abstract altered file TLC enumerates is concretised to bytes and read by the real XZReader / "
              "LZIPReader / LZIPReaderMT; TLC (Trace_Corruption) judges the observed outcomes against the tolerated and the "
              "predicted classes; exhaustive bit flips and seeded mutations on top",
    text="TLC enumerates every single-record alteration (field x change class x CRC fix-up yes/no), every record- and "
         "unit-level deletion / duplication / transposition, non-format prefixes and appended bytes of well-formed XZ files "
         "(0-2 blocks, 1-2 streams, CRC32 / CRC64 / SHA-256) and LZIP files (1-2 members), proves RejectsDamage for the intended "
         "reader design and predicts the outcome of the readers as built. Every case is assembled into a concrete file and read "
         "by the real readers; a case fails when a reader reports success with content other than the original (LZIP trailing "
         "garbage after a complete member excepted as the format defines it) or accepts input whose first header is not valid. "
         "The same rule is applied to every single-bit flip of four small files, to seeded byte mutations (with container CRCs "
         "recomputed) of larger ones and to non-format byte strings.",
    ref="4.8, 5.2, 6/C04",
    note="Held on everything explored, not proved for all inputs. An edit that leaves a well-formed file (whole LZIP members "
         "removed, duplicated or reordered: the format has no integrity data across members) is outside what any reader can "
         "detect and is accepted with that file's own content. CRC32 collisions are not searched for. Payloads come from "
         "liblzma; abstract shapes are limited to <= 2 blocks / members and <= 2 streams.",
    ready=True)

ASBUILT_FILE = os.path.join(core.VERIF, "spec", "asbuilt_groupB.json")
VARIANTS = ["ChecksIndexUnpadded", "ChecksIndexUncompressed", "ChecksPadAtEof", "ChecksBlockSizes", "ChecksBackward", "ChecksReserved", "FirstHeaderStrict", "LaterHeaderStrict",
            "MtPrefixStrict"]


def asbuilt():
    d = {v: False for v in VARIANTS}
    if os.path.exists(ASBUILT_FILE):
        d.update(json.load(open(ASBUILT_FILE)).get("corruption", {}))
    return d


def consts(fmt, nu, ns, prof, variants):
    c = {"Format": '"%s"' % fmt, "NUnits": str(nu), "NStreams": str(ns), "SizeProfile": '"%s"' % prof}
    for v in VARIANTS:
        c[v] = "TRUE" if variants[v] else "FALSE"
    return c


# --------------------------------------------------------------------------------------------- concretisation
CONTENT_SPEC = {1: ("text", 700), 2: ("mixed", 1301), 3: ("random", 402), 4: ("text", 903)}


def same_csize_pair():
    """two different contents of different length whose LZMA2 payloads have the same length"""
    seen = {}
    for n in range(300, 2000, 7):
        for pat in (b"ab", b"cdx"):
            d = pat * n
            key = (len(F.lzma2_raw(d, 4096)), len(F.vli(len(d))))
            if key in seen and seen[key][:2] != pat[:2] and len(seen[key]) != len(d):
                return seen[key], d
            seen.setdefault(key, d)
    raise ToolError("no pair of contents with equal compressed size found")


class Shape:
    def __init__(self, fmt, nu, ns, prof, seed, check):
        self.fmt, self.nu, self.ns, self.check, self.prof = fmt, nu, ns, check, prof
        self.xz = fmt == "xz"
        self.content = {i: F.gen_data(c, n, seed + i) for i, (c, n) in CONTENT_SPEC.items()}
        if prof == "same_usize":
            # equal uncompressed size, different compressed size: only the unpadded size tells the blocks apart
            self.content = {1: F.gen_data("text", 1000, seed), 2: F.gen_data("random", 1000, seed + 1),
                            3: F.gen_data("mixed", 1000, seed + 2), 4: F.gen_data("zeros", 1000, seed + 3)}
        elif prof == "same_csize":
            a, b = same_csize_pair()
            self.content = {1: a, 2: b, 3: a[:len(a) // 2] + b"!", 4: b[:len(b) // 2] + b"?"}
        if self.xz:
            recs = []
            for s in range(1, ns + 1):
                st = F.xz_stream([self.content[(s - 1) * nu + u] for u in range(1, nu + 1)], check, 4096, with_sizes=True, sno=s)
                for r in st:
                    r.info["u"] = r.info.get("b", -1) + 1 if r.kind in ("BH", "DATA", "PAD", "CHECK") else 0
                recs += st
                if s < ns:
                    recs.append(F.Rec("SPAD", b"\0" * 4, s=s, u=0))
            self.recs = recs
        else:
            recs = []
            for u in range(1, nu + 1):
                m = F.lz_member(self.content[u], 4096, mno=u)
                for r in m:
                    r.info["s"], r.info["u"] = 1, u
                recs += m
            self.recs = recs
        self.base = F.assemble(self.recs)
        self.original = b"".join(self.content[i] for i in range(1, nu * (ns if self.xz else 1) + 1))

    def unit_id(self, r):
        return (r.info["s"] - 1) * self.nu + r.info["u"]

    def dec(self):
        if self.fmt == "xz":
            return {"kind": "xz", "multi": self.ns > 1}
        if self.fmt == "lzip":
            return {"kind": "lzip"}
        return {"kind": "lzip_mt", "workers": 2}

    # ---- one record, one damage class -> new raw bytes (None = class not applicable to this concrete record)
    def damage(self, idx, cls):
        r = self.recs[idx]
        raw = bytearray(r.raw)
        k = r.kind
        if k == "SH":
            if cls == "magic":
                raw[2] ^= 0x20
            elif cls == "crc":
                raw[9] ^= 0x01
            else:
                if cls.startswith("flags_unsupported"):
                    raw[7] = 0x02
                elif cls == "flags_reserved_fix":
                    raw[6] = 0x01
                elif cls == "flags_othercheck_fix":
                    raw[7] = 0x04 if raw[7] != 0x04 else 0x01
                if cls.endswith("_fix"):
                    raw[8:12] = F.crc32(bytes(raw[6:8]))
        elif k == "BH":
            body_end = len(raw) - 4

            def fix():
                raw[body_end:body_end + 4] = F.crc32(bytes(raw[:body_end]))
            # locate the fields: flags, [csize], [usize], filter id 0x21, props size 1, dict prop, padding
            flags = raw[1]
            off = 2
            cs_at = us_at = None
            if flags & 0x40:
                cs_at = off
                while raw[off] & 0x80:
                    off += 1
                off += 1
            if flags & 0x80:
                us_at = off
                while raw[off] & 0x80:
                    off += 1
                off += 1
            fid_at = off
            prop_at = off + 2
            pad_at = off + 3
            if cls == "size_zero":
                raw[0] = 0
            elif cls == "size_wrong_nofix":
                raw[0] += 1
            elif cls == "size_grown_fix":
                raw = bytearray(bytes([raw[0] + 1]) + bytes(raw[1:body_end]) + b"\0\0\0\0" + b"\0\0\0\0")
                body_end = len(raw) - 4
                fix()
            elif cls == "flags_reserved_fix":
                raw[1] |= 0x04
                fix()
            elif cls == "filter_unknown_fix":
                raw[fid_at] = 0x22
                fix()
            elif cls == "dictprop_invalid_fix":
                raw[prop_at] = 41
                fix()
            elif cls == "dict_larger_fix":
                raw[prop_at] += 2
                fix()
            elif cls == "csize_wrong_fix":
                if cs_at is None:
                    return None
                raw[cs_at] ^= 0x01
                fix()
            elif cls == "usize_wrong_fix":
                if us_at is None:
                    return None
                raw[us_at] ^= 0x01
                fix()
            elif cls == "hdrpad_nonzero_fix":
                if pad_at >= body_end:
                    return None
                raw[pad_at] = 0x01
                fix()
            elif cls == "crc":
                raw[body_end + 1] ^= 0x10
        elif k == "DATA":
            if cls == "flip":
                raw[len(raw) // 2] ^= 0x08
            elif cls == "ctrl_reserved":
                raw[0] = 0x03
            elif cls == "terminator_bad":
                raw[-1] = 0x03
        elif k == "PAD":
            if not raw:
                return None
            raw[-1] = 0x01
        elif k == "CHECK":
            raw[len(raw) // 2] ^= 0x40
        elif k == "INDEX":
            body_end = len(raw) - 4

            def fix():
                raw[body_end:body_end + 4] = F.crc32(bytes(raw[:body_end]))
            if cls.startswith("count_plus"):
                raw[1] += 1
            elif cls == "count_zero_fix":
                if raw[1] == 0:
                    return None
                raw[1] = 0
            elif cls == "unpadded_wrong_fix":
                if raw[1] == 0:
                    return None
                raw[2] ^= 0x04
            elif cls == "uncomp_wrong_fix":
                if raw[1] == 0:
                    return None
                # the uncompressed size follows the (1- or 2-byte) unpadded size of the first record
                j = 2
                while raw[j] & 0x80:
                    j += 1
                raw[j + 1] ^= 0x01
            elif cls == "pad_nonzero_fix":
                # index padding = the zero bytes in front of the CRC
                j = body_end - 1
                recs_len = 2 + sum(len(F.vli(a)) + len(F.vli(b)) for (a, b) in r.info["records"])
                if recs_len >= body_end:
                    return None
                raw[j] = 0x01
            elif cls == "crc":
                raw[body_end] ^= 0x01
            if cls.endswith("_fix"):
                fix()
        elif k == "FOOTER":
            if cls == "crc":
                raw[0] ^= 0x80
            elif cls == "magic":
                raw[11] ^= 0x01
            else:
                if cls == "backward_wrong_fix":
                    raw[4] ^= 0x01
                elif cls == "flags_mismatch_fix":
                    raw[9] = 0x04 if raw[9] != 0x04 else 0x01
                raw[0:4] = F.crc32(bytes(raw[4:10]))
        elif k == "SPAD":
            if cls == "len_not_mult4":
                raw = raw[:2]
            else:
                raw[1] = 0x01
        elif k == "LHDR":
            if cls == "magic":
                raw[1] ^= 0x02
            elif cls == "version":
                raw[4] = 2
            elif cls == "dict_invalid":
                raw[5] = 0x0B
            elif cls == "dict_larger":
                raw[5] += 1
        elif k == "LBODY":
            raw[len(raw) // 2] ^= 0x08
        elif k == "LTRL":
            if cls == "crc":
                raw[1] ^= 0x01
            elif cls == "dsize":
                raw[4] ^= 0x01
            elif cls == "msize":
                raw[12] ^= 0x01
        return bytes(raw)

    def junk(self, cls):
        own = F.XZ_MAGIC if self.xz else F.LZIP_MAGIC
        other = (F.LZIP_MAGIC + b"\x01\x0c") if self.xz else F.XZ_MAGIC
        return {"zeros4": b"\0" * 4, "zeros3": b"\0" * 3, "text9": b"not a hdr", "text30": b"this is thirty bytes of text...",
                "other_magic": other, "half_magic": own[:2], "garbage": b"\x13\x37 garbage \xff\xfe\x00\x01" * 2,
                "magic_garbage": own + b"\x05\xff\x00 junk after magic"}[cls]

    def concretise(self, case):
        """returns bytes of the altered file or None when the class does not apply to the concrete record"""
        t, i, c = case["t"], case["i"], case["c"]
        recs = self.recs
        raws = [r.raw for r in recs]
        if t == "none":
            return self.base
        if t == "cut":
            raw = raws[i - 1]
            n = len(raw) // 2 if c == "mid" else int(c)
            if n >= len(raw) or (c == "mid" and n <= 5):
                return None
            return b"".join(raws[:i - 1]) + raw[:n]
        if t == "field":
            nr = self.damage(i - 1, c)
            if nr is None:
                return None
            raws[i - 1] = nr
        elif t == "del":
            del raws[i - 1]
        elif t == "dup":
            raws.insert(i - 1, raws[i - 1])
        elif t == "swap":
            raws[i - 1], raws[i] = raws[i], raws[i - 1]
        elif t in ("delunit", "dupunit"):
            idx = [j for j, r in enumerate(recs) if r.info.get("u") and self.unit_id(r) == i]
            a, b = idx[0], idx[-1]
            raws = raws[:a] + raws[b + 1:] if t == "delunit" else raws[:b + 1] + raws[a:]
        elif t == "swapunits":
            ia = [j for j, r in enumerate(recs) if r.info.get("u") and self.unit_id(r) == (i - 1) * self.nu + 1]
            ib = [j for j, r in enumerate(recs) if r.info.get("u") and self.unit_id(r) == (i - 1) * self.nu + 2]
            raws = raws[:ia[0]] + raws[ib[0]:ib[-1] + 1] + raws[ia[0]:ia[-1] + 1] + raws[ib[-1] + 1:]
        elif t == "prefix":
            raws = [self.junk(c)] + raws
        elif t == "append":
            raws = raws + [self.junk(c)]
        return b"".join(raws)

    def out_ids(self, out_bytes):
        """decomposes reader output into unit ids; 99 = not a concatenation of whole units"""
        ids, pos = [], 0
        n = self.nu * (self.ns if self.xz else 1)
        while pos < len(out_bytes):
            for i in range(1, n + 1):
                c = self.content[i]
                if out_bytes[pos:pos + len(c)] == c:
                    ids.append(i)
                    pos += len(c)
                    break
            else:
                return ids + [99]
        return ids


# --------------------------------------------------------------------------------------------- byte-level oracle
def xz_first_header_valid(b):
    if len(b) < 12 or b[:6] != F.XZ_MAGIC or b[6] != 0 or b[7] > 15:
        return False
    return b[8:12] == F.crc32(b[6:8])


def lz_first_header_valid(b):
    if len(b) < 6 or b[:4] != F.LZIP_MAGIC or b[4] != 1:
        return False
    n, fr = b[5] & 0x1F, b[5] >> 5
    return 12 <= n <= 29 and (1 << n) - (1 << n >> 4) * fr >= 4096


def judge_bytes(fmt, mutated, original, allowed_alt, r):
    """fmt: 'xz' | 'lzip'; allowed_alt: other acceptable contents (LZIP trailing garbage); returns outcome class or None"""
    o = r["o"]
    if o in ("panic", "abort", "spin"):
        return None          # C06's subject; not judged here (reported there)
    if o == "err" or o == "intr_stuck":
        return None
    if o == "unbounded":
        return "unbounded"
    valid = xz_first_header_valid(mutated) if fmt == "xz" else lz_first_header_valid(mutated)
    out = bytes.fromhex(r.get("out", "")) if "out" in r else None
    if not valid:
        return "bad_first_header_accepted"
    if r.get("eq"):
        return None
    if out is not None and any(out == a for a in allowed_alt):
        return None
    return "ok_empty" if r["n"] == 0 else "ok_different"


def lz_alternatives(shape_members, mutated, base):
    """LZIP trailing-garbage rule for length-preserving edits: if everything in front of member i (i >= 2) is untouched
    and the four bytes at its start are no longer the magic, the content of members < i is acceptable."""
    alts = []
    off = 0
    content = b""
    for (mlen, data) in shape_members:
        if off > 0 and len(mutated) == len(base) and mutated[:off] == base[:off] and mutated[off:off + 4] != F.LZIP_MAGIC:
            alts.append(content)
        off += mlen
        content += data
    return alts


# --------------------------------------------------------------------------------------------- the check
D = "distinct"
SHAPES_QUICK = [("xz", 2, 1, D), ("xz", 2, 1, "same_usize"), ("xz", 2, 1, "same_csize"), ("xz", 0, 1, D), ("xz", 1, 2, D),
                ("lzip", 1, 1, D), ("lzip", 2, 1, D), ("lzip_mt", 2, 1, D)]
SHAPES_MORE = [("xz", 1, 1, D), ("lzip_mt", 1, 1, D), ("xz", 2, 2, D), ("xz", 2, 2, "same_usize")]


def tlc_shape(fmt, nu, ns, prof, variants, strict):
    c = consts(fmt, nu, ns, prof, {v: True for v in VARIANTS} if strict else variants)
    inv = ("RejectsDamage", "IntactAccepted") if strict else ("IntactAccepted", "Export")
    d, mod, cfg = core.write_model("Corruption", c, invariants=inv)
    r = core.run_tlc(mod, cfg, workers=1, cwd=d, timeout=900)
    cases = []
    for line in r.printed:
        if line.startswith('"'):
            try:
                s = json.loads(line)
                if isinstance(s, str) and s.startswith("{"):
                    cases.append(json.loads(s))
            except ValueError:
                pass
    return r, cases


def trace_shape(fmt, nu, ns, prof, variants, events):
    c = consts(fmt, nu, ns, prof, variants)
    d, mod, cfg = core.write_model("Trace_Corruption", c, spec="TSpec", invariants=("Track", "Judge"), postcondition="Accepted")
    tp = os.path.join(d, "trace.ndjson")
    with open(tp, "w") as f:
        for e in events:
            f.write(json.dumps(e) + "\n")
    ok, reached, total, r = core.validate_trace(mod, cfg, tp, cwd=d, timeout=900)
    verdicts = {}
    for line in r.printed:
        if line.startswith('"'):
            try:
                s = json.loads(line)
                if isinstance(s, str) and s.startswith("{"):
                    v = json.loads(s)
                    verdicts[v["l"]] = v
            except ValueError:
                pass
    return ok, r, verdicts


def run(tier, replay=None):
    ctx = core.Check("C04", tier, "exploration")
    B.bindir()
    if replay:
        return run_replay(ctx, replay)
    quick = tier == "quick"
    rnd = random.Random(ctx.seed)
    variants = asbuilt()
    shapes = list(SHAPES_QUICK)
    if not quick:
        shapes += SHAPES_MORE
    checks = ["crc32", "crc64", "sha256"]

    # ---------------- stage 1: TLC, intended design (RejectsDamage) and as-built export
    with ThreadPoolExecutor(max_workers=8) as ex:
        fs = {sh: (ex.submit(tlc_shape, *sh, variants, True), ex.submit(tlc_shape, *sh, variants, False)) for sh in shapes}
        tl = {sh: (a.result(), b.result()) for sh, (a, b) in fs.items()}
    all_cases = {}
    for sh, ((rs, _), (ra, cases)) in tl.items():
        ctx.note_tlc(f"design {sh} intended", rs)
        ctx.note_tlc(f"design {sh} as-built export", ra)
        log(f"[tlc] {sh}: intended {rs}; as-built {ra} cases={len(cases)}")
        if not rs.ok:
            raise ToolError(f"Corruption {sh}: RejectsDamage fails for the intended reader design: {rs.violated} {rs.trace[-1]['vars'] if rs.trace else ''}")
        if not ra.ok:
            raise ToolError(f"Corruption {sh}: as-built export run failed: {ra.violated}")
        ctx.require_coverage(ra, ["Read"], str(sh))
        if len(cases) < 20:
            raise ToolError(f"Corruption {sh}: only {len(cases)} cases exported")
        all_cases[sh] = cases
    ctx.cov["abstract_cases"] = {f"{a}-{b}u-{c}s-{p_}": len(v) for (a, b, c, p_), v in all_cases.items()}
    predicted_bad = {f"{a}-{b}u-{c}s-{p_}": [f"{x['t']}:{x['k']}:{x['c']}:{x['i']}" for x in v if not x["tolerated"]] for (a, b, c, p_), v in all_cases.items()}
    ctx.cov["as_built_model_predicts_intolerable"] = {k: v for k, v in predicted_bad.items() if v}

    # ---------------- stage 2: concretise and run
    jobs, meta, defs = [], [], []
    shape_objs = {}
    for si, sh in enumerate(shapes):
        S = Shape(sh[0], sh[1], sh[2], sh[3], ctx.seed % 997 + si, checks[si % 3])
        shape_objs[sh] = S
        # the forge is cross-checked against liblzma
        if S.xz and F.py_xz_decode(S.base) != S.original:
            raise ToolError(f"forge self-check failed: liblzma does not reproduce the content of shape {sh}")
        for ci, case in enumerate(all_cases[sh]):
            b = S.concretise(case)
            if b is None:
                ctx.add("cases_not_applicable")
                continue
            if b == S.base and case["t"] != "none":
                ctx.add("cases_identity")
                continue
            jobs.append(dict(op="decode", id=f"{sh}/{ci}", input=B.hexs(b), expect=B.hexs(S.original), dec=S.dec(),
                             keep_out=True, out_limit=1 << 26, bufs=[4096, 333]))
            meta.append((sh, case, b))
    log(f"[impl] {len(jobs)} structured cases")
    results = B.run_jobs(jobs)
    B.timeouts_to_toolerror(results)
    # the intact file must be accepted, otherwise the shape says nothing about corruption (another property's finding)
    skip = set()
    for (sh, case, b), r in zip(meta, results):
        if case["t"] == "none" and not (r["o"] == "ok" and r.get("eq")):
            skip.add(sh)
            ctx.cov.setdefault("shapes_skipped", []).append({"shape": list(sh), "result": r["o"], "msg": r.get("m")})
    # ---------------- stage 3: TLC judges the observed outcomes
    ev_by_shape = collections.defaultdict(list)
    for (sh, case, b), r in zip(meta, results):
        if sh in skip:
            continue
        S = shape_objs[sh]
        if r["o"] == "ok":
            res, out = "ok", S.out_ids(bytes.fromhex(r.get("out", "")))
        elif r["o"] in ("err", "intr_stuck"):
            res, out = "err", []
        else:
            res, out = "err", []      # panic / abort are judged by C06; here they are "not a success"
            ctx.add("cases_panicked_or_aborted")
        ev_by_shape[sh].append(({"t": case["t"], "i": case["i"], "c": case["c"], "res": res, "out": out}, case, b, r))
    # binding demonstration: two synthetic observations per shape that the trace spec must judge intolerable (a success with
    # the empty result on the intact file, a success with an unknown unit) -- otherwise the judge does not discriminate
    DEMO = [{"t": "none", "i": 0, "c": "none", "res": "ok", "out": [99]}, {"t": "prefix", "i": 0, "c": "text9", "res": "ok", "out": []}]
    with ThreadPoolExecutor(max_workers=8) as ex:
        futs = {sh: ex.submit(trace_shape, *sh, variants, [e for (e, _, _, _) in evs] + DEMO) for sh, evs in ev_by_shape.items()}
        tr = {sh: f.result() for sh, f in futs.items()}
    for sh, (ok, r, verdicts) in tr.items():
        n = len(ev_by_shape[sh])
        for k in (n + 1, n + 2):
            if k not in verdicts or verdicts[k]["tol"]:
                raise ToolError(f"Trace_Corruption {sh}: synthetic intolerable observation {k - n} was not rejected")
            del verdicts[k]
    ctx.add("binding_demonstrations_rejected", 2 * len(tr))
    classes = set()
    n_judged = 0
    for sh, (ok, r, verdicts) in tr.items():
        ctx.note_tlc(f"trace {sh}", r)
        evs = ev_by_shape[sh]
        if not ok or len(verdicts) != len(evs):
            raise ToolError(f"Trace_Corruption {sh}: {len(verdicts)} verdicts for {len(evs)} events ({r.violated})")
        S = shape_objs[sh]
        for li, (e, case, b, res) in enumerate(evs, start=1):
            v = verdicts[li]
            n_judged += 1
            classes.add((sh[0] + ":" + sh[3], sh[1], sh[2], case["t"], case["k"], case["c"], e["res"]))
            if not v["tol"]:
                got = "the empty result" if (e["res"] == "ok" and not e["out"]) else f"units {e['out']}"
                what = (f"{S.dec()['kind']} on {sh[0]} file ({sh[1]} units, {sh[2]} streams, sizes {sh[3]}), alteration {case['t']} "
                        f"{case['k']}[{case['i']}] {case['c']}: reader reports success with {got}, original {list(range(1, len(S.original) and (sh[1] * (sh[2] if S.xz else 1)) + 1))}")
                ctx.violation(what, {"family": "structured", "dec": S.dec()["kind"], "t": case["t"], "k": case["k"], "c": case["c"],
                                     "outcome": "ok_empty" if not e["out"] else "ok_different"},
                              {"input": B.hexs(b), "expect": B.hexs(S.original), "dec": S.dec(), "format": sh[0], "case": case,
                               "alts": [B.hexs(b"".join(S.content[i] for i in seq)) for seq in case["allowed_ok"]]})
            elif not v["pred"]:
                ctx.note_drift(f"{sh} {case['t']} {case['k']}[{case['i']}] {case['c']}: as-built model predicts {v['pres']} {v['pout']}, "
                               f"reader gave {e['res']} {e['out']} ({res.get('m', '')})")
    ctx.cov["traces_validated_against_impl"] = n_judged
    ctx.cov["structured_cases"] = n_judged

    # ---------------- stage 4: byte level
    bjobs, bmeta, bdefs = [], [], []
    small = [
        ("xz_crc32_small", "xz", F.xz_stream([b"hello hello hello world\n" * 2], "crc32", 4096), b"hello hello hello world\n" * 2, {"kind": "xz"}),
        ("xz_crc64_small", "xz", F.xz_stream([F.gen_data("random", 40, 5)], "crc64", 4096, with_sizes=True), F.gen_data("random", 40, 5), {"kind": "xz"}),
        ("lzip_small", "lzip", F.lz_file([b"abcabcabcabc hello\n" * 3], 4096), b"abcabcabcabc hello\n" * 3, {"kind": "lzip"}),
        ("lzip_2_small", "lzip", F.lz_file([b"first member\n", b"second member here\n"], 4096), b"first member\nsecond member here\n", {"kind": "lzip"}),
    ]
    files = []
    for (name, fmt, recs, content, dec) in small:
        files.append((name, fmt, recs, content, dec, "flips"))
        if fmt == "lzip":
            files.append((name + "_mt", fmt, recs, content, {"kind": "lzip_mt", "workers": 2}, "flips"))
    big1 = F.gen_data("text", 6000, 11)
    big2 = F.gen_data("mixed", 5000, 12)
    files.append(("xz_sha256_2blocks", "xz", F.xz_stream([big1, big2], "sha256", 1 << 16, with_sizes=True), big1 + big2, {"kind": "xz"}, "seeded"))
    files.append(("xz_delta", "xz", F.xz_stream([big2], "crc32", 4096, pre=(("delta", 2),)), big2, {"kind": "xz"}, "seeded"))
    files.append(("lzip_3", "lzip", F.lz_file([big1[:2000], big2[:3000], big1[:50]], 4096), big1[:2000] + big2[:3000] + big1[:50], {"kind": "lzip"}, "seeded"))
    files.append(("lzip_3_mt", "lzip", F.lz_file([big1[:2000], big2[:3000], big1[:50]], 4096), big1[:2000] + big2[:3000] + big1[:50],
                  {"kind": "lzip_mt", "workers": 2}, "seeded"))
    n_seeded = 400 if quick else 20000
    for (name, fmt, recs, content, dec, mode) in files:
        data = F.assemble(recs)
        if fmt == "xz" and F.py_xz_decode(data) != content:
            raise ToolError(f"forge self-check failed for {name}")
        bdefs.append(B.base_def("b_" + name, data, content))
        members = []
        if fmt == "lzip":
            cur = 0
            for r in recs:
                cur += len(r.raw)
                if r.kind == "LTRL":
                    members.append(cur)
            mm, prev = [], 0
            for i, e in enumerate(members):
                mm.append((e - prev, [r for r in recs if r.kind == "LBODY"][i].info["usize"]))
                prev = e
            pos, ml = 0, []
            for (mlen, us) in mm:
                ml.append((mlen, content[pos:pos + us]))
                pos += us
            members = ml
        # CRC fix-ups: every container CRC32 whose region the mutation may touch
        fixes = []
        for (k, a, b_, info) in F.layout(recs):
            if k == "SH":
                fixes.append({"at": a + 8, "from": a + 6, "to": a + 8, "algo": "crc32"})
            elif k in ("BH", "INDEX"):
                fixes.append({"at": b_ - 4, "from": a, "to": b_ - 4, "algo": "crc32"})
            elif k == "FOOTER":
                fixes.append({"at": a, "from": a + 4, "to": a + 10, "algo": "crc32"})
        base = dict(op="decode", base="b_" + name, dec=dec, keep_out=True, out_limit=1 << 26, keep_input=True)
        if mode == "flips" or (not quick and len(data) <= 4096):
            for bit in range(len(data) * 8):
                bjobs.append(dict(base, id=f"{name}/flip{bit}", mutn={"flip": bit}))
                bmeta.append((name, fmt, data, content, members, "bitflip"))
            if fixes:
                for bit in range(len(data) * 8):
                    if any(f["from"] * 8 <= bit < f["to"] * 8 for f in fixes):
                        bjobs.append(dict(base, id=f"{name}/flipfix{bit}", mutn={"flip": bit, "fix": fixes}))
                        bmeta.append((name, fmt, data, content, members, "bitflip+crcfix"))
        if mode != "flips":
            for i in range(n_seeded):
                sd = rnd.getrandbits(40)
                m = {"seeded": {"seed": sd, "n": 1 + i % 4}}
                kind = "seeded"
                if fixes and i % 2:
                    m["fix"] = fixes
                    kind = "seeded+crcfix"
                bjobs.append(dict(base, id=f"{name}/s{i}", mutn=m))
                bmeta.append((name, fmt, data, content, members, kind))
    # non-format inputs: must be rejected, never decoded as an empty file
    nonfmt = [b"\0" * 1, b"\0" * 64, b"plain text, not compressed at all\n" * 3, F.XZ_MAGIC, F.LZIP_MAGIC, F.LZIP_MAGIC + b"\x01",
              b"LZIP\x00\x0c" + b"\0" * 30, b"\x1f\x8b\x08\x00" + b"\0" * 20, b"BZh91AY&SY" + b"\x55" * 20, F.XZ_MAGIC[:5], b"\xfd7zXZ\x00\x00\x01" + b"\0" * 4,
              bytes(rnd.getrandbits(8) for _ in range(200)), bytes(rnd.getrandbits(8) for _ in range(7)), b"L", b"LZ", b"LZI",
              F.assemble(F.lzma_alone(b"an .lzma file is not an .xz / .lz file" * 3, 4096)), F.lzma2_raw(b"raw lzma2" * 10, 4096)]
    for i, d in enumerate(nonfmt):
        for dec in ({"kind": "xz"}, {"kind": "xz", "multi": True}, {"kind": "lzip"}, {"kind": "lzip_mt", "workers": 2}):
            bjobs.append(dict(op="decode", id=f"nonformat/{i}/{dec['kind']}", input=B.hexs(d), dec=dec, keep_out=True, out_limit=1 << 20, keep_input=True))
            bmeta.append(("nonformat", "xz" if dec["kind"] == "xz" else "lzip", d, None, [], "nonformat"))
    log(f"[impl] {len(bjobs)} byte-level cases")
    bres = B.run_jobs(bjobs, bdefs)
    B.timeouts_to_toolerror(bres)
    bcount = collections.Counter()
    for j, (name, fmt, data, content, members, kind), r in zip(bjobs, bmeta, bres):
        mutated = bytes.fromhex(r["input"]) if "input" in r else data
        bcount[(kind, r["o"])] += 1
        if kind == "nonformat":
            if r["o"] in ("ok", "unbounded"):
                ctx.violation(f"{j['dec']['kind']}: non-format input of {len(mutated)} bytes ({mutated[:12].hex()}...) is accepted: "
                              f"{r['n']} bytes of output", {"family": "nonformat", "dec": j["dec"]["kind"], "outcome": "ok_empty" if r["n"] == 0 else "ok_different"},
                              {"input": B.hexs(mutated), "dec": j["dec"], "format": fmt, "expect": None})
            classes.add(("nonformat", j["dec"]["kind"], len(mutated) > 20, r["o"]))
            continue
        if mutated == data:
            continue
        alts = lz_alternatives(members, mutated, data) if fmt == "lzip" else []
        oc = judge_bytes(fmt, mutated, content, alts, r)
        classes.add((name, kind, r["o"], bool(r.get("eq"))))
        if oc:
            diffs = [i for i in range(min(len(mutated), len(data))) if mutated[i] != data[i]]
            ctx.violation(f"{j['dec']['kind']} on {name} ({kind}, bytes changed at {diffs[:6]}): reader reports success with "
                          f"{r['n']} bytes, original has {len(content)} ({oc})",
                          {"family": kind.split("+")[0], "dec": j["dec"]["kind"], "file": name, "outcome": oc},
                          {"input": B.hexs(mutated), "expect": B.hexs(content), "dec": j["dec"], "format": fmt,
                           "alts": [B.hexs(a) for a in alts]})
    ctx.cov["byte_level_cases"] = len(bjobs)
    ctx.cov["byte_level_outcomes"] = {f"{k}:{o}": n for (k, o), n in sorted(bcount.items())}

    ctx.cov["evaluations"] = len(jobs) + len(bjobs)
    ctx.cov["distinct_nontrivial"] = len(classes)
    ctx.cov["rule"] = ("one evaluation = one altered / non-format file read by one real reader; distinct = (shape, alteration type, "
                       "record kind, change class, outcome) for the TLC cases and (file, mutation kind, outcome, content equal) for "
                       "the byte-level cases; identical-bytes alterations are dropped before counting")
    ctx.cov["asbuilt"] = variants
    for (sh, case, b) in meta[:3] + meta[len(meta) // 2:len(meta) // 2 + 2]:
        ctx.sample({"shape": list(sh), "case": {k: case[k] for k in ("t", "k", "i", "c", "res", "out")}, "bytes": len(b)})
    ctx.sample({k: v for k, v in bjobs[0].items() if k in ("id", "dec", "mutn")})
    need = {("field", "err"), ("del", "err"), ("dup", "err"), ("swap", "err"), ("prefix", "err"), ("cut", "err"), ("swapunits", "err")}
    seen = {(c[3], c[6]) for c in classes if len(c) == 7}
    if not need <= seen:
        raise ToolError(f"vacuous run: alteration classes never rejected by a reader: {need - seen}")
    if bcount[("bitflip", "err")] < 500:
        raise ToolError("vacuous run: fewer than 500 rejected bit flips")
    ctx.assumptions += [
        "payloads are produced by liblzma, containers by the group B forge (cross-checked against liblzma's decoder)",
        "an edit that leaves a well-formed LZIP file of whole members is accepted with that file's content",
        "CRC collisions are not searched for",
    ]
    ctx.finish()


def run_replay(ctx, path):
    rp = json.load(open(path))["replay"]
    job = dict(op="decode", id="replay", input=rp["input"], dec=rp["dec"], keep_out=True, out_limit=1 << 24)
    if rp.get("expect") is not None:
        job["expect"] = rp["expect"]
    r = B.run_jobs([job])[0]
    print(json.dumps({k: v for k, v in r.items() if k != "out"}))
    mutated = bytes.fromhex(rp["input"])
    if rp.get("expect") is None:
        if r["o"] in ("ok", "unbounded"):
            ctx.violation(f"{rp['dec']['kind']}: non-format input accepted ({r['n']} bytes of output)",
                          {"family": "nonformat", "dec": rp["dec"]["kind"], "outcome": "ok_empty" if r["n"] == 0 else "ok_different"}, rp)
    else:
        alts = [bytes.fromhex(a) for a in rp.get("alts", [])]
        oc = judge_bytes(rp["format"] if rp["format"] != "lzip_mt" else "lzip", mutated, bytes.fromhex(rp["expect"]), alts, r)
        if oc:
            ctx.violation(f"{rp['dec']['kind']}: success with {r['n']} bytes, original has {len(rp['expect']) // 2} ({oc})",
                          {"family": "replay", "dec": rp["dec"]["kind"], "outcome": oc}, rp)
    B.finish_replay(ctx, {"dec": rp["dec"], "bytes": len(mutated)})
