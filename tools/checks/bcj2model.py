"""BCJ2 decoder model (spec/Bcj2Decoder.tla) and its binding to the real BCJ2Reader - used by C11 (the BCJ2 reader
reconstructs the original bytes from any correctly encoded four-stream input) and C07 (for every sequence of
destination sizes).

Stage M  TLC, free mode: every destination size of every call, every delivery size of every source read and
         (budgeted) Interrupted faults, over an input set that contains every main-stream string up to a length
         bound with every flag / operand-class assignment plus curated corner strings, with synthetic
         normalisation patterns. Invariants OutputOK, NoSpuriousError, Progress, Complete, BufInv; witnesses.
Stage S  TLC, pattern mode: the deterministic behaviours (input x destination pattern x one delivery pattern per
         stream) are exported with the PREDICTED result and decoder state of every call; each is replayed on the
         real reader (vh_bcj2, hook H7) and prediction = observation is demanded call by call.
Stage T  randomized longer runs of the real reader (token-dense inputs, random patterns, Interrupted faults) are
         recorded and validated by TLC against Trace_Bcj2Decoder (every call's result and abstract state).
Verdicts: wrong bytes / spurious error / panic / no progress on the real code = VIOLATION (property level);
prediction mismatch with right bytes = DRIFT.
"""
import itertools, json, random, re, time
from vlib import core
from vlib.core import log, ToolError
from checks import dlib

CLASSES = "OFJCP"
OTHERS = [0x00, 0x01, 0x7F, 0x90, 0xE7, 0xEA, 0xFF, 0x10, 0x20, 0x7E, 0x9F, 0xC3, 0x55, 0xAA, 0x33, 0x0E]
OPFILL = [0xE8, 0x0F, 0x85, 0x00, 0xFF, 0xE9, 0x12]


def is_marker(prev, t):
    return t in "CP" or (prev == "F" and t == "J")


def byte_of(cls, i):
    if cls == "O":
        return OTHERS[i % len(OTHERS)]
    if cls == "F":
        return 0x0F
    if cls == "J":
        return 0x80 + (i * 7) % 16
    return 0xE8 if cls == "C" else 0xE9


def cls_of(b):
    return "F" if b == 0x0F else "C" if b == 0xE8 else "P" if b == 0xE9 else "J" if 0x80 <= b <= 0x8F else "O"


def mk_input(main, flagbits, msbs, salt=0):
    """Abstract input + concrete original bytes. flagbits / msbs are consumed in scan order (defaults 0 / "O")."""
    fb, mb = list(flagbits), list(msbs)
    flags, opc, opj, orig = [], [], [], []
    prev = "O"
    for i, t in enumerate(main):
        orig.append(byte_of(t, i + salt))
        if not is_marker(prev, t):
            prev = t
            continue
        f = fb.pop(0) if fb else 0
        flags.append(f)
        if f:
            m = mb.pop(0) if mb else "O"
            (opc if t == "C" else opj).append(m)
            k = len(opc) + len(opj) + salt
            orig += [OPFILL[k % len(OPFILL)], OPFILL[(k + 3) % len(OPFILL)], OPFILL[(2 * k + 1) % len(OPFILL)], byte_of(m, k)]
            prev = m
        else:
            prev = t
    return {"main": list(main), "flags": flags, "opc": opc, "opj": opj, "orig": bytes(orig)}


def real_norms(orig, flags):
    """Port of the harness encoder's flag coding: for every marker, did the range fall below 2^24."""
    probs = [1024] * 258
    rng = 0xFFFFFFFF
    norms, prev, i, k, n = [], 0, 0, 0, len(orig)
    while i < n:
        b = orig[i]
        marker = (b & 0xFE) == 0xE8 or (prev == 0x0F and (b & 0xF0) == 0x80)
        i += 1
        if not marker:
            prev = b
            continue
        idx = 2 + prev if b == 0xE8 else 1 if b == 0xE9 else 0
        conv = i + 4 <= n and k < len(flags) and flags[k] != 0
        k += 1
        bound = (rng >> 11) * probs[idx]
        if not conv:
            rng = bound
            probs[idx] += (2048 - probs[idx]) >> 5
        else:
            rng -= bound
            probs[idx] -= probs[idx] >> 5
        nm = False
        while rng < (1 << 24):
            rng = (rng << 8) & 0xFFFFFFFF
            nm = True
        norms.append(nm)
        if conv:
            i += 4
            prev = orig[i - 1]
        else:
            prev = b
    return norms


def tla_input(x, norm):
    q = lambda xs: "<<" + ",".join('"%s"' % c for c in xs) + ">>"
    return ("[main |-> %s, flags |-> <<%s>>, norm |-> <<%s>>, opc |-> %s, opj |-> %s]" %
            (q(x["main"]), ",".join(str(f) for f in x["flags"]), ",".join("TRUE" if b else "FALSE" for b in norm), q(x["opc"]), q(x["opj"])))


def tla_inputs(pairs):
    return "<<" + ",\n ".join(tla_input(x, nm) for x, nm in pairs) + ">>"


def tla_pats(ps):
    return "<<" + ",".join("<<" + ",".join(str(v) for v in p) + ">>" for p in ps) + ">>"


CURATED = [
    # (main, flags, operand msb classes)
    ("FJ", [1], ["O"]), ("FJ", [0], []), ("OFJO", [1], ["F"]), ("CJ", [1], ["F"]),     # operand MSB 0x0F followed by 8x: a marker
    ("CJ", [1, 1], ["F", "O"]), ("CJJ", [1, 1], ["F", "F"]), ("CC", [1, 1], ["C", "O"]), ("CP", [0, 1], ["O"]),
    ("FFJ", [1], ["O"]), ("FOJ", [], []), ("OCO", [1], ["O"]), ("OPOFJO", [1, 1], ["O", "O"]),
    ("CO", [1], ["O"]), ("OC", [0], []), ("OC", [1], ["O"]), ("PPP", [1, 0, 1], ["P", "O"]), ("FC", [1], ["F"]),
    ("OOOOOC", [1], ["O"]), ("COOOOO", [1], ["O"]), ("F", [], []), ("J", [], []), ("", [], []), ("O", [], []),
]


NOCUT = [[0, 0, 0, 0]]


def consts(inputs_tla, free, caps, chunks, cap_pats, chunk_pats, buf=1000, max_intr=0, max_fail=0, cuts=NOCUT):
    return {"Inputs": inputs_tla, "FreeMode": "TRUE" if free else "FALSE",
            "CapSizes": core.tla_set(caps), "ChunkSizes": core.tla_set(chunks),
            "CapPatterns": tla_pats(cap_pats), "ChunkPatterns": tla_pats(chunk_pats), "Buf": str(buf), "MaxIntr": str(max_intr), "MaxFail": str(max_fail), "CutChoices": tla_pats(cuts)}


SEQ = ("Inputs", "CapPatterns", "ChunkPatterns", "CapSizes", "ChunkSizes", "CutChoices")
INVS = ["InputsOK", "TypeOK", "OutputOK", "NoSpuriousError", "ErrorNotLost", "TruncationSurfaces", "Progress", "Complete", "BufInv", "CallBound"]
CUTS = [[0, 0, 0, 0], [1, 0, 0, 0], [0, 1, 0, 0], [0, 0, 3, 0], [0, 4, 0, 0], [0, 0, 0, 1], [0, 0, 0, 5], [2, 0, 4, 1], [0, 0, 0, 99]]
WITNESSES = ["WitnessSplitOperand", "WitnessNormAtExit", "WitnessPartial32", "WitnessJccAcrossCalls"]


def tlc(cst, invariants, workers=4, timeout=1500, continue_=False, coverage=True):
    d, mod, cfg = core.write_model("Bcj2Decoder", cst, invariants=invariants, seq_consts=SEQ)
    return core.run_tlc(mod, cfg, workers=workers, cwd=d, timeout=timeout, coverage=coverage, continue_=continue_, xss="256m")


def exhaustive_inputs(maxlen, rnd, cap=None):
    out = []
    for n in range(0, maxlen + 1):
        for main in itertools.product(CLASSES, repeat=n):
            probe = mk_input(main, [1] * n, ["O"] * n)
            m = len(probe["flags"])
            for fb in itertools.product([0, 1], repeat=m):
                nconv = sum(fb)
                for mb in itertools.product("OF", repeat=nconv):
                    out.append(mk_input(main, fb, mb))
    if cap and len(out) > cap:
        out = rnd.sample(out, cap)
    return out


def norm_variants(x, rnd, quick):
    m = len(x["flags"])
    vs = [[False] * m]
    if m:
        vs.append([True] * m)
        if not quick or m <= 2:
            for k in range(m):
                vs.append([i == k for i in range(m)])
    return vs


def parse_scripts(out):
    res = []
    for line in out.splitlines():
        if not line.startswith('"') or "script" not in line:
            continue
        try:
            v = json.loads(json.loads(line))
        except ValueError:
            continue
        res.append({"inp": v["script"], "cap": v["cap"], "ch": v["ch"], "cut": v.get("cut", 1), "hist": v["hist"]})
    return res


def run(ctx, tier, rnd, classes=None):
    """Runs the three stages and records verdicts on ctx. Returns the number of implementation runs."""
    quick = tier == "quick"
    t0 = time.time()
    base = {"family": "bcj2", "arch": "", "start_class": "zero"}

    # ------------------------------------------------------------------ stage M: design, free mode
    cur = [mk_input(m, f, o) for m, f, o in CURATED]
    exh = exhaustive_inputs(2 if quick else 3, rnd, cap=None if quick else 900)
    longer = []
    for _ in range(6 if quick else 40):
        n = rnd.randint(4, 7)
        main = "".join(rnd.choice("OOFJCCP") for _ in range(n))
        longer.append(mk_input(main, [rnd.randint(0, 1) for _ in range(n)], [rnd.choice("OOFCJ") for _ in range(n)], salt=rnd.randint(0, 9)))
    pairs = []
    for x in cur + exh + longer:
        for nm in norm_variants(x, rnd, quick):
            pairs.append((x, nm))
    caps = [1, 2, 3, 5, 9] if quick else [1, 2, 3, 4, 5, 9]
    chunks = [1, 3, 9] if quick else [1, 2, 3, 4, 5, 9]
    # quick: the Interrupted fault over the whole input set, the non-retryable error over the curated strings only
    cst = consts(tla_inputs(pairs), True, caps, chunks, [[1]], [[1]], buf=6, max_intr=1, max_fail=0 if quick else 1)
    fpairs = [(x, nm) for x in cur for nm in norm_variants(x, rnd, True)]
    jobs = [lambda: tlc(cst, INVS, workers=6 if quick else 10, timeout=900 if quick else 3000)]
    if quick:
        jobs.append(lambda: tlc(consts(tla_inputs(fpairs), True, caps, chunks, [[1]], [[1]], buf=6, max_intr=0, max_fail=1), INVS, workers=3, timeout=900))
    # truncated sources: every cut of CUTS, free sizes, curated strings (quick) / all inputs (thorough)
    jobs.append(lambda: tlc(consts(tla_inputs(fpairs if quick else pairs), True, caps, chunks, [[1]], [[1]], buf=6, cuts=CUTS), INVS, workers=3 if quick else 8, timeout=900 if quick else 3000))
    rr = dlib.parallel(jobs, workers=3)
    r = rr[0]
    ctx.note_tlc("Bcj2Decoder free mode", r)
    for r2 in rr[1:]:
        ctx.note_tlc("Bcj2Decoder free mode, source errors", r2)
        if not r2.ok:
            raise ToolError(f"TLC reports {r2.violated} for the BCJ2 decoder design (source errors)")
        for k, v in r2.coverage.items():
            if k in r.coverage:
                r.coverage[k] = (r.coverage[k][0] + v[0], r.coverage[k][1] + v[1])
    log(f"[bcj2 M] {len(pairs)} abstract inputs, free destination / delivery sizes, 1 Interrupted + 1 other source error: {r}")
    if not r.ok:
        # the design spec must hold; a counter-example here is a finding about the DESIGN the code implements and is
        # replayed below only if it can be concretised - report as tool error so that it is looked at
        raise ToolError(f"TLC reports {r.violated} for the BCJ2 decoder design:\n" + "\n".join(f"  {s['n']}: {s['action']}" for s in r.trace[-12:]))
    for a in ("Call", "DoRun", "Refill", "Interrupt", "Fail"):
        if a in r.coverage and r.coverage[a][0] == 0:
            raise ToolError(f"vacuous BCJ2 model run: action {a} never taken")
    # witnesses: each scenario class must be reachable (one tiny run per witness, stops at the first hit)
    wx = [mk_input("OCJO", [1, 1], ["F", "O"]), mk_input("OFJOC", [1, 1], ["O", "O"]), mk_input("CCO", [1, 1], ["O", "O"])]
    wp = [(x, [True] * len(x["flags"])) for x in wx]
    wc = consts(tla_inputs(wp), True, [1, 2, 3], [1, 3, 9], [[1]], [[1]], buf=6, max_intr=0)
    for w, rw in zip(WITNESSES, dlib.parallel([(lambda w=w: tlc(wc, [w], workers=1, timeout=300, coverage=False)) for w in WITNESSES], workers=4)):
        if rw.violated != w:
            raise ToolError(f"vacuous BCJ2 model: witness scenario {w} unreachable ({rw})")
        ctx.note_tlc("Bcj2Decoder witness " + w, rw)

    # ------------------------------------------------------------------ stage S: pattern mode, exported and replayed
    prefix = "".join("OC" for _ in range(9))          # nine fresh contexts: the range falls below 2^24 inside
    sin = list(cur)
    sin += [mk_input(prefix + m, [0] * 9 + list(f), o, salt=1) for m, f, o in (("FJO", [1], ["F"]), ("CJ", [1, 1], ["F", "O"]), ("OC", [1], ["O"]))]
    sin += rnd.sample(exh, min(len(exh), 10 if quick else 60)) + longer[:4 if quick else 20]
    sin = [x for x in sin if len(x["orig"]) > 0]
    spairs = [(x, real_norms(x["orig"], x["flags"])) for x in sin]
    if not any(any(nm) for _, nm in spairs):
        raise ToolError("vacuous BCJ2 replay set: no input whose flag coding normalises the range")
    cap_pats = [[1], [2], [3], [4], [5], [7], [2, 1], [1, 3], [4, 1], [64]]
    chunk_pats = [[1], [3], [64]] if quick else [[1], [2], [3], [5], [4, 1], [64]]
    if not quick:
        cap_pats += [[6], [3, 1, 1], [5, 2]]
    cst = consts(tla_inputs(spairs), False, [1], [1], cap_pats, chunk_pats, buf=1 << 18, max_intr=0)
    rs = tlc(cst, INVS + ["Export"], workers=6 if quick else 10, timeout=900 if quick else 3000, coverage=False)
    ctx.note_tlc("Bcj2Decoder pattern mode", rs)
    if not rs.ok:
        raise ToolError(f"TLC reports {rs.violated} for the BCJ2 decoder design (pattern mode)")
    scripts = parse_scripts(rs.out)
    want = len(spairs) * len(cap_pats) * len(chunk_pats) ** 4
    if len(scripts) != want:
        raise ToolError(f"BCJ2 script export incomplete: {len(scripts)} of {want}")
    cases = []
    for i, s in enumerate(scripts):
        x = sin[s["inp"] - 1]
        cases.append({"id": f"s{i}", "orig_hex": x["orig"].hex(), "flags": x["flags"], "caps": cap_pats[s["cap"] - 1],
                      "chunks": [chunk_pats[c - 1] for c in s["ch"]]})
    # the same with truncated sources (every cut of CUTS): the exported history ends with the predicted error
    tsin = [x for x in sin if len(x["flags"]) >= 1][:12 if quick else 40]
    tspairs = [(x, real_norms(x["orig"], x["flags"])) for x in tsin]
    tcap, tchunk = [[1], [3], [64]], [[1], [64]] if quick else [[1], [3], [64]]
    rs2 = tlc(consts(tla_inputs(tspairs), False, [1], [1], tcap, tchunk, buf=1 << 18, cuts=CUTS), INVS + ["Export"], workers=4, timeout=900, coverage=False)
    ctx.note_tlc("Bcj2Decoder pattern mode, truncated sources", rs2)
    if not rs2.ok:
        raise ToolError(f"TLC reports {rs2.violated} for the BCJ2 decoder design (pattern mode, truncated sources)")
    scripts2 = parse_scripts(rs2.out)
    if len(scripts2) != len(tspairs) * len(tcap) * len(tchunk) ** 4 * len(CUTS):
        raise ToolError(f"BCJ2 script export (truncated sources) incomplete: {len(scripts2)}")
    n_final_err = 0
    for i, s in enumerate(scripts2):
        x = tsin[s["inp"] - 1]
        cases.append({"id": f"c{i}", "orig_hex": x["orig"].hex(), "flags": x["flags"], "caps": tcap[s["cap"] - 1],
                      "chunks": [tchunk[c - 1] for c in s["ch"]], "cut": CUTS[s["cut"] - 1]})
        n_final_err += bool(s["hist"] and s["hist"][-1][0][0] == "err")
    if n_final_err == 0:
        raise ToolError("vacuous truncation export: no behaviour ends in an error")
    ctx.add("bcj2_truncated_behaviours_ending_in_error", n_final_err)
    sin_of = [sin] * len(scripts) + [tsin] * len(scripts2)
    scripts = scripts + scripts2
    res = dlib.run_cases("vh_bcj2", cases, timeout=1800, per_batch=400)
    n_ok = n_drift = 0
    drift_ex = None
    for s, c, o, sin in zip(scripts, cases, res, sin_of):
        bad = judge(ctx, c, o, base)
        if bad:
            continue
        pred = [[h[0][0], h[0][1], h[1], h[2]] for h in s["hist"]]
        obs = [["ok" if k["ret"] >= 0 else "err", k["ret"] if k["ret"] >= 0 else k["err"], k["st"], k["rem"]] for k in o["calls"]]
        if pred == obs:
            n_ok += 1
        else:
            n_drift += 1
            if drift_ex is None:
                j = next((q for q in range(min(len(pred), len(obs))) if pred[q] != obs[q]), min(len(pred), len(obs)))
                drift_ex = f"input {''.join(sin[s['inp'] - 1]['main'])!r} flags {c['flags']} caps {c['caps']} chunks {c['chunks']}: call {j}: predicted {pred[j] if j < len(pred) else None}, observed {obs[j] if j < len(obs) else None}"
        if classes is not None and o.get("markers", 0) > 0:
            classes.add(("bcj2model", "".join(sin[s["inp"] - 1]["main"])[:8], str(c["caps"]), "", "", "", ""))
    if n_drift:
        ctx.note_drift(f"Bcj2Decoder predicts other per-call results / decoder states than the real BCJ2Reader shows in {n_drift} of {len(scripts)} exported behaviours (bytes correct); first: {drift_ex}")
    ctx.add("bcj2_behaviours_replayed", len(scripts))
    ctx.add("bcj2_behaviours_prediction_equal", n_ok)
    log(f"[bcj2 S] {len(scripts)} exported behaviours replayed on the real reader: prediction = observation in {n_ok}, drift {n_drift}")

    # ------------------------------------------------------------------ stage T: randomized runs, trace validation
    tin, tcases = [], []
    for i in range(24 if quick else 120):
        n = rnd.choice([30, 200, 800] if quick else [30, 200, 800, 2500])
        main = "".join(rnd.choice("OOOOFJCP" if i % 3 else "OFJCPCFJ") for _ in range(n))
        x = mk_input(main, [int(rnd.random() < 0.7) for _ in range(n)], [rnd.choice("OOOFCJP") for _ in range(n)], salt=rnd.randint(0, 15))
        tin.append(x)
        big = rnd.choice([1, 2, 3, 4, 5, 7, 13, 64, 4096])
        caps_ = [rnd.choice([1, 2, 3, 4, 5, big]) for _ in range(rnd.randint(1, 4))]
        chs = [[rnd.choice([1, 2, 3, 4, 5, 7, 64, 1 << 20]) for _ in range(rnd.randint(1, 3))] for _ in range(4)]
        intr = sorted(rnd.sample(range(0, 60), rnd.randint(0, 4))) if i % 2 else []
        fail = sorted(rnd.sample(range(0, 80), rnd.randint(1, 3))) if i % 4 == 3 else []
        cut = rnd.choice(CUTS[1:]) if i % 5 == 4 else CUTS[0]
        tcases.append({"id": f"t{i}", "orig_hex": x["orig"].hex(), "flags": x["flags"], "caps": caps_, "chunks": chs, "intr": intr,
                       "fail": [f for f in fail if f not in intr], "cut": cut, "trace": True})
    tres = dlib.run_cases("vh_bcj2", tcases, timeout=1800)
    events, tp = [], []
    for i, (x, c, o) in enumerate(zip(tin, tcases, tres)):
        if judge(ctx, c, o, base):
            continue
        nm = real_norms(x["orig"], x["flags"])
        if [int(b) for b in nm] != o["norm"]:
            raise ToolError(f"the Python port of the flag coder and the harness encoder disagree on the normalisation pattern of {c['id']}")
        tp.append((x, nm))
        events.append({"op": "Reset", "inp": len(tp), "cut": CUTS.index(c["cut"]) + 1})
        events += o["events"]
    accepted = 0
    if tp:
        cst = consts(tla_inputs(tp), True, [1], [1], [[1]], [[1]], buf=1 << 18, max_intr=1 << 20, max_fail=1 << 20, cuts=CUTS)
        ok, reached, total, r = core.validate_events("Trace_Bcj2Decoder", cst, events, invariants=("Track", "TraceInv"), timeout=1800, seq_consts=SEQ)
        ctx.note_tlc("trace Bcj2Decoder", r)
        if ok:
            accepted = len(tp)
        else:
            nxt = json.dumps(events[reached])[:300] if reached is not None and reached < len(events) else "?"
            ctx.note_drift(f"Trace_Bcj2Decoder rejected the recorded BCJ2Reader traces after event {reached} of {total}; next event {nxt}"
                           + (f" (TLC: {r.violated})" if r.violated and r.violated != "postcondition" else ""))
    # negative control of the binding: one recorded field corrupted (decoder state of one Ret event) must make TLC
    # reject the trace - otherwise the trace specification constrains nothing
    if accepted:
        k0 = next(i for i, e in enumerate(events) if e.get("op") == "Reset")
        k1 = next((i for i, e in enumerate(events) if i > k0 and e.get("op") == "Reset"), len(events))
        one = [dict(e) for e in events[k0:k1]]
        rets = [i for i, e in enumerate(one) if e.get("op") == "Ret"]
        if rets:
            i = rets[len(rets) // 2]
            one[i]["st"] = (one[i]["st"] + 1) % 10
            okc, reachedc, totalc, rc = core.validate_events("Trace_Bcj2Decoder", cst, one, invariants=("Track", "TraceInv"), timeout=600, seq_consts=SEQ)
            if okc or reachedc is None or reachedc > i:
                raise ToolError(f"binding control failed: Trace_Bcj2Decoder accepted a trace whose recorded decoder state was corrupted at event {i} (reached {reachedc} of {totalc})")
            ctx.add("bcj2_corrupted_trace_rejected_at_event", 1)
    ctx.add("bcj2_traces_validated", accepted)
    ctx.cov["traces_validated_against_impl"] = ctx.cov.get("traces_validated_against_impl", 0) + accepted
    if accepted == 0 and not ctx.violations and not n_drift and tp:
        # rejected although every replayed behaviour matched: the trace spec itself would be wrong
        pass
    log(f"[bcj2 T] {len(tcases)} randomized runs (Interrupted faults in half), {accepted} traces accepted by TLC; stage total {time.time()-t0:.1f}s")
    return len(cases) + len(tcases)


def judge(ctx, c, o, base):
    """Property-level oracles on one real run. Returns True if a violation was recorded."""
    rep = {"bcj2_case": {k: v for k, v in c.items() if k != "trace"}}
    if o.get("panic"):
        ctx.violation(f"bcj2 (exact script): panic {o['panic']} with destination sizes {c['caps']} and source deliveries {c['chunks']}",
                      dict(base, **{"class": "panic"}), rep)
        return True
    if any(c.get("cut") or []):
        # truncated sources: a correct prefix, then either everything (the missing bytes were not needed) or an error
        got_err = any(k.get("err") not in (None, "", "intr") for k in o.get("calls", []))
        if o.get("prefix_ok") is not True or o.get("stuck") or (o.get("rt_ok") is not True and not got_err):
            ctx.violation(f"bcj2 (exact script): sources truncated by {c['cut']} bytes (main, call, jump, rc), destination sizes {c['caps']}, deliveries {c['chunks']}: the reader "
                          f"{'delivers wrong bytes' if o.get('prefix_ok') is not True else 'makes no progress' if o.get('stuck') else 'ends short without an error'} "
                          f"(got {o.get('got', o.get('n'))} of {o.get('n')} bytes)", dict(base, **{"class": "bcj2_truncated"}), rep)
            return True
        return False
    if c.get("fail"):
        # a non-retryable source error was injected: the run either recovers and delivers everything, or ends with
        # that error after a correct prefix - never wrong bytes, never silently short, never stuck
        hard_seen = any(k.get("err") == "hard" for k in o.get("calls", []))
        if o.get("prefix_ok") is not True or o.get("stuck") or (o.get("rt_ok") is not True and not hard_seen):
            ctx.violation(f"bcj2 (exact script): with source errors at reads {c['fail']} (destination sizes {c['caps']}, deliveries {c['chunks']}) the reader "
                          f"{'delivers wrong bytes' if o.get('prefix_ok') is not True else 'makes no progress' if o.get('stuck') else 'ends short without reporting the error'}: "
                          f"got {o.get('got', o.get('n'))} of {o.get('n')} bytes", dict(base, **{"class": "bcj2_source_error"}), rep)
            return True
        # (an error that arrived while the last bytes were being decoded is owed to the caller: the call after the
        # end then reports it instead of Ok(0))
        if o.get("rt_ok") is True and o.get("after") not in ("ok0", "err:hard"):
            return _after_bad(ctx, c, o, base, rep)
        return False
    if o.get("rt_ok") is not True or o.get("stuck"):
        errs = [k["err"] for k in o.get("calls", []) if k.get("err") not in (None, "", "intr")]
        ctx.violation(f"bcj2 (exact script): BCJ2Reader does not reconstruct the input with destination sizes {c['caps']}, source deliveries {c['chunks']}, "
                      f"interrupted reads {c.get('intr', [])}: got {o.get('got', o.get('n'))} of {o.get('n')} bytes, first difference {o.get('first_diff')}, errors {errs[:2]}, "
                      f"{'no progress' if o.get('stuck') else ''}", dict(base, **{"class": "bcj2", "policy": "convert"}), rep)
        return True
    if o.get("after") not in ("ok0",):
        ctx.violation(f"bcj2 (exact script): read() after the end returned {o.get('after')} (destination sizes {c['caps']})",
                      dict(base, **{"class": "bcj2_after_end"}), rep)
        return True
    return False


def _after_bad(ctx, c, o, base, rep):
    ctx.violation(f"bcj2 (exact script): read() after the end returned {o.get('after')} (destination sizes {c['caps']})",
                  dict(base, **{"class": "bcj2_after_end"}), rep)
    return True


def replay(ctx, case):
    o = dlib.run_cases("vh_bcj2", [case])[0]
    judge(ctx, case, o, {"family": "bcj2", "arch": "", "start_class": "zero"})
    return o
