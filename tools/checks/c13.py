"""C13: compressed output is a pure function of input and options (repeated runs, write partitions where the
statement says so, and - for the MT writers - worker counts and schedules).

Stage 1  TLC: EncWindow LookAheadGate (outside flush / finish every position is consumed with at least MATCH_LEN_MAX
         bytes of look-ahead buffered, so the sequence of (position, visible look-ahead) pairs - and with it every
         encoder decision - is a function of the input and the flush points, not of the write partition) over all
         write / flush / finish schedules of the scaled model.
Stage 2/3 the same input and options are run through the real writers under: repeated runs in one process (with dirty
         freed memory left behind in between), every partition script of a seeded family (equal pieces, pieces around the
         look-ahead thresholds, one byte at a time, random), fixed flush points with different partitions in between;
         LZIP writer with a member size above / at / below the dictionary under pieces that do not divide it;
         MT writers under worker counts 1..4 x random / PCT schedules of the deterministic runtime (mtlib), also with the
         unit size configured below the dictionary size (raised to it) x pieces below / between / above the two sizes.
         Traced runs are validated by TLC against EncWindow with the real constants (LookAheadGate on real indices).
Oracle   byte-identical output (digest equality)."""
from vlib import core
from checks import encplans as P

MANIFEST = dict(
    level="exploration",
    technique="TLA+ specification EncWindow model-checked with TLC (invariant LookAheadGate: encoder decisions depend on the input "
              "and the flush points only) and MtWriter (unit boundaries and order independent of schedule, checked by C08/C18); "
              "the same input/options replayed into the real writers under repeated runs, seeded partition families and - for the MT "
              "writers - worker counts and schedules of the deterministic runtime, comparing output digests; traced runs validated "
              "by TLC against EncWindow with the real constants",
    text="On the explored inputs and option vectors the LZMA, LZMA2, LZIP and XZ writers produce byte-identical output for repeated "
         "runs in one process and for every explored partition of the input into write calls (LZMA2 / XZ: without chunk / block size; "
         "with fixed flush points also between them); the MT writers produce byte-identical output for 1..4 workers under all explored "
         "schedules and partitions.",
    ref="DESIGN.md sections 4.3, 6/C13; notes/groupC1.md",
    note="Exploration: digest equality on explored cases. Dependence on uninitialised memory that happens to be equal in all runs of one "
         "process is not decided. Schedules come from the deterministic runtime (sequentially consistent atomics).",
    ready=True,
)


def run(tier, replay=None):
    ctx = core.Check("C13", tier, "exploration")
    core.build_harness()
    if replay:
        return P.run_replay(ctx, replay, {"C13"})
    P.run_plan(ctx, "C13", tier)
