"""C14: feature configurations (default, std without `optimization`, no_std with / without `optimization`)
behave identically.

Stages
  1  TLC: RangeCoder.tla (reduced width) - Decode(Encode(s)) = s, byte accounting, and for direct bits the
     agreement of the assembly-shaped variant with the portable loop at and beyond the end of the chunk buffer
     (PosAccounting / PastEndReadsZero); NormModel.tla - the one definition of position renormalisation every
     variant must refine; LzmaSymbols.tla - the three transcriptions of the state / reps machine agree.
  2  spec -> code: the states TLC reaches in the direct-bit model (incl. the counter-examples of the regressed,
     clamping design) and the arrays of the Norm model are concretised and run through every implementation
     variant by the H4 accessors (function-level differential): every variant must produce what the specification
     predicts, hence the same as every other variant.
  3  code -> spec: per-symbol traces of real encodes / decodes recorded in BOTH std configurations are validated by
     TLC against the same Trace_LzmaSymbols / Trace_LzDecoder specifications.
  4  the transcript differential (the property's own oracle): one binary per feature configuration runs the same
     seeded case list (compress option grid x inputs, incl. inputs that end exactly where the encoder's window
     buffer is physically full; decode valid, bit-flipped, truncated and chunk-shortened streams); transcripts (digest of the compressed bytes, decode outcome, error kind, bytes delivered before the
     error, digest of those bytes, and the result - byte count + digest or error kind - of each of the read calls
     a caller makes on the same reader after the first error / after the end of the stream) must be identical line
     by line.
"""
import json, os, random, time
from vlib import core
from vlib.core import log, ToolError
from checks import symlib

MANIFEST = dict(
    level="exploration",
    technique="TLA+ specs (RangeCoder with its limb formulation, NormModel, LzmaSymbols, LzDecoder) model-checked with TLC; states, "
              "arrays and counter-example classes of the regressed (clamping) design enumerated by TLC are replayed into every "
              "implementation variant through cfg-gated accessors (function-level differential); TLC-sampled LzDecoder behaviours "
              "(symbols and read sizes) are forged into streams and replayed strictly on the real readers of both std builds; "
              "per-symbol, per-decoder-step and per-bit traces of the real code are validated by TLC against the trace "
              "specifications; seeded transcript differential over four feature builds",
    text="Four builds of the crate (default; std without `optimization`; no_std with and without `optimization`), made from one "
         "source state, run the same seeded case list - compression over an option grid x input classes, decoding of the valid "
         "streams and of bit-flipped, truncated and chunk-shortened (direct-bit runs reading past the LZMA2 chunk buffer) variants, "
         "forged far-match streams, inputs whose length is exactly at / next to the physical size of the encoder's window buffer "
         "(computed from the options, confirmed by the window hook) and end in short repeat matches - and their transcripts (digest "
         "of compressed bytes, decode outcome, error kind, bytes delivered before the error and their digest, and the results of "
         "the read calls made on the same reader after the first error / after the end of the stream) must be identical. The places where the configurations run different code are "
         "specified once in TLA+ and checked by TLC: direct-bit decoding with its buffer position accounting (RangeCoder.tla at "
         "reduced width: Decode(Encode(s)) = s, BytesPulled = BytesPushed, PendingSizeExact, PosAccounting / PastEndReadsZero; the "
         "clamping assembly design of defect D19 violates them and TLC reports the state classes) and max(p - off, 0) "
         "renormalisation (NormModel.tla). Every implementation variant (portable / assembly decode_direct_bits; scalar / "
         "dispatched / AVX2 / SSE4.1 normalize) is run on the states and arrays TLC enumerates, including beyond the end of the "
         "buffer and unaligned prefixes / suffixes, and must produce what the specification predicts. The same round trips run "
         "in both std builds must yield identical compressed bytes and identical symbol / decoder-step event lists, which TLC "
         "validates against Trace_LzmaSymbols, Trace_LzDecoder and (real width, limb arithmetic proved equal to RangeCoder.tla at "
         "reduced width by TLC) Trace_RangeCoder; TLC-chosen symbol scripts and read sizes are replayed strictly on the real "
         "LZMAReader / LZMA2Reader of both builds (bytes per call exactly as LzDecoder.tla predicts).",
    ref="4.4 (Norm), 4.5, 4.6, 4.7, 5.2, 5.4, 6/C14; notes/groupC2.md",
    note="x86-64 only (NEON / wasm32 paths are read, not executed); held on the explored cases, not proved for all inputs; the "
         "no_std builds run without the verification hooks (they need std), so they take part in the transcript differential "
         "only; TLC results hold at the reduced width (8-bit range, 2-bit shift, 3-bit probabilities, MoveBits 2) and small "
         "scripts; a divergence between encoder-side and decoder-side symbol events is C01's witness and only DRIFT here.",
    ready=True,
)

CONFIGS = ["default", "noopt", "nostd", "nostd_opt"]
NOSTD = os.path.join(core.VERIF, "harness_nostd")
_nostd_built = {}


def build_nostd(opt):
    """cargo build --release of /verif/harness_nostd (path dependency on the repository under test)."""
    if opt in _nostd_built:
        return _nostd_built[opt]
    hdir = NOSTD
    if core.REPO != "/repo":
        hdir = os.path.join(os.path.dirname(core.REPO), "vh_nostd_shadow")
        os.makedirs(hdir, exist_ok=True)
        p = core.sh(["rsync", "-a", "--delete", "--exclude", "target", NOSTD + "/", hdir + "/"])
        if p.returncode != 0:
            raise ToolError("rsync of harness_nostd failed: " + p.stdout)
        ct = open(os.path.join(hdir, "Cargo.toml")).read().replace('path = "/repo"', f'path = "{core.REPO}"')
        open(os.path.join(hdir, "Cargo.toml"), "w").write(ct)
    tdir = os.path.join(hdir, "target", "alt_opt" if opt else "alt_plain")
    cmd = ["cargo", "build", "--release", "--offline", "--target-dir", tdir]
    if opt:
        cmd += ["--features", "optimization"]
    t0 = time.time()
    p = core.sh(cmd, cwd=hdir, env={"CARGO_NET_OFFLINE": "true"}, timeout=1800)
    if p.returncode != 0:
        raise ToolError("harness_nostd build failed:\n" + p.stdout[-6000:])
    log(f"[build] harness_nostd opt={opt} built in {time.time()-t0:.1f}s")
    _nostd_built[opt] = os.path.join(tdir, "release", "vh_nostd")
    return _nostd_built[opt]


def repo_fingerprint():
    """Digest of the sources the four builds are made from (content, not time stamps)."""
    import hashlib
    h = hashlib.sha1()
    for root, dirs, files in os.walk(os.path.join(core.REPO, "src")):
        dirs.sort()
        for f in sorted(files):
            p = os.path.join(root, f)
            h.update(p.encode())
            with open(p, "rb") as fh:
                h.update(fh.read())
    with open(os.path.join(core.REPO, "Cargo.toml"), "rb") as fh:
        h.update(fh.read())
    return h.hexdigest()


def binaries():
    """The four configurations must be built from the SAME source state: if the repository changes while they are
    being built (other work in progress on the tree) the builds are repeated; transcripts of builds made from
    different sources would differ for reasons that have nothing to do with the feature configuration."""
    for attempt in range(4):
        fp = repo_fingerprint()
        if attempt:
            core._built.clear()
            _nostd_built.clear()
        b = {}
        b["default"] = os.path.join(core.build_harness(), "vh_transcript")
        b["noopt"] = os.path.join(core.build_harness(features=["std"], target="noopt"), "vh_transcript")
        b["nostd"] = build_nostd(False)
        b["nostd_opt"] = build_nostd(True)
        if repo_fingerprint() == fp:
            return b
        log("[build] the repository changed while the configurations were being built: rebuilding all of them")
    raise ToolError("the repository under test keeps changing during the builds of the feature configurations")


# --------------------------------------------------------------------------- case list
CLASSES = ["text", "mixed", "repeat_far", "random", "periodic", "lowent", "zeros", "seq"]
LCLPPB = [(3, 0, 2), (0, 0, 0), (4, 0, 0), (0, 4, 4), (2, 2, 3), (1, 3, 1)]
LCLPPB_LZMA1 = [(8, 0, 0), (8, 4, 4), (5, 2, 4)]


def case_list(seed, n, tier):
    rnd = random.Random(seed)
    cases = []
    sizes_small = [0, 1, 2, 5, 17, 100, 1000, 4095, 4096, 4097]
    sizes_big = [20000, 70000, 150000] + ([400000, 1200000] if tier != "quick" else [])
    for i in range(n):
        fmt = rnd.choice(["lzma2", "lzma2", "lzma2", "lzma", "lzma", "xz", "lzip"])
        preset = rnd.choice([0, 1, 2, 3, 4, 5, 6, 6, 7, 9])
        opts = {"preset": preset, "dict": rnd.choice([4096, 65536, 65536, 1 << 18, 1 << 20])}
        if rnd.random() < 0.5:
            lc, lp, pb = rnd.choice(LCLPPB + (LCLPPB_LZMA1 if fmt == "lzma" else []))
            if fmt != "lzip":
                opts.update({"lc": lc, "lp": lp, "pb": pb})
        if rnd.random() < 0.4:
            opts["mode"] = rnd.choice(["fast", "normal"])
            opts["mf"] = rnd.choice(["hc4", "bt4"])
        if rnd.random() < 0.4:
            opts["nice"] = rnd.choice([8, 9, 16, 32, 64, 128, 273])
        if rnd.random() < 0.3:
            opts["depth"] = rnd.choice([0, 1, 4, 100])
        big = rnd.random() < 0.35
        ln = rnd.choice(sizes_big) if big else rnd.choice(sizes_small + [rnd.randrange(1, 9000)])
        cls = rnd.choice(CLASSES)
        if opts["dict"] < 65536 and cls in ("random", "mixed") and ln > 60000:
            opts["dict"] = 65536     # dictionaries < 64 KiB on incompressible data: encoder panic owned by C01 (D1)
        c = {"id": f"c{i}", "fmt": fmt, "opts": opts, "data": {"class": cls, "len": ln, "seed": rnd.randrange(1 << 30)},
             "reads": rnd.choice([[4096], [65536], [1], [7, 1, 300], [0, 5, 0, 1000]]) if ln < 30000 else rnd.choice([[4096], [65536], [1000, 0, 77]])}
        if rnd.random() < 0.3:
            c["write"] = rnd.choice([1, 13, 1000, 4096, 65536])
        if fmt == "lzma2" and rnd.random() < 0.3:
            c["flush"] = True
        if fmt in ("lzma2", "xz", "lzip") and rnd.random() < 0.2:
            c["chunk"] = rnd.choice([4096, 70000, 300000])
        if fmt == "lzma" and rnd.random() < 0.5:
            c["size_known"] = True
        muts = []
        for _ in range(rnd.choice([0, 2, 4])):
            muts.append({"k": "flip", "at": rnd.randrange(1 << 30), "bit": rnd.randrange(8)})
        if rnd.random() < 0.5:
            muts.append({"k": "trunc", "drop": rnd.choice([1, 2, 3, 5, 8, 20, 200])})
        if rnd.random() < 0.2:
            muts.append({"k": "set", "at": rnd.randrange(1 << 30), "val": rnd.choice([0, 255, 0x80, 1])})
        if fmt == "lzma2":
            # shortened LZMA chunks: the decoder runs past the end of the chunk buffer (D19 class)
            for _ in range(rnd.choice([2, 4, 6])):
                muts.append({"k": "short", "chunk": rnd.choice([0, 0, 1, 2]), "drop": rnd.choice([1, 2, 3, 4, 6, 9, 17, 40]),
                             "keep": rnd.random() < 0.3})
        c["muts"] = muts
        cases.append(c)
    return cases


MATCH_LEN_MAX = 273


def window_buf_size(fmt, opts):
    """Physical size of the encoder's window buffer for an option set: `get_buf_size` of src/lz/lz_encoder.rs with the
    extra sizes `LZMAEncoder::new` (per mode) and the writers (LZMA2 / XZ: room for one uncompressed chunk in front of
    small dictionaries) pass in. Only used to choose input lengths; `check_window_formula` compares it with what the
    hooked encoder reports."""
    d = opts["dict"]
    mode = opts.get("mode") or ("fast" if opts.get("preset", 6) <= 3 else "normal")
    before = max(0, (64 << 10) - d) if fmt in ("lzma2", "xz") else 0
    if mode == "fast":
        before, after = max(before, 1), MATCH_LEN_MAX - 1
    else:
        before, after = max(before, 4096), 4096
    return d + before + after + MATCH_LEN_MAX + min(d // 2 + (256 << 10), 512 << 20)


def check_window_formula(cases):
    """Vacuity guard of the window-boundary class: the lengths are only `at the boundary` if window_buf_size is what
    the encoder really allocates (event `New` of the window hooks, default build)."""
    seen = {}
    for c in cases:
        o = c["opts"]
        mode = o.get("mode") or ("fast" if o["preset"] <= 3 else "normal")
        key = ("lzma2" if c["fmt"] in ("lzma2", "xz") else "lzma1", mode, o["dict"])
        seen.setdefault(key, window_buf_size(c["fmt"], o))
    keys = sorted(seen)
    jobs = [json.dumps({"id": f"w{i}", "writer": k[0], "opt": {"dict": k[2], "mode": k[1], "mf": "bt4"},
                        "input": [{"class": "text", "len": 10, "seed": 1}], "trace": 1, "decode": False}) for i, k in enumerate(keys)]
    outs = symlib.run_lines(os.path.join(core.build_harness(), "vh_codec"), jobs, nproc=1)
    for k, l in zip(keys, outs):
        ev = [e for e in json.loads(l).get("events", []) if e.get("ev") == "New"]
        if not ev or ev[0]["bs"] != seen[k]:
            raise ToolError(f"window_buf_size{k} = {seen[k]} but the encoder allocates {ev[0]['bs'] if ev else None}: the "
                            f"window-boundary input lengths are no longer at the boundary (vacuous)")
    return len(keys)


def short_match_tail(rnd, n):
    """About n bytes whose cheapest coding is a dense mix of short matches (2..6 bytes) at a handful of alternating distances -
    i.e. rep0..rep3 candidates at almost every position, the last bytes included - and literals; windows of its last
    bytes also occur further back, so that longer matches at other distances span the short ones."""
    alpha = rnd.choice([4, 16, 256, 256])
    sym = lambda: rnd.randrange(alpha) * (256 // alpha)
    rep = [sym() for _ in range(rnd.choice([48, 80, 120]))]
    dists = [rnd.randrange(1, len(rep)) for _ in range(rnd.choice([2, 3, 4]))]
    last = None
    while len(rep) < n:
        k = rnd.random()
        if k < 0.72:
            last = rnd.choice([x for x in dists if x != last] or dists)
            for _ in range(rnd.choice([2, 2, 2, 3, 3, 4, 6, 12])):
                rep.append(rep[-last])
        elif k < 0.82:
            dists[rnd.randrange(len(dists))] = rnd.randrange(1, min(len(rep), 400))
        else:
            rep.append(sym())
            last = None
    # the input ends in a 2..3 byte match at one of the distances used before, preferably not the most recent one
    d = rnd.choice([x for x in dists if x != last] or dists)
    for _ in range(rnd.choice([2, 2, 2, 3])):
        rep.append(rep[-d])
    # echoes of windows over the last bytes, planted in front (with fillers): candidates that span the short matches
    front = []
    for _ in range(rnd.choice([0, 1, 2, 4])):
        ln = rnd.choice([3, 4, 4, 5, 7])
        end = len(rep) - rnd.choice([0, 0, 1, 2])
        front += [rnd.randrange(256) for _ in range(rnd.randrange(1, 60))] + rep[end - ln:end]
    front += [rnd.randrange(256) for _ in range(rnd.randrange(1, 30))]
    return bytes(front + rep)


def window_cases(seed, n, tier):
    """Inputs whose length sits at / just below / just above the physical size of the encoder's window buffer (the
    buffer is exactly full when the input ends: every bounds clamp / limit of the match finders and of the optimal
    parser is at its extreme), ending in short repeat matches, both modes."""
    rnd = random.Random(seed ^ 0xB0F5)
    cases = []
    dicts = [4096, 65536, 65536] + ([1 << 18, 1 << 20] if tier != "quick" else [])
    for i in range(n):
        fmt = rnd.choice(["lzma2", "lzma2", "lzma", "xz", "lzip"])
        normal = rnd.random() < 0.7
        opts = {"preset": rnd.choice([4, 5, 6, 6, 9] if normal else [0, 1, 3]), "dict": rnd.choice(dicts)}
        if rnd.random() < 0.4:
            opts["mode"] = "normal" if normal else "fast"
            opts["mf"] = rnd.choice(["hc4", "bt4"])
        if rnd.random() < 0.3:
            opts["nice"] = rnd.choice([8, 16, 32, 64, 273])
        if rnd.random() < 0.3 and fmt != "lzip":
            lc, lp, pb = rnd.choice(LCLPPB)
            opts.update({"lc": lc, "lp": lp, "pb": pb})
        size = window_buf_size(fmt, opts) + rnd.choice([0, 0, 0, 0, 0, -1, 1, -2, 2])
        tail = short_match_tail(rnd, rnd.choice([40, 100, 300]))
        c = {"id": f"w{i}", "fmt": fmt, "opts": opts, "reads": [65536],
             "data": {"class": rnd.choice(["seq", "periodic", "zeros", "text"]), "len": size, "seed": rnd.randrange(1 << 30), "tail_hex": tail.hex()},
             "muts": [{"k": "trunc", "drop": rnd.choice([1, 3, 20])}] if rnd.random() < 0.3 else []}
        if rnd.random() < 0.4:
            c["write"] = rnd.choice([4096, 65536, 100000])
        if fmt == "lzma" and rnd.random() < 0.5:
            c["size_known"] = True
        cases.append(c)
    return cases


def forged_cases(seed, n):
    """Forged symbol scripts (StreamForge) with far matches = long direct-bit runs, decoded as-is and shortened."""
    rnd = random.Random(seed ^ 0x5A5A)
    jobs = []
    for i in range(n):
        syms = [["lit", rnd.randrange(256)] for _ in range(rnd.randrange(1, 40))]
        total = len(syms)
        for _ in range(rnd.randrange(3, 60)):
            k = rnd.random()
            if k < 0.3:
                syms.append(["lit", rnd.randrange(256)])
                total += 1
            elif k < 0.8:
                ln = rnd.choice([2, 3, 4, 5, 9, 18, 40, 273])
                syms.append(["match", rnd.randrange(total), ln])
                total += ln
            elif k < 0.9:
                ln = rnd.choice([2, 3, 7, 30])
                syms.append(["rep", rnd.randrange(4), ln])
                total += ln
            else:
                syms.append(["srep"])
                total += 1
        # a far match needs far history: pad with a long match run first
        jobs.append({"id": f"f{i}", "fmt": "lzma2", "lc": 3, "lp": 0, "pb": 2, "dict": 1 << 16,
                     "chunks": [{"t": "lzma", "dict_reset": True, "syms": syms}], "terminate": True})
    return jobs


def strip(line):
    d = json.loads(line)
    d.pop("msg", None)
    return d


def classify(d):
    """Abstract class of a transcript line (for the measured number of distinct non-trivial cases)."""
    mid = d["id"]
    m = d.get("mut")
    return (mid[0], m["k"] + ("k" if m.get("keep") else "") if m else "valid", d.get("enc", ""), d.get("dec", ""))


def run_transcripts(ctx, bins, cases, tag):
    lines = [json.dumps(c) for c in cases]
    outs = {}
    t0 = time.time()
    for cfg in CONFIGS:
        outs[cfg] = symlib.run_lines(bins[cfg], lines, timeout=1500)
    log(f"[transcript] {tag}: {len(cases)} cases x {len(CONFIGS)} configurations in {time.time()-t0:.1f}s, {len(outs['default'])} lines each")
    by_case = {c["id"]: c for c in cases}
    maps = {cfg: {} for cfg in CONFIGS}
    for cfg in CONFIGS:
        for l in outs[cfg]:
            d = strip(l)
            maps[cfg][d["id"]] = d
    ref = [strip(l) for l in outs["default"]]
    classes = set()
    ndiff = 0
    enc_differs = set()      # (case id, cfg): compression already differs, the mutated streams are not comparable
    for r in ref:
        classes.add(classify(r))
        ctx.add("evaluations", len(CONFIGS))
        if r.get("dec", "").startswith("err") or r.get("dec") == "panic":
            ctx.add("error_outcomes")
        # the read calls made after the first error / after the end of the stream are part of the line
        after = [a.split(":", 2)[1] for a in r.get("after", []) if not a.startswith("0:")]
        if after:
            ctx.add("reads_after_error" if r.get("dec", "").startswith("err") else "reads_after_end", len(after))
            if r.get("dec", "").startswith("err") and "err" in after:
                ctx.add("errors_repeated_after_error")
        cid = r["id"].split("/")[0]
        for cfg in CONFIGS[1:]:
            if (cid, cfg) in enc_differs:
                ctx.add("lines_skipped_after_encode_difference")
                continue
            o = maps[cfg].get(r["id"])
            if o == r:
                continue
            ndiff += 1
            if o is None:
                o = {"id": r["id"], "missing": True}
            fields = sorted(k for k in set(r) | set(o) if r.get(k) != o.get(k))
            case = dict(by_case[cid])
            m = r.get("mut")
            if m is not None:
                case["muts"] = [m]
            stage = "decode_corrupt" if m is not None else ("encode" if r.get("stream") != o.get("stream") or r.get("enc") != o.get("enc") or r.get("clen") != o.get("clen") else "decode_valid")
            if stage == "encode":
                enc_differs.add((cid, cfg))
            sig = {"check": "transcript", "fmt": case.get("fmt"), "mut": (m or {}).get("k", "none"), "stage": stage,
                   "fields": "+".join(fields), "pair": f"default-vs-{cfg}",
                   "opt_differs": cfg in ("noopt", "nostd"), "std_differs": cfg in ("nostd", "nostd_opt")}
            ctx.violation(f"transcripts differ between the default build and `{cfg}` for case {r['id']} "
                          f"({case.get('fmt')}, mutation {m}, {stage}): default {json.dumps({k: r.get(k) for k in fields})} vs "
                          f"{cfg} {json.dumps({k: o.get(k) for k in fields})}",
                          sig, {"case": case, "line": r["id"], "configs": ["default", cfg]})
    for cfg in CONFIGS[1:]:
        extra = [i for i in maps[cfg] if i not in maps["default"] and (i.split("/")[0], cfg) not in enc_differs]
        if extra:
            raise ToolError(f"transcript of {cfg} has lines the default build lacks although compression agreed: {extra[:5]}")
    ctx.sample(f"{tag}: {len(ref)} transcript lines identical in {len(CONFIGS)} configurations except {ndiff} differing")
    return classes, len(ref), ndiff


# --------------------------------------------------------------------------- stage 1-2: specs and H4 differential
def direct_bits_jobs(seed, n, tier):
    """Concrete real-width decoder states around the end of the chunk buffer for the H4 differential. Classes follow
    the RangeCoder model: bytes left in the buffer (0, 1, 2, many), position already beyond the end, count, value of
    the last buffer byte (zero / non-zero: the clamped read re-reads it), normalisation needed at once or not."""
    rnd = random.Random(seed ^ 0xD19)
    jobs = []
    i = 0
    for left in [0, 0, 1, 2, 3, 6, 40]:
        for beyond in [0, 1, 3]:
            if left and beyond:
                continue
            for count in [1, 2, 7, 8, 9, 16, 17, 25, 26]:
                for last in [0, 1, 0xFF, None]:
                    for norm_now in (True, False):
                        blen = left + rnd.choice([1, 4, 9])
                        buf = [rnd.randrange(256) for _ in range(blen)]
                        if last is not None:
                            buf[-1] = last
                        pos = blen - left + beyond
                        rng = rnd.randrange(1 << 16, 1 << 24) if norm_now else rnd.randrange(1 << 24, 1 << 32)
                        code = rnd.randrange(0, rng)
                        jobs.append({"op": "h4bits", "id": f"b{i}", "buf": buf, "pos": pos, "range": rng, "code": code, "count": count,
                                     "cls": [min(left, 3), beyond > 0, last == 0 if last is not None else None, norm_now]})
                        i += 1
    for _ in range(n):
        blen = rnd.randrange(1, 12)
        buf = [rnd.choice([0, 0xFF, rnd.randrange(256)]) for _ in range(blen)]
        pos = rnd.randrange(0, blen + 4)
        rng = rnd.choice([rnd.randrange(1 << 16, 1 << 24), rnd.randrange(1 << 24, 1 << 32), 0xFFFFFFFF, 1 << 24])
        jobs.append({"op": "h4bits", "id": f"b{i}", "buf": buf, "pos": pos, "range": rng, "code": rnd.randrange(0, rng), "count": rnd.randrange(1, 27),
                     "cls": [min(max(blen - pos, 0), 3), pos > blen, buf[-1] == 0, rng < (1 << 24)]})
        i += 1
    return jobs


def portable_model(buf, pos, rng, code, count):
    """Python transcription of RangeCoder.tla's DirectBits (portable semantics: past the end reads 0, pos counts) at
    real width: what the specification predicts for a real state."""
    res = 0
    for _ in range(count):
        if rng < (1 << 24):
            b = buf[pos] if pos < len(buf) else 0
            pos += 1
            code = ((code << 8) | b) & 0xFFFFFFFF
            rng = (rng << 8) & 0xFFFFFFFF
        rng >>= 1
        t = ((code - rng) & 0xFFFFFFFF) >> 31          # sign bit of code - range, as the code computes it
        if t == 0:
            code -= rng
            res = (res << 1) | 1
        else:
            res = res << 1
    if res >= 1 << 31:
        res -= 1 << 32
    return {"result": res, "range": rng, "code": code, "pos": pos, "finished": pos == len(buf) and code == 0}


def class_jobs(classes, seed):
    """Real-width states for the classes TLC reports for the clamping design: (position agrees, value agrees, bytes
    left, run length, last byte zero, normalisation pending). Reduced width reads one 2-bit digit per 2 direct bits;
    the real coder one byte per 8: run lengths are scaled so that the run reads beyond the end in the same way."""
    rnd = random.Random(seed ^ 0xC1A55)
    jobs = []
    for ci, (same_pos, same_val, left, count, last_zero, pending) in enumerate(sorted(classes)):
        for rep in range(6):
            left_r = max(left, 0)
            beyond = max(-left, 0)
            blen = left_r + rnd.choice([1, 3, 8])
            buf = [rnd.randrange(1, 256) for _ in range(blen)]
            buf[-1] = 0 if last_zero else rnd.choice([1, 0x80, 0xFF, rnd.randrange(1, 256)])
            pos = blen - left_r + beyond
            rng = rnd.randrange(1 << 16, 1 << 24) if pending else rnd.randrange(1 << 24, 1 << 25)
            cnt = min(26, 8 * left_r + rnd.choice([1, 2, 8, 9]) + (0 if pending else 1))
            jobs.append({"op": "h4bits", "id": f"k{ci}_{rep}", "buf": buf, "pos": pos, "range": rng, "code": rnd.randrange(0, rng),
                         "count": cnt, "cls": ["tlc", left, count, last_zero, pending], "tlc_class": True})
    return jobs


def h4_direct_bits(ctx, tier, target_cfgs, tlc_classes):
    jobs = direct_bits_jobs(ctx.seed, 400 if tier == "quick" else 20000, tier) + class_jobs(tlc_classes, ctx.seed)
    classes = set()
    for cfg_name, (features, target) in target_cfgs.items():
        res = symlib.run_sym_jobs(jobs, features=features, target=target)
        nbad = 0
        for j, r in zip(jobs, res):
            exp = portable_model(j["buf"], j["pos"], j["range"], j["code"], j["count"])
            ctx.add("evaluations", 2)
            classes.add(("bits", tuple(j["cls"])))
            for variant in ("portable", "dispatch"):
                got = r[variant]
                if got != exp:
                    nbad += 1
                    past = j["pos"] + (j["count"] + 7) // 8 + 1 >= len(j["buf"])
                    sig = {"check": "h4_direct_bits", "variant": variant if variant == "portable" else ("asm" if r["has_asm"] else "portable_dispatch"),
                           "past_end": bool(past), "fields": "+".join(sorted(k for k in exp if got.get(k) != exp[k]))}
                    ctx.violation(f"decode_direct_bits ({sig['variant']}, build {cfg_name}) differs from the specification / the portable "
                                  f"loop on state pos={j['pos']} len={len(j['buf'])} count={j['count']} range={j['range']:#x}: "
                                  f"expected {exp}, got {got}", sig,
                                  {"job": j, "build": cfg_name, "expected": exp, "got": got})
        log(f"[h4] decode_direct_bits on build {cfg_name}: {len(jobs)} states, {nbad} deviations, asm={res[0]['has_asm']}")
        ctx.cov.setdefault("h4_direct_bits", {})[cfg_name] = {"states": len(jobs), "deviations": nbad, "asm": res[0]["has_asm"]}
    return classes


def norm_arrays(ctx, tier):
    """Arrays from TLC behaviours of the Norm model, concretised to 32-bit values by a class table, plus random
    arrays; each is run at several element offsets inside a larger buffer (unaligned prefixes / suffixes)."""
    d, mod, cfg = core.write_model("NormModel", {"Classes": "{0,1,2,3,4,5,6}", "MaxLen": "2" if tier == "quick" else "4"},
                                   invariants=("Refines", "Emit"))
    r = core.run_tlc(mod, cfg, workers=2, timeout=300, cwd=d)
    ctx.note_tlc("NormModel", r)
    ctx.require_coverage(r, ["Extend"], "NormModel")
    rows = []
    for l in r.out.splitlines():
        if l.startswith('<<"NORM"'):
            rows.append(json.loads(l.replace("<<", "[").replace(">>", "]")))
    if not rows:
        raise ToolError("NormModel produced no arrays")
    return rows


def concretise_norm(cls, off):
    """Class of p relative to off -> concrete i32 (classes as in NormModel.tla)."""
    MAXP = 0x7FFFFFFF
    return {0: 0, 1: 1, 2: off - 1, 3: off, 4: off + 1, 5: MAXP - 1, 6: MAXP}[cls]


def h4_normalize(ctx, tier, target_cfgs):
    rows = norm_arrays(ctx, tier)
    rnd = random.Random(ctx.seed ^ 0xD15)
    jobs = []
    offs = [1, 2, 0x3FFFFFF0, 0x7FFFFFFE - 4097, 0x7FFFFFFE - (1 << 20)]
    i = 0
    for row in rows:
        _, classes_, expect_cls = row
        for off in offs if tier != "quick" else offs[2:4] + [2]:
            arr = [concretise_norm(c, off) for c in classes_]
            # pad so that the TLC-chosen prefix lands in the scalar prefix and also inside a SIMD lane
            arr = arr + [off + 5] * 9 + arr + [3] * 8 + arr
            jobs.append({"op": "h4norm", "id": f"n{i}", "arr": arr, "off": off, "shifts": [0, 1, 2, 3, 5, 7], "src": "tlc", "cls": classes_})
            i += 1
    for _ in range(60 if tier == "quick" else 3000):
        off = rnd.choice(offs + [rnd.randrange(1, 0x7FFFFFFE)])
        n = rnd.choice([0, 1, 3, 4, 7, 8, 9, 15, 16, 17, 31, 33, 64, 100])
        arr = [rnd.choice([0, 1, off - 1, off, off + 1, rnd.randrange(0, 0x7FFFFFFF), 0x7FFFFFFF]) for _ in range(n)]
        jobs.append({"op": "h4norm", "id": f"n{i}", "arr": arr, "off": off, "shifts": [0, 1, 2, 3, 4, 5, 6, 7], "src": "random", "cls": []})
        i += 1
    classes = set()
    for cfg_name, (features, target) in target_cfgs.items():
        res = symlib.run_sym_jobs(jobs, features=features, target=target)
        dev = {}
        for j, r in zip(jobs, res):
            exp = [max(p - j["off"], 0) for p in j["arr"]]
            for v in r["variants"]:
                for variant in ("scalar", "dispatch", "avx2", "sse41"):
                    got = v[variant]
                    if got is None:
                        continue
                    ctx.add("evaluations")
                    classes.add(("norm", variant, j["src"], tuple(sorted(set(j["cls"])))))
                    if got != exp:
                        bad = [k for k in range(len(exp)) if got[k] != exp[k]]
                        k0 = bad[0]
                        cls = "p_lt_off" if j["arr"][k0] < j["off"] else "other"
                        dev[variant] = dev.get(variant, 0) + 1
                        sig = {"check": "h4_normalize", "variant": variant, "class": cls,
                               "negative_result": got[k0] < 0}
                        ctx.violation(f"normalize variant `{variant}` (build {cfg_name}) does not refine Norm(p, off) = max(p - off, 0): "
                                      f"p={j['arr'][k0]} off={j['off']} -> {got[k0]} (expected {exp[k0]}), element {k0} of {len(exp)}, "
                                      f"buffer shift {v['shift']}", sig,
                                      {"job": j, "build": cfg_name, "variant": variant, "shift": v["shift"]})
        log(f"[h4] normalize on build {cfg_name}: {len(jobs)} arrays x shifts, deviations per variant {dev}")
        ctx.cov.setdefault("h4_normalize", {})[cfg_name] = {"arrays": len(jobs), "deviating_runs": dev}
    return classes


# --------------------------------------------------------------------------- stage 3: traces of both std configurations
def symbol_traces(ctx, tier, target_cfgs):
    rnd = random.Random(ctx.seed ^ 0x5E)
    jobs = []
    n = 8 if tier == "quick" else 80
    for i in range(n):
        fmt = rnd.choice(["lzma", "lzma2"])
        opts = {"preset": rnd.choice([0, 1, 3, 4, 6, 9]), "dict": rnd.choice([65536, 1 << 18])}
        if rnd.random() < 0.5:
            lc, lp, pb = rnd.choice(LCLPPB)
            opts.update({"lc": lc, "lp": lp, "pb": pb})
        j = symlib.roundtrip_job(f"s{i}", fmt, opts, {"class": rnd.choice(["text", "mixed", "periodic", "lowent", "repeat_far"]),
                                                        "len": rnd.choice([300, 1500, 3000] if tier == "quick" else [300, 2000, 8000]),
                                                        "seed": rnd.randrange(1 << 30)},
                                 reads=rnd.choice([[4096], [1], [7, 0, 300]]))
        if fmt == "lzma2" and rnd.random() < 0.4:
            j["flush"] = True
            j["write"] = rnd.choice([100, 1000])
        jobs.append(j)
    # two fixed jobs that contain every symbol kind whatever the seed (vacuity guard below)
    jobs.append(symlib.roundtrip_job("sfix0", "lzma", {"preset": 6, "dict": 65536}, {"class": "text", "len": 3000, "seed": 3}, reads=[7, 0, 300]))
    jobs.append(symlib.roundtrip_job("sfix1", "lzma2", {"preset": 6, "dict": 65536}, {"class": "mixed", "len": 3000, "seed": 5}, reads=[4096]))
    kinds = [0, 0, 0, 0]
    per_cfg = {}
    names = list(target_cfgs)
    for cfg_name, (features, target) in target_cfgs.items():
        res = symlib.run_sym_jobs(jobs, features=features, target=target)
        per_cfg[cfg_name] = res
        for r in res:
            ctx.add("evaluations")
            for k in range(4):
                kinds[k] += r.get("dec_counters", {}).get("dec_sym", [0, 0, 0, 0])[k]
    # the same run must produce the same compressed bytes, the same symbol decisions and the same decoder steps in
    # every configuration
    ev = lambda r: [e for e in r.get("events", []) if e.get("side") in ("E", "D", "L")]
    identical = {}
    for a in names[1:]:
        same = True
        for j, r0, r1 in zip(jobs, per_cfg[names[0]], per_cfg[a]):
            s0, s1 = ev(r0), ev(r1)
            if r0.get("digest") != r1.get("digest") or s0 != s1 or r0.get("equal") != r1.get("equal") or r0.get("dec") != r1.get("dec"):
                same = False
                k = next((i for i, (x, y) in enumerate(zip(s0, s1)) if x != y), min(len(s0), len(s1)))
                ctx.violation(f"builds {names[0]} and {a} take different symbol decisions / decoder steps for the same input {j['id']}: first "
                              f"differing event {k}: {s0[k] if k < len(s0) else None} vs {s1[k] if k < len(s1) else None}; compressed digests "
                              f"{r0.get('digest')} / {r1.get('digest')}",
                              {"check": "symbol_trace_diff", "fmt": j["fmt"], "pair": f"{names[0]}-vs-{a}"}, {"job": j, "configs": [names[0], a]})
        identical[a] = same
    # every configuration's traces are validated against the SAME specifications; a configuration whose event lists are
    # identical to an already validated one is covered by that validation
    lz_runs = []
    for cfg_name in names:
        res = per_cfg[cfg_name]
        runs = [r["events"] for r in res if r.get("events")]
        if cfg_name != names[0] and identical.get(cfg_name):
            ctx.add("traces_validated", 2 * len(runs))
            ctx.cov.setdefault("trace_validation", {})[cfg_name] = f"event lists identical to {names[0]} ({len(runs)} runs): covered by its validation"
            continue
        v = symlib.validate_symbols(ctx, runs, name=cfg_name)
        if not v["accepted"]:
            # a per-symbol divergence is C01's witness; for C14 it matters when the configurations differ (above)
            ctx.note_drift(f"symbol traces of build {cfg_name}: Trace_LzmaSymbols rejects run {v['bad_run']} after event {v['reached']}/{v['total']}: "
                           f"{v.get('divergence') or v.get('next_event')}")
        else:
            ctx.add("traces_validated", len(runs))
        lz_runs += runs
        ctx.cov.setdefault("trace_validation", {})[cfg_name] = {"runs": len(runs), "symbol_events": v["events"], "symbols_accepted": v["accepted"]}
        log(f"[trace] build {cfg_name}: {len(runs)} runs, {v['events']} symbol events accepted={v['accepted']}")
    if min(kinds) == 0:
        raise ToolError(f"vacuous symbol traces: a symbol kind never occurred {kinds}")
    ctx.cov["symbol_kinds_traced"] = kinds
    return lz_runs      # their LzDecoder events are validated together with those of the forged behaviours


def rangecoder_traces(ctx, tier, target_cfgs):
    """Real-width binding of RangeCoder.tla: the limb formulation (checked equal to the integer formulation by TLC at
    reduced width in rangecoder_checks) validates per-bit traces of the real encoder and decoder."""
    quick = tier == "quick"
    rnd = random.Random(ctx.seed ^ 0xB175)
    jobs = []
    for i in range(4 if quick else 24):
        jobs.append(symlib.roundtrip_job(f"rc{i}", "lzma", {"preset": rnd.choice([0, 3, 6, 9]), "dict": 65536},
                                         {"class": rnd.choice(["text", "random", "repeat_far", "mixed", "zeros"]),
                                          "len": [0, 1, 300, 700][i % 4] if quick else rnd.choice([0, 1, 300, 1500, 4000]), "seed": rnd.randrange(1 << 30)},
                                         bits=True, emit_hex=True, marker=rnd.random() < 0.5))
    cfgs = dict(list(target_cfgs.items())[:1]) if quick else target_cfgs
    for cfg_name, (features, target) in cfgs.items():
        res = symlib.run_sym_jobs(jobs, features=features, target=target)
        ctx.add("evaluations", len(res))
        v = symlib.validate_rangecoder(ctx, res, name=cfg_name)
        if v["runs"] == 0:
            raise ToolError("vacuous range coder trace validation: no run produced bit events")
        if v["accepted"]:
            ctx.add("traces_validated", v["runs"])
        else:
            ctx.note_drift(f"Trace_RangeCoder rejects the per-bit trace of build {cfg_name} after event {v['reached']}/{v['total']}: {v.get('next_event')}")
        ctx.cov.setdefault("rangecoder_traces", {})[cfg_name] = {"runs": v["runs"], "events": v["events"], "accepted": v["accepted"]}
        log(f"[trace] range coder, build {cfg_name}: {v['runs']} runs, {v['events']} bit events accepted={v['accepted']}")


def binding_demos(ctx, target_cfgs):
    """DESIGN.md section 8: for each trace specification one recorded trace with a corrupted field and one with a removed
    event must be REJECTED (else the trace specification binds nothing)."""
    import copy
    jobs = [symlib.roundtrip_job("bd0", "lzma", {"preset": 6, "dict": 65536}, {"class": "text", "len": 1500, "seed": 11}, reads=[7, 0, 300],
                                 bits=True, emit_hex=True)]
    r = symlib.run_sym_jobs(jobs)[0]
    ev = r["events"]
    out = {}
    # symbols: corrupt one reps entry of a decoder event / drop one decoder event
    e1 = copy.deepcopy(ev)
    d = [e for e in e1 if e.get("side") == "D" and e.get("kind") == 1][3]
    d["r"][2] += 1
    out["symbols_corrupt"] = not symlib.validate_symbols(None, [e1])["accepted"]
    e2 = [e for e in ev if e is not [x for x in ev if x.get("side") == "D" and x.get("kind") == 0][5]]
    out["symbols_removed"] = not symlib.validate_symbols(None, [e2])["accepted"]
    # lz decoder: corrupt a flush field / drop a set_limit event
    e3 = copy.deepcopy(ev)
    f = [e for e in e3 if e.get("op") == "flush"][4]
    f["full"] += 1
    out["lzdecoder_corrupt"] = not symlib.validate_lzdecoder(None, [e3])["accepted"]
    e4 = [e for e in ev if e is not [x for x in ev if x.get("op") == "limit"][6]]
    out["lzdecoder_removed"] = not symlib.validate_lzdecoder(None, [e4])["accepted"]
    # range coder: corrupt the cache of one encoder event / drop one decoder bit
    r5 = copy.deepcopy(r)
    [e for e in r5["events"] if e.get("side") == "RE"][100]["c"] ^= 1
    out["rangecoder_corrupt"] = not symlib.validate_rangecoder(None, [r5])["accepted"]
    r6 = copy.deepcopy(r)
    victim = [e for e in r6["events"] if e.get("side") == "RD"][200]
    r6["events"] = [e for e in r6["events"] if e is not victim]
    out["rangecoder_removed"] = not symlib.validate_rangecoder(None, [r6])["accepted"]
    ctx.cov["binding_demonstrations_rejected"] = out
    log(f"[binding] corrupted / truncated traces rejected: {out}")
    if not all(out.values()):
        raise ToolError(f"a trace specification accepted a corrupted trace: {out}")


def design_checks(ctx, tier):
    quick = tier == "quick"
    d, mod, cfg = core.write_model("LzmaSymbols", {"Dists": "{0,1,5,9}", "MaxLen": "5" if quick else "6"},
                                   invariants=("Agree", "OptAgree", "StateRange", "LitModeAgree", "MarkerDetection"))
    r = ctx.tlc(mod, cfg, name="LzmaSymbols", cwd=d, workers=4)
    ctx.require_coverage(r, ["Node", "EndMarker"], "LzmaSymbols")


def asbuilt():
    return json.load(open(os.path.join(core.SPEC, "asbuilt_c2.json")))["RangeCoder"]


def rangecoder_checks(ctx, tier):
    """RangeCoder.tla at reduced width. Returns the abstract classes of decoder states (bytes left in the buffer, run
    length, last buffer byte zero, normalisation pending) at which the clamping design (AsmClamp = TRUE, defect D19)
    disagrees with the portable loop; C14 concretises them to real-width states for the H4 differential."""
    quick = tier == "quick"
    base = {"ShiftBits": "2", "RangeBits": "8", "ModelBits": "3", "MoveBits": "2", "MaxBits": "5" if quick else "6",
            "NCtx": "1" if quick else "2", "MaxDirect": "3", "AsmClamp": "FALSE", "MaxCut": "2"}
    ALL = ("RoundTrip", "BytesAccounted", "PendingSizeExact", "PosAccounting", "PastEndReadsZero", "TypeOK")
    LIMB = ("EncLimbAgree", "DecLimbAgree")
    runs = [("w8", base, "RangeCoderLimbEq", ALL + LIMB)]
    if not quick:
        # all bit scripts <= 8 on the integer formulation alone (318 025 states); a 12-bit range / 3-bit shift / 4-bit
        # probability instance with 6-bit limbs
        runs.append(("w8-long", dict(base, MaxBits="8", NCtx="1", MaxDirect="2"), "RangeCoder", ALL))
        runs.append(("w12", dict(base, RangeBits="12", ShiftBits="3", ModelBits="4", MoveBits="2", MaxBits="5", NCtx="1"), "RangeCoderLimbEq", ALL + LIMB))
    for name, consts, module, invs in runs:
        # the repaired design satisfies everything; the same exploration checks that the limb formulation used for
        # real-width trace validation (RangeCoderLimb) computes exactly what the integer formulation computes
        d, mod, cfg = core.write_model(module, consts, invariants=invs)
        r = ctx.tlc(mod, cfg, name=f"{module} {name} (repaired design)", cwd=d, workers=8, timeout=1800)
        ctx.require_coverage(r, ["EncBit", "EncDirect"], "RangeCoder")
    # the clamping design: TLC must find the disagreement, and reports the classes of states where it occurs
    reg = dict(base, AsmClamp="TRUE", NCtx="1")
    d, mod, cfg = core.write_model("RangeCoder", reg, invariants=("DirectBitsAgree",))
    r2 = core.run_tlc(mod, cfg, workers=6, timeout=900, cwd=d, continue_=True)
    ctx.note_tlc("RangeCoder clamping design (AsmClamp)", r2)
    classes = set()
    for l in r2.out.splitlines():
        if l.startswith('<<"DBCLASS"'):
            t = json.loads(l.replace("<<", "[").replace(">>", "]").replace("TRUE", "true").replace("FALSE", "false"))
            classes.add((t[1], t[2], t[3], t[4], t[5] == 0, t[6]))
    if r2.ok or not classes:
        raise ToolError("RangeCoder.tla: the clamping variant satisfies DirectBitsAgree - the model cannot distinguish the "
                        "designs (vacuous)")
    ctx.cov["rangecoder_clamp_classes"] = sorted([list(c) for c in classes])
    log(f"[tlc] clamping design disagrees with the portable loop in {len(classes)} state classes")
    return classes


LZD_INV = ("OutputInOrder", "CopySourceValid", "DistCheck", "LimitRespected", "Accounting")
LZD_PROPS = ("ZeroReadIsNoop", "DistCheckStep")


def lzdecoder_stage(ctx, tier, target_cfgs, more_runs=()):
    """LzDecoder.tla: exhaustive design check on a 4-cell ring; behaviours sampled by TLC (symbols AND read sizes chosen
    by TLC) replayed strictly on the real readers of every std configuration: on a 16-cell model ring scaled by 256 to
    the real minimum ring of LZMA2Reader (wraps), and unscaled on rings larger than the stream (small read sizes)."""
    quick = tier == "quick"
    base = {"B": "4", "ReadSizes": "{0,1,2,3,5}", "Lens": "{2,3,4}", "ChunkSizes": "{1,2,3,5}", "SizeKnown": "FALSE",
            "AllowBad": "TRUE", "KeepHist": "FALSE"}
    mcs = [("lzma2", "lzma2", {"MaxStream": "5" if quick else "7"})]
    if not quick:
        mcs += [("lzma-marker", "lzma", {"MaxStream": "7"}), ("lzma-known", "lzma", {"SizeKnown": "TRUE", "MaxStream": "8"})]
    for name, kind, extra in mcs:
        c = dict(base, Kind=f'"{kind}"')
        c.update(extra)
        d, mod, cfg = core.write_model("LzDecoder", c, invariants=LZD_INV, properties=LZD_PROPS)
        r = ctx.tlc(mod, cfg, name=f"LzDecoder {name}", cwd=d, workers=6, timeout=1500)
        ctx.require_coverage(r, ["Lit", "Match", "Flush", "RepeatPending", "BadDistAny"], f"LzDecoder {name}")
    # (name, kind, constants, scale): the model ring must equal the real ring (LZMA2Reader: >= 4 KiB = 16 x 256) or be
    # larger than the whole stream (then neither ring ever wraps or saturates `full`)
    sims = [("lz2w", "lzma2", {"B": "16", "MaxStream": "44", "AllowBad": "TRUE"}, 256),
            ("lz2", "lzma2", {"B": "64", "MaxStream": "44", "AllowBad": "TRUE"}, 1),
            ("lz1m", "lzma", {"B": "64", "MaxStream": "40", "SizeKnown": "FALSE", "AllowBad": "FALSE"}, 1)]
    if not quick:
        sims += [("lz2wv", "lzma2", {"B": "16", "MaxStream": "60", "AllowBad": "FALSE"}, 256),
                 ("lz1k", "lzma", {"B": "64", "MaxStream": "40", "SizeKnown": "TRUE", "AllowBad": "TRUE"}, 1)]
    nb = 40 if quick else 400
    all_runs = []
    tot = {"behaviours": 0, "calls": 0, "zero_reads": 0, "split_matches": 0, "wraps": 0, "bad_dist": 0, "mismatch": 0}
    for name, kind, extra, scale in sims:
        c = {"Kind": f'"{kind}"', "ReadSizes": "{0,1,2,3,5,7,20,50}", "Lens": "{2,3,5,9,17,18}", "ChunkSizes": "{1,2,3,5,8,13,21}",
             "SizeKnown": "FALSE", "KeepHist": "TRUE"}
        c.update(extra)
        hs = symlib.lzdecoder_behaviours(ctx, c, nb, ctx.seed % 100000 + len(name), name=name)
        for cfg_name, (features, target) in target_cfgs.items():
            st = symlib.lzdecoder_replay(ctx, kind, c, nb, 0, name=f"{name}@{cfg_name}", sig_base={"build": cfg_name},
                                         features=features, target=target, behaviours=hs, scale=scale)
            runs = st.pop("events_runs")
            ctx.add("evaluations", st["behaviours"])
            if cfg_name == "default":
                for k in tot:
                    tot[k] += st.get(k, 0)
                all_runs += runs
    lv = symlib.validate_lzdecoder(ctx, all_runs + list(more_runs), name="forged behaviours + traced round trips")
    if lv["accepted"]:
        ctx.add("traces_validated", lv["runs"])
    else:
        ctx.note_drift(f"Trace_LzDecoder rejects the decoder events (forged behaviours, then traced round trips) after event "
                       f"{lv['reached']}/{lv['total']}: {lv.get('next_event')} state {lv.get('state')}")
    ctx.cov["lzdecoder_trace_validation"] = {"runs": lv["runs"], "events": lv.get("events"), "accepted": lv["accepted"]}
    log(f"[trace] LzDecoder events: {lv['runs']} runs, {lv.get('events')} events accepted={lv['accepted']}")
    if min(tot["zero_reads"], tot["split_matches"], tot["wraps"], tot["bad_dist"]) == 0:
        raise ToolError(f"vacuous LzDecoder replay: a scenario class never occurred: {tot}")
    ctx.cov["lzdecoder_replay"] = tot
    log(f"[replay] LzDecoder behaviours on the real readers: {tot}")
    return {("lzd", k) for k, v in tot.items() if v}


def run(tier, replay=None):
    ctx = core.Check("C14", tier, "exploration")
    if replay:
        return run_replay(ctx, replay)
    quick = tier == "quick"
    bins = binaries()
    std_cfgs = {"default": (None, None), "noopt": (["std"], "noopt")}
    classes = set()
    # ---- stage 1: design
    design_checks(ctx, tier)
    tlc_classes = rangecoder_checks(ctx, tier)
    # ---- stage 2: function-level differential on every std build (the accessors need the hooks)
    classes |= h4_direct_bits(ctx, tier, std_cfgs, tlc_classes)
    classes |= h4_normalize(ctx, tier, std_cfgs)
    # ---- stage 3: traces of both std configurations against the same specifications
    lz_runs = symbol_traces(ctx, tier, std_cfgs)
    classes |= lzdecoder_stage(ctx, tier, std_cfgs, more_runs=lz_runs)
    rangecoder_traces(ctx, tier, std_cfgs)
    if not quick:
        binding_demos(ctx, std_cfgs)
    # ---- stage 4: transcript differential over the four builds
    cases = case_list(ctx.seed, 500 if quick else 4000, tier)
    c1, n1, d1 = run_transcripts(ctx, bins, cases, "grid")
    classes |= {("t",) + c for c in c1}
    # inputs that end exactly where the encoder's window buffer is physically full (and one / two bytes off)
    wcases = window_cases(ctx.seed, 160 if quick else 1500, tier)
    ctx.cov["window_buffer_sizes_confirmed_by_hook"] = check_window_formula(wcases)
    exact = sum(1 for c in wcases if c["data"]["len"] == window_buf_size(c["fmt"], c["opts"]))
    if exact == 0 or exact == len(wcases):
        raise ToolError("vacuous window-boundary cases: no input ends exactly at / next to the end of the window buffer")
    c3, n3, d3 = run_transcripts(ctx, bins, wcases, "window")
    classes |= {("w",) + c for c in c3}
    ctx.cov["window_boundary_cases"] = {"cases": len(wcases), "buffer_exactly_full_at_end": exact}
    fj = forged_cases(ctx.seed, 80 if quick else 1000)
    fr = symlib.run_sym_jobs([dict(j, op="forge", forge_only=True, emit_hex=True) for j in fj])
    fcases = []
    rnd = random.Random(ctx.seed ^ 0xF0)
    for j, r in zip(fj, fr):
        if r.get("ref") != "ok" or not r.get("ref_equal"):
            raise ToolError(f"StreamForge disagrees with liblzma on forged case {j['id']}: {r.get('ref')} {r.get('ref_msg')}")
        data_hex = r["expect_hex"]
        # decode the forged stream itself and shortened variants in every configuration
        fcases.append({"id": j["id"], "op": "dec", "fmt": "lzma2", "dict": 1 << 16, "hex": r["hex"], "reads": [rnd.choice([1, 7, 4096])]})
    c2, n2, d2 = run_transcripts(ctx, bins, fcases, "forged")
    classes |= {("f",) + c for c in c2}
    ctx.cov["transcript_lines"] = n1 + n2 + n3
    ctx.cov["transcript_differences"] = d1 + d2 + d3
    ctx.cov["configurations"] = CONFIGS
    ctx.cov["distinct_nontrivial"] = len(classes)
    ctx.cov["rule"] = ("distinct (stage, format or variant, mutation kind / state class, encode outcome, decode outcome) classes: transcript "
                       "lines by (format initial, mutation kind, enc outcome, dec outcome incl. error kind); H4 states by (bytes left in "
                       "the buffer, beyond the end, last byte zero, normalisation pending); Norm arrays by (variant, source, class set)")
    if ctx.cov.get("error_outcomes", 0) == 0:
        raise ToolError("vacuous transcripts: no corrupt stream produced an error")
    if min(ctx.cov.get(k, 0) for k in ("reads_after_error", "reads_after_end", "errors_repeated_after_error")) == 0:
        raise ToolError("vacuous transcripts: no read call was made on a reader after its first error / after the end of its stream")
    ctx.assumptions += ["x86-64 only", "no_std builds run without hooks: transcript differential only",
                        "reduced-width range coder model (8-bit range, 2-bit shift, 3-bit probabilities)"]
    ctx.finish()


def run_replay(ctx, path):
    """Re-runs the scenario of a replay file written by ctx.violation and re-judges it with the same oracle."""
    rp = json.load(open(path))["replay"]
    std_cfgs = {"default": (None, None), "noopt": (["std"], "noopt")}
    if "case" in rp:
        bins = binaries()
        line = json.dumps(rp["case"])
        outs = {cfg: [strip(l) for l in symlib.run_lines(bins[cfg], [line])] for cfg in CONFIGS}
        bad = False
        for cfg in CONFIGS[1:]:
            for a, b in zip(outs["default"], outs[cfg]):
                if a != b:
                    bad = True
                    print(f"default: {json.dumps(a)}\n{cfg}: {json.dumps(b)}")
                    ctx.violation(f"replay: transcripts differ between default and {cfg} for {a['id']}", {"check": "transcript", "replay": True}, rp)
        if not bad:
            print("replay: transcripts identical in all configurations: " + json.dumps(outs["default"]))
    elif "job" in rp and rp["job"].get("op") == "h4bits":
        j = rp["job"]
        exp = portable_model(j["buf"], j["pos"], j["range"], j["code"], j["count"])
        for name, (f, t) in std_cfgs.items():
            r = symlib.run_sym_jobs([j], features=f, target=t)[0]
            for variant in ("portable", "dispatch"):
                ok = r[variant] == exp
                print(f"{name} {variant}: {r[variant]} {'= specification' if ok else '!= specification ' + json.dumps(exp)}")
                if not ok:
                    ctx.violation(f"replay: decode_direct_bits ({variant}, build {name}) differs from the specification", {"check": "h4_direct_bits", "replay": True}, rp)
    elif "job" in rp and rp["job"].get("op") == "h4norm":
        j = rp["job"]
        exp = [max(p - j["off"], 0) for p in j["arr"]]
        for name, (f, t) in std_cfgs.items():
            r = symlib.run_sym_jobs([j], features=f, target=t)[0]
            for v in r["variants"]:
                for variant in ("scalar", "dispatch", "avx2", "sse41"):
                    if v[variant] is not None and v[variant] != exp:
                        print(f"{name} {variant} shift {v['shift']}: {v[variant]} != {exp}")
                        ctx.violation(f"replay: normalize variant {variant} (build {name}) does not refine max(p - off, 0)", {"check": "h4_normalize", "replay": True}, rp)
        print("replay: normalize variants compared with max(p - off, 0)")
    elif "job" in rp and rp["job"].get("op") == "roundtrip":
        j = rp["job"]
        rs = {name: symlib.run_sym_jobs([j], features=f, target=t)[0] for name, (f, t) in std_cfgs.items()}
        ev = lambda r: [e for e in r.get("events", []) if e.get("side") in ("E", "D", "L")]
        same = rs["default"].get("digest") == rs["noopt"].get("digest") and ev(rs["default"]) == ev(rs["noopt"])
        print("replay: builds agree" if same else "replay: builds differ")
        if not same:
            ctx.violation("replay: builds default and noopt take different symbol decisions / decoder steps", {"check": "symbol_trace_diff", "replay": True}, rp)
    elif "job" in rp and "behaviour" in rp:
        j = rp["job"]
        kind = j["fmt"]
        for name, (f, t) in std_cfgs.items():
            st = symlib.lzdecoder_replay(ctx, kind, {"B": str(j.get("dict", 16)), "SizeKnown": "TRUE" if j.get("size_known") else "FALSE"}, 1, 0,
                                         name=f"replay@{name}", features=f, target=t, behaviours=[rp["behaviour"]])
            st.pop("events_runs", None)
            print(name, st)
    ctx.finish()
