"""Group B common code: running cases through `vh_hostile` with abort containment, TLC case export, outcome
classification. Used by c04.py, c05.py, c06.py."""
import json, os, subprocess, sys, time, tempfile, signal
from concurrent.futures import ThreadPoolExecutor
from vlib import core
from vlib.core import log, ToolError

BIN = "vh_hostile"


def bindir():
    # development override (isolated build of the group's modules); registered commands never set it
    d = os.environ.get("VERIF_B_BINDIR")
    if d:
        return d
    return core.build_harness()


def _run_batch(exe, defs_text, batch, timeout):
    """Runs one process over `batch` [(idx, job)] and resumes after crashes / stuck cases.
    Returns {idx: result}. A job whose process died without a result line gets o='abort' (signal in 'sig')."""
    out = {}
    pending = list(batch)
    os.makedirs(os.path.join(core.PWORK, "tmp"), exist_ok=True)
    while pending:
        text = defs_text + "".join(json.dumps(j) + "\n" for (_, j) in pending)
        with tempfile.TemporaryFile(mode="w+", dir=os.path.join(core.PWORK, "tmp")) as fin, \
                tempfile.TemporaryFile(mode="w+", dir=os.path.join(core.PWORK, "tmp")) as fout, \
                tempfile.TemporaryFile(mode="w+", dir=os.path.join(core.PWORK, "tmp")) as ferr:
            fin.write(text)
            fin.flush()
            fin.seek(0)
            try:
                p = subprocess.run([exe], stdin=fin, stdout=fout, stderr=ferr, timeout=timeout)
            except subprocess.TimeoutExpired:
                raise ToolError(f"{BIN} batch timed out after {timeout}s (infrastructure bound, no verdict)")
            fout.seek(0)
            ferr.seek(0)
            lines = [l for l in fout.read().splitlines() if l.strip()]
            err = ferr.read()
        if p.returncode == 2:
            raise ToolError(f"{BIN} rejected a job: {err[-800:]}")
        res = []
        for l in lines:
            try:
                res.append(json.loads(l))
            except ValueError:
                break           # torn last line of a killed process
        for (idx, _), r in zip(pending, res):
            out[idx] = r
        n = len(res)
        if n == len(pending) and p.returncode == 0:
            break
        if p.returncode == 3:
            # a stuck case reported itself (timeout / hung after panic) as the last line
            pending = pending[n:]
            continue
        if n < len(pending):
            # the process died while running pending[n]: the death is that case's outcome
            idx, job = pending[n]
            sig = -p.returncode if p.returncode < 0 else p.returncode
            out[idx] = {"id": job.get("id"), "o": "abort", "sig": sig, "op": job.get("op"),
                        "dec": job.get("dec", {}).get("kind"), "m": err.strip().splitlines()[-1][:300] if err.strip() else ""}
            pending = pending[n + 1:]
            continue
        raise ToolError(f"{BIN} exited with {p.returncode} after all results: {err[-500:]}")
    return out


def run_jobs(jobs, defs=(), nproc=None, per_batch=None, timeout=1500):
    """jobs: list of job dicts; defs: list of {'op':'def','name':..,'input':hex,'expect':hex} shared by all batches.
    Returns the list of results in job order. Aborts / stack overflows of the code under test are contained:
    the job that killed its process gets {'o':'abort'}, the rest of the batch runs in a fresh process."""
    if not jobs:
        return []
    exe = os.path.join(bindir(), BIN)
    nproc = nproc or min(core.NCPU, 14)
    per_batch = per_batch or max(1, min(400, (len(jobs) + nproc - 1) // nproc))
    used = None
    batches = []
    for i in range(0, len(jobs), per_batch):
        batches.append([(k, jobs[k]) for k in range(i, min(len(jobs), i + per_batch))])
    defs_by_name = {d["name"]: d for d in defs}

    def defs_for(batch):
        names = []
        for (_, j) in batch:
            for key in [j.get("base")] + list(j.get("inputs", [])):
                if key in defs_by_name and key not in names:
                    names.append(key)
        return "".join(json.dumps(defs_by_name[n]) + "\n" for n in names)

    results = [None] * len(jobs)
    with ThreadPoolExecutor(max_workers=nproc) as ex:
        futs = [ex.submit(_run_batch, exe, defs_for(b), b, timeout) for b in batches]
        for f in futs:
            for idx, r in f.result().items():
                results[idx] = r
    missing = [i for i, r in enumerate(results) if r is None]
    if missing:
        raise ToolError(f"{BIN}: {len(missing)} jobs without result (first {missing[0]})")
    for r in results:
        if r.get("o") in ("badjob", "toolerror"):
            raise ToolError(f"{BIN}: bad job / tool error: {r}")
    return results


def hexs(b):
    return bytes(b).hex()


def base_def(name, data, expect=None):
    d = {"op": "def", "name": name, "input": hexs(data)}
    if expect is not None:
        d["expect"] = hexs(expect)
    return d


def timeouts_to_toolerror(results):
    t = [r for r in results if r.get("o") == "timeout"]
    if t:
        raise ToolError(f"{len(t)} cases hit the watchdog (infrastructure bound, no verdict); first: {t[0]}")


# --------------------------------------------------------------------------------------------- TLC case export
def tlc_export(ctx, module, consts, name, invariants=("Export",), spec="Spec", workers=1, timeout=600, extra_inv=(),
               seq_consts=()):
    """Runs TLC on spec/<module>.tla; every distinct state prints one JSON object through the `Export` invariant
    (PrintT(ToJson(..))). Returns (TlcResult, [dict])."""
    d, mod, cfg = core.write_model(module, consts, spec=spec, invariants=tuple(invariants) + tuple(extra_inv),
                                   seq_consts=seq_consts)
    r = core.run_tlc(mod, cfg, workers=workers, timeout=timeout, cwd=d)
    ctx.note_tlc(name, r)
    log(f"[tlc] {name}: {r}")
    cases = []
    for line in r.printed:
        if not line.startswith('"'):
            continue
        try:
            s = json.loads(line)
            if isinstance(s, str) and s.startswith("{"):
                cases.append(json.loads(s))
        except ValueError:
            pass
    return r, cases


def finish_replay(ctx, sample):
    """a replay run reports its verdict but must not overwrite the evidence of the last full run"""
    core.EVID = os.path.join(core.PWORK, "replay_evidence")
    os.makedirs(core.EVID, exist_ok=True)
    ctx.cov.update({"evaluations": 1, "distinct_nontrivial": 0, "rule": "replay of one recorded case"})
    ctx.sample(sample)
    ctx.finish()
