"""C11: BCJ, Delta and BCJ2 filters are exact inverses and match the reference.

Stage 1  TLC on spec/FilterStream.tla (reader and delta machines): ReaderInverse / ScanPrefix / BufBound for every
         head placement, read-size sequence and source chunking in small scope, three (K, A) shapes; DeltaInverse /
         DeltaHistory over the scaled ring; witness invariants guard against vacuity.
Stage 2  the reader model's state graph is dumped, an edge-covering tour is concretised (buffer 6 -> 4096, heads kept
         at their distance from the buffer boundary) and replayed on the real BCJReader for the three content-
         dependent coders; recorded API traces are validated by TLC against the same spec with the real constants.
Stage 3  exploration on the real code with byte-level oracles: reader(writer(x)) = x and writer(x) = liblzma's
         filter(x) over token-dense synthetic code per architecture (lengths 0..K+A+3, every offset around the
         4096 / 8192 buffer boundaries and the stream end), aligned start offsets up to 2^32, delta distances,
         the real executables, and BCJ2 through the harness's own encoder.
"""
import json, os, random, time
from vlib import core
from vlib.core import log, ToolError
from checks import dlib
from checks.dlib import ARCHS, ARCH_KA, KNOWN_ARCHS
from checks import bcj2model

MANIFEST = dict(
    level="exploration",
    technique="TLA+ specs FilterStream (BCJ reader buffer carry-over, delta ring) and Bcj2Decoder (the resumable BCJ2 decoder and BCJ2Reader::read transcribed at byte-class grain) model-checked with TLC; TLC transition tour replayed into the real BCJReader; every TLC-exported BCJ2 behaviour (input x destination-size pattern x one delivery pattern per stream) replayed into the real BCJ2Reader with the predicted result and decoder state of every call (hook H7); API traces of the real filters and of BCJ2Reader validated by TLC with the real constants; reference comparison against liblzma raw filter chains",
    text="FilterStream.tla models a BCJ filter as (window K, alignment A, position-dependent conversion) and BCJReader::read as coded (4096-byte buffer scaled to 6, pos/filtered/unfiltered carry-over); TLC checks ReaderInverse, ScanPrefix and BufBound for every head placement, read-size sequence and source chunking in small scope, and DeltaInverse/DeltaHistory over the scaled history ring. The model is bound to the code by replaying an edge-covering tour of its state graph on the real readers and by TLC validation of recorded API traces (call size, returned size, source request sizes) with B=4096 and the real K/A. Bcj2Decoder.tla transcribes Bcj2Decoder::decode (ten states, temp[3], five-byte range-decoder initialisation, the two normalisation points, operands split over calls) and BCJ2Reader::read (refill of the wanted stream, top-up of 32-bit streams, extra_read_sizes, Interrupted, error exits); TLC checks OutputOK / NoSpuriousError / Progress / Complete / BufInv for every main-stream string up to a length bound with every flag and operand-class assignment, every destination size per call, every delivery size per source read and one Interrupted fault; the pattern-mode behaviours are exported with predicted per-call results and replayed on the real reader, and randomized longer runs (with Interrupted faults) are validated by TLC event by event. The byte-level claim (reader o writer = id, writer = liblzma's filter, BCJ2 reader inverts the harness encoder) is decided on everything explored: token-dense synthetic code for 8 architectures with opcodes at every offset around the buffer boundaries and the stream end, lengths 0..K+A+3, aligned start offsets up to 2^32, delta distances 1..256, the wget-* executables.",
    ref="4.10, 5.3, 6/C11",
    note="The per-architecture address arithmetic is not modelled (decided on explored inputs only, against liblzma). BCJ2 is exercised against the harness's own encoder written from the 7-Zip format description (never / always / random conversion policies); no foreign BCJ2 encoder exists in the sandbox. TLC results hold for the stated small constants.",
    ready=True,
)


def start_class(s):
    if s == 0:
        return "zero"
    if s < (1 << 30):
        return "low"
    if s < (1 << 31) + (1 << 24) and s > (1 << 31) - (1 << 27):
        return "near_2^31"
    if s >= (1 << 32) - (1 << 24):
        return "near_2^32"
    return "high"


def len_class(n, k, a):
    if n <= k + a + 3:
        return "tiny"
    for b in (4096, 8192):
        if abs(n - b) <= 2 * k:
            return f"~{b}"
    return "small" if n < 4096 else "multi"


def pat_class(p):
    if not p:
        return "big"
    s = set(p)
    return ("z" if 0 in s else "") + ("1" if 1 in s else "") + ("b" if any(4090 <= x <= 4100 for x in s) else "") + \
           ("p" if any(1 < x < 4090 for x in s) else "") + ("B" if any(x > 4100 for x in s) else "")


def grid(tier, seed):
    rnd = random.Random(seed)
    quick = tier == "quick"
    cases = []
    read_pats = [[], [1], [1, 0], [7, 0, 4096], [4095, 4097], [3], [4096], [13, 1, 0, 0, 5000]]
    chunk_pats = [[0], [1], [3], [4096, 1], [7, 4089], [4095]]

    def add(**c):
        c["id"] = f"g{len(cases)}"
        c.setdefault("reference", True)
        cases.append(c)

    for arch in ARCHS:
        k, a = ARCH_KA[arch]
        # lengths 0 .. K + A + 3 (the stream end inside / just after one instruction)
        for n in range(0, k + a + 4):
            for s in range(1 if quick else 3):
                add(kind="bcj", arch=arch, start=0, data={"gen": "dense", "len": n, "seed": rnd.getrandbits(30)},
                    reads=rnd.choice(read_pats[:3]), src_chunks=rnd.choice(chunk_pats[:3]))
        # lengths around the reader's buffer size, token-dense: every phase of an instruction against the boundary
        for b in (4096, 8192):
            for n in range(b - k, b + k + 2):
                add(kind="bcj", arch=arch, start=0, data={"gen": "dense", "len": n, "seed": rnd.getrandbits(30)},
                    reads=rnd.choice(read_pats), src_chunks=rnd.choice(chunk_pats))
        # a known instruction at every aligned offset around the boundary, with each source chunking that moves the
        # buffer phase, and around the end of the stream
        for o in range(4096 - k - a, 4096 + a + 1, a):
            for ch in ([0], [k - 1] if k > 1 else [1], [1]):
                add(kind="bcj", arch=arch, start=0,
                    data={"gen": "known", "len": 4096 + 3 * k + 5, "seed": rnd.getrandbits(30), "density": 30, "force": [o, 4096 + 3 * k + 5 - k, 4096 + 3 * k + 5 - k + a]},
                    reads=rnd.choice(read_pats), src_chunks=ch)
        # start offsets (aligned), including the 2^31 and 2^32 borders
        starts = [a, 16, 4096, 0x10000, (1 << 31) - 16, (1 << 31), (1 << 31) + 4096, (1 << 32) - 4096, (1 << 32) - 16]
        for st in starts:
            for n in ([3000] if quick else [3000, 9000]):
                add(kind="bcj", arch=arch, start=st, data={"gen": "dense", "len": n, "seed": rnd.getrandbits(30)},
                    reads=rnd.choice(read_pats), src_chunks=rnd.choice(chunk_pats))
        # random (non-code) bytes and the real executable
        add(kind="bcj", arch=arch, start=0, data={"gen": "random", "len": 20000, "seed": rnd.getrandbits(30)})
        f = os.path.join(core.REPO, "tests", "data", dlib.WGET[arch])
        if quick:
            add(kind="bcj", arch=arch, start=0, data={"gen": "file", "file": f, "off": 0x8000 // 16 * 16, "len": 70001},
                reads=[4096], src_chunks=[0])
        else:
            for st in (0, 16 * 4096, (1 << 32) - 65536):
                add(kind="bcj", arch=arch, start=st, data={"gen": "file", "file": f, "off": 0, "len": 0},
                    reads=rnd.choice(read_pats[3:]), src_chunks=rnd.choice(chunk_pats))
    # delta
    dists = [1, 2, 3, 4, 7, 8, 16, 31, 32, 64, 127, 128, 255, 256] if quick else list(range(1, 257))
    for dist in dists:
        lens = sorted(set([0, 1, max(dist - 1, 0), dist, dist + 1, 255, 256, 257, 700]))
        for n in (rnd.sample(lens, 3) if quick else lens):
            add(kind="delta", dist=dist, data={"gen": rnd.choice(["random", "dense"]), "len": n, "seed": rnd.getrandbits(30), "arch": "x86"},
                reads=rnd.choice(read_pats), src_chunks=rnd.choice(chunk_pats))
    add(kind="delta", dist=4, data={"gen": "file", "file": os.path.join(core.REPO, "tests", "data", "wget-x86"), "off": 0, "len": 100000 if quick else 0})
    # bcj2
    for pol in (0, 100, 37):
        for n in (0, 1, 4, 5, 6, 9, 100, 5000):
            add(kind="bcj2", data={"gen": "dense", "len": n, "seed": rnd.getrandbits(30), "arch": "x86"}, policy=pol,
                reads=rnd.choice(read_pats), src_chunks=rnd.choice(chunk_pats), reference=False)
        f = os.path.join(core.REPO, "tests", "data", "wget-x86")
        for (rp, cp) in ([([], [0]), ([7, 0, 4096], [3, 7])] if quick else [([], [0]), ([1, 0], [0]), ([7, 0, 4096], [3, 7]), ([4095, 4097], [1]), ([1 << 18], [4096, 1])]):
            add(kind="bcj2", data={"gen": "file", "file": f, "off": 0, "len": 300000 if quick else 0}, policy=pol,
                reads=rp, src_chunks=cp, reference=False)
        add(kind="bcj2", data={"gen": "random", "len": 40000, "seed": rnd.getrandbits(30)}, policy=pol, reference=False)
    return cases


def judge(ctx, c, r, classes, stats):
    """Property-level oracles of C11 on one result."""
    fam = c["kind"]
    arch = c.get("arch", "")
    sc = start_class(c.get("start", 0))
    base = {"family": fam, "arch": arch, "start_class": sc}
    rep = {"case": c}
    if r.get("tool_error"):
        raise ToolError(f"vh_filter: {r['tool_error']} for {c}")
    if r.get("panic"):
        ctx.violation(f"{fam}/{arch}: panic {r['panic']}", dict(base, **{"class": "panic"}), rep)
        return
    if fam in ("bcj", "delta"):
        for key in ("write", "oneshot"):
            v = r.get(key, "ok")
            if v != "ok":
                cls = "panic" if v.startswith("panic") else "write_error"
                ctx.violation(f"{fam}/{arch} start={c.get('start', 0)} dist={c.get('dist')}: one-shot writer {v}", dict(base, **{"class": cls}), rep)
                return
        if r.get("rt_ok") is not True:
            ctx.violation(f"{fam}/{arch} start={c.get('start', 0)} dist={c.get('dist')} n={r.get('n')}: reader(writer(x)) != x "
                          f"(first diff at {r.get('rt_first_diff')}, got {r.get('rt_len')} bytes, err={r.get('rt_err')}, {r.get('rt_ok')})",
                          dict(base, **{"class": "roundtrip"}), rep)
        if c.get("reference"):
            ref = r.get("ref", "")
            if ref == "equal":
                stats["ref_equal"] += 1
                if r.get("dec_of_ref_ok") is not True:
                    ctx.violation(f"{fam}/{arch}: reader does not invert the reference's filtered bytes", dict(base, **{"class": "reference_decode"}), rep)
                if r.get("ref_dec_of_ours_ok") is False:
                    ctx.violation(f"{fam}/{arch}: reference decoder does not invert the writer's bytes", dict(base, **{"class": "reference_decode"}), rep)
            elif ref == "differ":
                ctx.violation(f"{fam}/{arch} start={c.get('start', 0)} dist={c.get('dist')} n={r.get('n')}: filtered bytes differ from liblzma's at offset {r.get('ref_first_diff')}",
                              dict(base, **{"class": "reference"}), rep)
            else:
                stats["ref_unavailable"] += 1
                stats.setdefault("ref_unavailable_why", ref)
        nontrivial = r.get("changed", 0) > 0
    else:
        if r.get("rt_ok") is not True:
            ctx.violation(f"bcj2 policy={c.get('policy')} n={r.get('n')}: BCJ2Reader does not reconstruct the input "
                          f"(first diff {r.get('rt_first_diff')}, got {r.get('rt_len')}, err={r.get('rt_err')}, {r.get('rt_ok')})",
                          dict(base, **{"class": "bcj2", "policy": "never" if c.get("policy") == 0 else "convert"}), rep)
        nontrivial = r.get("markers", 0) > 0
        stats["bcj2_converted"] += r.get("converted", 0)
    if nontrivial:
        k, a = ARCH_KA.get(arch, (5, 1))
        classes.add((fam, arch or str(c.get("policy", "")), c["data"]["gen"], len_class(r.get("n", 0), k, a), sc,
                     pat_class(c.get("reads")), pat_class(c.get("src_chunks"))))


def run(tier, replay=None):
    ctx = core.Check("C11", tier, "exploration")
    core.build_harness()
    if replay:
        return run_replay(ctx, replay)
    quick = tier == "quick"
    rnd = random.Random(ctx.seed)
    import collections
    stats = collections.Counter()
    classes = set()

    # ---------------------------------------------------------------- stage 1 + tour graph: TLC in parallel
    t0 = time.time()
    hc = dlib.head_choices
    shapes = [("x86like", dict(K=3, A=1, B=6, Lens="{7}", HeadChoices=hc(range(7), 3, 2 if quick else 7))),
              ("thumblike", dict(K=4, A=2, B=6, Lens="{8}", HeadChoices=hc(range(0, 8, 2), 4, 4))),
              ("fixedlike", dict(K=2, A=2, B=6, Lens="{7}", HeadChoices=hc(range(0, 7, 2), 2, 1)))]
    if not quick:
        shapes.append(("x86like-2buf", dict(K=3, A=1, B=5, Lens="{11}", ReadSizes="{0,1,4,5,6,99}", SrcChunks="{1,99}",
                                            HeadChoices=hc(range(11), 3, 2))))
    rinv = ["TypeOK", "BufBound", "ScanPrefix", "ReaderInverse"]
    witnesses = ["WitnessStraddle", "WitnessEofTail", "WitnessCompact"]
    jobs = []
    for name, kw in shapes:
        jobs.append(("reader " + name, dlib.fs_consts("reader", **kw), rinv, name == "x86like", False))
    jobs.append(("witnesses", dlib.fs_consts("reader", Lens="{7}", ReadSizes="{1,99}", HeadChoices=hc(range(7), 3, 1)), witnesses, False, True))
    jobs.append(("delta reader", dlib.fs_consts("delta", Role='"r"', Lens="{6}", ReadSizes="{1,2,3,99}"), ["DeltaInverse"], False, False))
    jobs.append(("delta writer repaired", dlib.fs_consts("delta", Role='"w"', Lens="{6}", WriteAll="TRUE"), ["DeltaHistory"], False, False))
    res = dlib.parallel([(lambda j=j: dlib.fs_model(j[1], j[2], dump=j[3], workers=2, continue_=j[4])) for j in jobs], workers=6)
    scripts = []
    for (name, consts, invs, dump, cont), (r, dot) in zip(jobs, res):
        ctx.note_tlc(name, r)
        log(f"[tlc] {name}: {r}")
        if name == "witnesses":
            import re as _re
            hit = set(_re.findall(r"Invariant (\w+) is violated", r.out))
            miss = [w for w in witnesses if w not in hit]
            if miss:
                raise ToolError(f"vacuous model: witness invariants never violated (scenario unreachable): {miss}")
            continue
        if not r.ok:
            raise ToolError(f"TLC reports {r.violated} for the reader / delta design ({name}): the design spec must hold\n" +
                            "\n".join(f"  {s['n']}: {s['action']}" for s in r.trace[-30:]))
        if dot:
            scripts, ne = dlib.tour_scripts(dot)
            os.remove(dot)
            ctx.add("tour_graph_edges", ne)
    log(f"[stage1] {len(jobs)} FilterStream configurations in {time.time()-t0:.1f}s; tour of the reader graph: {len(scripts)} paths")
    if not scripts:
        raise ToolError("no tour paths extracted from the reader graph")

    # ---------------------------------------------------------------- stage 2: tour replay on the real readers
    t0 = time.time()
    n_tour = 600 if quick else 6000
    n_valid = 24 if quick else 80
    full = [s for s in scripts if any(n == "RCall" for n, _ in s)]
    pick = full if len(full) <= n_tour else rnd.sample(full, n_tour)
    tcases = []
    for i, s in enumerate(pick):
        arch = KNOWN_ARCHS[i % 3]
        c = dlib.concretise_reader(s, arch, bm=6, seed=rnd.getrandbits(30), variant=i // 3)
        c["id"] = f"t{i}"
        c["trace"] = True
        tcases.append(c)
    tres = dlib.run_cases("vh_filter", tcases)
    for c, r in zip(tcases, tres):
        c2 = dict(c)
        c2["reference"] = False
        judge(ctx, c2, r, classes, stats)
    ctx.add("tour_paths_replayed", len(tcases))
    # trace validation: per architecture, a sample of the replayed runs
    runs = {a: [] for a in KNOWN_ARCHS}
    for c, r in zip(tcases, tres):
        if r.get("panic") or r.get("rt_ok") is not True or len(r.get("revents", [])) > 400 or len(r.get("heads", [])) > 160:
            continue
        if len(runs[c["arch"]]) < n_valid:
            runs[c["arch"]].append([dlib.reset_event("reader", r)] + dlib.norm_events(r["revents"]))
    # plus fixed-width representatives (scan independent of content)
    fw = []
    for arch in ("arm", "ia64"):
        for (rp, cp) in (([4095, 4097, 0], [0]), ([1 << 16], [7, 4089]), ([7, 0, 1], [4095])):
            fw.append({"id": f"fw-{arch}-{len(fw)}", "kind": "bcj", "arch": arch, "start": 0, "trace": True,
                       "data": {"gen": "known", "len": 9000, "seed": rnd.getrandbits(30), "density": 5, "force": []},
                       "reads": rp, "src_chunks": cp})
    fres = dlib.run_cases("vh_filter", fw)
    for c, r in zip(fw, fres):
        judge(ctx, dict(c, reference=False), r, classes, stats)
        if not r.get("panic") and len(r.get("revents", [])) <= 3000:
            runs.setdefault(c["arch"], []).append([dlib.reset_event("reader", r)] + dlib.norm_events(r["revents"]))

    def val(arch):
        if not runs[arch]:
            return arch, None
        return arch, dlib.validate_runs(ctx, f"reader {arch}", dlib.fs_trace_consts("reader", arch), runs[arch],
                                        invariants=("Track", "TraceInv"))
    accepted = 0
    for arch, v in dlib.parallel([(lambda a=a: val(a)) for a in runs], workers=5):
        if v is None:
            continue
        ok, reached, total, nxt, r = v
        if ok:
            accepted += len(runs[arch])
        else:
            ctx.note_drift(f"Trace_FilterStream (reader, {arch}) rejected the recorded traces after event {reached} of {total}; next event {nxt}"
                           + (f" (TLC: {r.violated})" if r.violated and r.violated != "postcondition" else ""))
            ctx.add("trace_groups_rejected")
    ctx.cov["traces_validated_against_impl"] = accepted
    if accepted == 0:
        raise ToolError("no reader trace was accepted by Trace_FilterStream: the binding between spec and code is broken")
    log(f"[stage2] {len(tcases)} tour paths replayed, {accepted} traces accepted by TLC in {time.time()-t0:.1f}s")

    # ---------------------------------------------------------------- stage 3: exploration with byte-level oracles
    t0 = time.time()
    cases = grid(tier, ctx.seed)
    results = dlib.run_cases("vh_filter", cases, timeout=2400)
    for c, r in zip(cases, results):
        judge(ctx, c, r, classes, stats)
    log(f"[stage3] {len(cases)} filter cases in {time.time()-t0:.1f}s; reference equal in {stats['ref_equal']}, unavailable in {stats['ref_unavailable']}")
    if stats["ref_equal"] < len([c for c in cases if c.get("reference")]) * 0.5 and not ctx.violations:
        raise ToolError(f"reference comparison mostly unavailable ({stats.get('ref_unavailable_why')})")
    if stats["bcj2_converted"] == 0:
        raise ToolError("vacuous BCJ2 exploration: the harness encoder converted no branch")
    fams = set(c[0] for c in classes)
    for need in ("bcj", "delta", "bcj2"):
        if need not in fams:
            raise ToolError(f"vacuous exploration: no non-trivial {need} case")
    missing = [a for a in ARCHS if not any(c[0] == "bcj" and c[1] == a for c in classes)]
    if missing:
        raise ToolError(f"vacuous exploration: no converted branch for {missing}")

    # ---------------------------------------------------------------- stage 4: the BCJ2 decoder state machine
    # (spec/Bcj2Decoder.tla: model-checked over every destination / source partition, every exported behaviour
    # replayed on the real BCJ2Reader with the predicted result and decoder state of every call, randomized real
    # runs validated by TLC)
    n_bcj2 = bcj2model.run(ctx, tier, rnd, classes)

    ctx.cov["evaluations"] = len(cases) + len(tcases) + len(fw) + n_bcj2
    ctx.cov["distinct_nontrivial"] = len(classes)
    ctx.cov["rule"] = ("one evaluation = one filter case on the real code (writer one-shot, reader under the case's read sizes and "
                       "source chunking, reference filter); distinct = (family, architecture/policy, generator, length class, "
                       "start-offset class, read-size pattern class, source-chunk class) among cases in which the filter changed at "
                       "least one byte (BCJ2: at least one branch marker)")
    ctx.cov["reference_equal"] = stats["ref_equal"]
    ctx.cov["reference_unavailable"] = stats["ref_unavailable"]
    ctx.cov["bcj2_branches_converted"] = stats["bcj2_converted"]
    for c in (cases[0], cases[len(cases) // 2], tcases[0], cases[-1]):
        ctx.sample({k: v for k, v in c.items() if k != "trace"})
    ctx.assumptions += ["BCJ2 checked against the harness's own encoder only (no foreign BCJ2 encoder in the sandbox)",
                        "address arithmetic decided on explored inputs against liblzma, not modelled",
                        "TLC small scope: B=6, K<=4, stream length <= 8 (11 in thorough)"]
    ctx.finish()


def run_replay(ctx, path):
    rep = json.load(open(path))
    if "bcj2_case" in rep["replay"]:
        o = bcj2model.replay(ctx, rep["replay"]["bcj2_case"])
        print(json.dumps({k: v for k, v in o.items() if k != "events"}, indent=1)[:3000])
        ctx.cov["evaluations"] = 1
        ctx.cov["distinct_nontrivial"] = 2
        ctx.cov["rule"] = "replay of one recorded case"
        return ctx.finish()
    c = rep["replay"]["case"]
    c["reference"] = c.get("reference", True) and c["kind"] != "bcj2"
    r = dlib.run_cases("vh_filter", [c])[0]
    import collections
    judge(ctx, c, r, set(), collections.Counter())
    print(json.dumps({k: v for k, v in r.items() if k not in ("revents", "wevents")}, indent=1))
    ctx.cov["evaluations"] = 1
    ctx.cov["distinct_nontrivial"] = 2
    ctx.cov["rule"] = "replay of one recorded case"
    ctx.finish()
