"""C02: XZ and LZIP containers round-trip every input under every option."""
import json, random
from concurrent.futures import ThreadPoolExecutor
from vlib import core, contlib
from vlib.core import log

MANIFEST = dict(
    level="exploration",
    technique="TLA+ specs XzContainer / LzipContainer (writer counters, block/member split rule, index and trailer fields, "
              "lzip dictionary-size byte) model-checked with TLC; every TLC behaviour (write partition x block/member limit x check "
              "x header size x flush x empty input) is replayed into the real XZWriter/LZIPWriter and decoded by the crate's readers; "
              "the records an independent strict parser extracts from every produced file are validated by TLC against the trace "
              "specs with WellFormed / RoundTrip / Content as invariants",
    text="TLC checks on the writer models that every finished stream / member is well-formed by the format rules, holds exactly the "
         "units written (nothing lost, duplicated or reordered at block and member boundaries) and is decoded back by the reader "
         "model, for every write partition within the constants, and that the lzip dictionary-size byte covers the dictionary the "
         "encoder used for all 409 boundary sizes between 4 KiB and 512 MiB. The models are bound to the code in both directions: "
         "every behaviour TLC enumerates is concretised into real calls (with filter chains chosen by header size, all four check "
         "types, flushes, empty input) and the decoded bytes are compared with the bytes written; and every file the real writers "
         "produce is parsed by a strict parser written from the format documents, its records are validated by TLC (property-level "
         "pass: WellFormed, Content, RoundTrip on the real output; implementation-shaped pass: every record equals the one the "
         "writer model predicts from the logged calls). A randomized driver adds arbitrary byte sizes, presets and dictionaries.",
    ref="4.8, 5.2, 6/C02",
    note="Byte-exactness is established on the explored inputs only (inputs <= 1 MiB in quick); TLC results hold for the stated "
         "constants (<= 5 units per stream, <= 4 blocks); BCJ chains are exercised on data without branch-like patterns except the "
         "mixed class; small dictionaries (< 64 KiB) are combined with compressible data only.",
    ready=True)


def run(tier, replay=None):
    ctx = core.Check("C02", tier, "exploration")
    core.build_harness()
    j = contlib.Judge(ctx, {"C02"})
    if replay:
        return contlib.run_replay(ctx, j, replay)
    quick = tier == "quick"
    pool = ThreadPoolExecutor(max_workers=8)
    outer = ThreadPoolExecutor(max_workers=3)

    def xz_all():
        scns, res, meta, runs = contlib.family_xz(ctx, j, quick, random.Random(ctx.seed), pool)
        mscns, mres, mruns = contlib.family_xz_many(ctx, j, quick, random.Random(ctx.seed + 7), pool)
        contlib.validate_xz_runs(ctx, j, runs + mruns, pool)
        return scns + mscns

    def lz_all():
        lscns, lres, lruns = contlib.family_lzip(ctx, j, quick, random.Random(ctx.seed + 1), pool)
        contlib.validate_lz_runs(ctx, j, lruns, pool)
        return lscns

    fx, fl, fd = outer.submit(xz_all), outer.submit(lz_all), outer.submit(contlib.dict_byte, ctx, j, quick, pool)
    scns, lscns = fx.result(), fl.result()
    fd.result()
    outer.shutdown()
    pool.shutdown()
    contlib.finish(ctx, j, scns + lscns,
                   "one evaluation = one run of a real writer on a concretised TLC behaviour (or a random call script) followed by the "
                   "crate's reader, the strict parser and liblzma; distinct = (family, check, filter class, limit set, write shape, "
                   "number of blocks/members)")
