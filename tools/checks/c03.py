"""C03: streams interoperate with the reference implementation (liblzma) in both directions."""
import random
from concurrent.futures import ThreadPoolExecutor
from vlib import core, contlib

MANIFEST = dict(
    level="exploration",
    technique="TLA+ specs XzContainer / LzipContainer / Lzma2Chunks / LzmaAlone model-checked with TLC (WellFormed by the format rules, "
              "LZMA2 chunk validity, dictionary byte); every TLC behaviour is replayed into the real writers and the produced .xz / .lz / "
              ".lzma / raw LZMA2 streams are given to liblzma; the records of an independent strict parser are validated by TLC with "
              "WellFormed / Valid / Ref as trace invariants; liblzma-encoded streams over a configuration grid are decoded by the crate "
              "and the reader model of XzContainer must predict the real XZReader on their strict-parser records",
    text="ours -> liblzma: the format is stated in the specifications independently of any decoder (WellFormed: header sizes, block "
         "padding, unpadded size = header + compressed + check, one index record per block, index padding, backward size, footer flags, "
         "stream padding; LZMA2: first chunk resets the dictionary, properties known before the first LZMA chunk; lzip: member size, "
         "dictionary byte covers the encoder's dictionary) and TLC evaluates it on the records a strict parser extracts from every file "
         "the real writers produce for the TLC-enumerated behaviours; in addition liblzma must accept each file and reproduce the input. "
         "liblzma -> ours: presets 0-9, custom lc/lp/pb/dict/nice/mf/mode/depth, 16 filter chains (delta, every BCJ, start offsets, "
         "combinations), four checks, multi-block streams and forged block headers with the optional size fields are decoded by the "
         "crate and compared; the strict parser and the forge are themselves checked against liblzma's files (WellFormed must hold).",
    ref="4.2, 4.8, 5.2, 5.3, 6/C03",
    note="Interoperability is established for the explored inputs and configurations only; liblzma has no lzip encoder, so .lz is checked "
         "in the direction ours -> liblzma only; "
         "dictionaries are limited to 1 MiB (quick) / 8 MiB (thorough) on the reference side.",
    ready=True)


def run(tier, replay=None):
    ctx = core.Check("C03", tier, "exploration")
    core.build_harness()
    j = contlib.Judge(ctx, {"C03"})
    if replay:
        return contlib.run_replay(ctx, j, replay)
    quick = tier == "quick"
    pool = ThreadPoolExecutor(max_workers=8)
    outer = ThreadPoolExecutor(max_workers=5)
    seed = ctx.seed

    def xz_all():
        scns, res, meta, runs = contlib.family_xz(ctx, j, quick, random.Random(seed), pool, cap=250 if quick else 3000, nrand=30 if quick else 300)
        mscns, mres, mruns = contlib.family_xz_many(ctx, j, quick, random.Random(seed + 7), pool)
        contlib.validate_xz_runs(ctx, j, runs + mruns, pool)
        return scns + mscns

    def lz_all():
        scns, res, runs = contlib.family_lzip(ctx, j, quick, random.Random(seed + 1), pool, cap=150 if quick else 2000)
        contlib.validate_lz_runs(ctx, j, runs, pool)
        return scns

    fs = [outer.submit(xz_all), outer.submit(lz_all),
          outer.submit(lambda: contlib.family_lzma2(ctx, j, quick, random.Random(seed + 2), pool)[0]),
          outer.submit(lambda: contlib.family_lzma(ctx, j, quick, random.Random(seed + 3), pool)[0]),
          outer.submit(lambda: contlib.family_ref_to_ours(ctx, j, quick, random.Random(seed + 4), pool)[0])]
    scns = [s for f in fs for s in f.result()]
    outer.shutdown()
    pool.shutdown()
    contlib.finish(ctx, j, scns,
                   "one evaluation = one stream produced by one implementation (crate writer on a concretised TLC behaviour / liblzma encoder "
                   "configuration / forge) and decoded by the other; distinct = (family, format, options class, filter chain, check, "
                   "block/member/chunk structure)")
