"""Shared machinery of the encoder-core checks C01 / C13 / C15 (group C1): EncWindow / MatchFinderPos model
configurations, job construction for harness/src/codec.rs (vh_codec), trace validation with the real constants,
property-level oracles."""
import json, os, random, time, collections
from concurrent.futures import ThreadPoolExecutor
from vlib import core
from vlib.core import log, ToolError

ASBUILT_FILE = os.path.join(core.VERIF, "spec", "asbuilt_c1.json")


def asbuilt():
    """Variant constants describing the current tree (justified by trace validation: the New event must show
    keep_size_before = KeepBefore, renormalisation samples must satisfy Norm)."""
    d = {"PassExtra": "FALSE", "NormKind": "sat", "MoveKeepsPending": "FALSE", "PendingAssertStrict": "TRUE", "MaskAfterPending": "TRUE",
         "KeepAfterUsesNice": "FALSE"}
    if os.path.exists(ASBUILT_FILE):
        d.update(json.load(open(ASBUILT_FILE)))
    return d


# --------------------------------------------------------------------------- EncWindow: scaled model configurations
ENC_INV = ["TypeOK", "IndicesInRange", "HistoryRetained", "ExtendInRange", "AllBytesAccounted", "NoStuck",
           "CopyInRange", "MatchSourceInRange", "LookAheadGate", "MoveInRange", "NoEmptyChunk", "PendingAssertHolds",
           "PosStateAligned"]


def variants(pass_extra=None):
    ab = asbuilt()
    return dict(PassExtra=pass_extra or ab["PassExtra"], MoveKeepsPending=ab["MoveKeepsPending"],
                PendingAssertStrict=ab["PendingAssertStrict"], MaskAfterPending=ab["MaskAfterPending"],
                KeepAfterUsesNice=ab["KeepAfterUsesNice"])


def scaled(**kw):
    c = dict(Dict=2, ModeBefore=1, ExtraAfter=2, MatchMax=3, NiceLen=2, Reserve=2, Align=1, PosAlign=1, RawMax=8, CLimit=5, RawCap=6, ULimit=9,
             ReqFlush=2, ReqFinish=2, SkipLooksBack="FALSE", MaxLook=2, MaxRA=0, Writer='"lzma2"',
             ChunkSize=0, PresetLen=0, N=30, MaxWrite=4, TraceMode="FALSE")
    c.update(variants())
    c.update(kw)
    return {k: str(v) for k, v in c.items()}


NORMAL = dict(ModeBefore=4, ExtraAfter=4, MaxLook=4, MaxRA=3)
BT4 = dict(ReqFlush=3, SkipLooksBack="TRUE")

# name -> (constants, regime used to concretise counter-examples: real options of the same regime)
SCALED_CFGS = {
    "fast-hc4-smalldict": (dict(), dict(mode="fast", mf="hc4", dict=4096)),
    "fast-bt4-smalldict": (dict(**BT4), dict(mode="fast", mf="bt4", dict=4096, nice=64)),
    "fast-hc4-bigdict": (dict(Dict=8, Align=2, PosAlign=2, Reserve=4), dict(mode="fast", mf="hc4", dict=65536)),
    "fast-bt4-bigdict": (dict(Dict=8, **BT4), dict(mode="fast", mf="bt4", dict=65536, nice=273)),
    "normal-bt4-smalldict": (dict(RawCap=4, N=26, **NORMAL, **BT4), dict(mode="normal", mf="bt4", dict=4096)),
    "normal-hc4-bigdict": (dict(Dict=8, RawCap=4, N=26, **NORMAL), dict(mode="normal", mf="hc4", dict=65536)),
    "lzma1-fast-hc4": (dict(Writer='"lzma1"', N=24), dict(writer="lzma1", mode="fast", mf="hc4", dict=4096)),
    "lzma1-normal-bt4": (dict(Writer='"lzma1"', N=24, **NORMAL, **BT4), dict(writer="lzma1", mode="normal", mf="bt4", dict=4096)),
    "chunksize": (dict(ChunkSize=6, N=24), dict(mode="fast", mf="hc4", dict=4096, chunk_size=300000)),
    "preset": (dict(PresetLen=2, N=24), dict(mode="fast", mf="hc4", dict=4096, preset=2000)),
}


def model_check(name, consts, invariants=ENC_INV, workers=3, timeout=900):
    d, mod, cfg = core.write_model("EncWindow", consts, invariants=invariants)
    return core.run_tlc(mod, cfg, workers=workers, cwd=d, timeout=timeout)


# --------------------------------------------------------------------------- real constants of a run
def real_consts(opt, writer="lzma2", chunk_size=None, preset_len=0, pass_extra=None):
    fast = opt.get("mode", "fast") != "normal"
    bt4 = opt.get("mf", "hc4") == "bt4"
    d = int(opt.get("dict", 65536))
    c = dict(Dict=d, ModeBefore=1 if fast else 4096, ExtraAfter=272 if fast else 4096, MatchMax=273, NiceLen=int(opt.get("nice", 32)),
             Reserve=min(d // 2 + (256 << 10), 512 << 20), Align=64, PosAlign=16, RawMax=65536, CLimit=65510, RawCap=65536,
             ULimit=(2 << 20) - 273, ReqFlush=int(opt.get("nice", 32)) if bt4 else 4, ReqFinish=4,
             SkipLooksBack="TRUE" if bt4 else "FALSE", MaxLook=272 if fast else 4096, MaxRA=0 if fast else 4095,
             Writer='"%s"' % writer,
             ChunkSize=max(int(chunk_size), d) if chunk_size else 0, PresetLen=min(int(preset_len), d), N=0, MaxWrite=0,
             TraceMode="TRUE")
    c.update(variants(pass_extra))
    return {k: str(v) for k, v in c.items()}


def job_consts(job):
    pl = job["preset"]["len"] if job.get("preset") else 0
    return real_consts(job["opt"], job["writer"], job.get("chunk_size"), pl)


WIN_EVENTS = {"A", "New", "Preset", "Fill", "Flush", "Finish", "Enc", "Sym", "Chunk"}
NORM_EVENTS = {"Renorm", "NormTab", "NormSmp"}
TRACE_INV = ["Track", "IndicesInRange", "HistoryRetained", "AllBytesAccounted", "CopyInRange", "MatchSourceInRange",
             "LookAheadGate", "MoveInRange", "NoEmptyChunk", "PendingAssertHolds", "PosStateAligned"]


def validate_window_traces(items, timeout=900, pool=None):
    """items: list of (job, result) with result['events']. Groups by real constants, one TLC run per group.
    Returns list of dicts {consts, n, ok, reached, total, next, violated, ids, r}."""
    groups = collections.OrderedDict()
    for job, res in items:
        if res.get("trace_truncated") or not res.get("events"):
            continue
        key = json.dumps(job_consts(job), sort_keys=True)
        groups.setdefault(key, []).append((job, res))

    def one(key, lst):
        consts = json.loads(key)
        lines = []
        for job, res in lst:
            lines.append(json.dumps({"ev": "Reset"}))
            lines.extend(json.dumps(e) for e in res["events"] if e["ev"] in WIN_EVENTS)
        ok, reached, total, r = core.validate_events("Trace_EncWindow", consts, lines, invariants=TRACE_INV, timeout=timeout)
        nxt = lines[reached] if (reached is not None and reached < len(lines)) else None
        observed = None
        if not ok and nxt and '"New"' in nxt:
            # the window was constructed with other constants than the as-built design says: validate once more with the
            # OBSERVED constants, so that the drift note can say which design property the real indices break (if any)
            e = json.loads(nxt)
            c2 = dict(consts, PassExtra="FALSE", ModeBefore=str(e["kb"] - e["dict"]), ExtraAfter=str(e["ka"] - e["mm"]),
                      Reserve=str(e["bs"] - e["kb"] - e["ka"]))
            try:
                ok2, reached2, total2, r2 = core.validate_events("Trace_EncWindow", c2, lines, invariants=TRACE_INV, timeout=timeout)
                observed = ("explained by the observed constants keep_size_before=%d keep_size_after=%d buf_size=%d" % (e["kb"], e["ka"], e["bs"])
                            if ok2 else "with the observed constants (keep_size_before=%d keep_size_after=%d): %s after event %s" %
                            (e["kb"], e["ka"], r2.violated, reached2))
            except ToolError as x:
                observed = "re-validation with the observed constants failed: " + str(x)[:200]
        return dict(consts=consts, n=len(lst), ok=ok, reached=reached, total=total, next=nxt, observed=observed,
                    violated=r.violated, ids=[j["id"] for j, _ in lst], r=r, events=len(lines))

    own = pool is None
    pool = pool or ThreadPoolExecutor(max_workers=6)
    futs = [pool.submit(one, k, v) for k, v in groups.items()]
    out = [f.result() for f in futs]
    if own:
        pool.shutdown()
    return out


# --------------------------------------------------------------------------- running jobs
def run_jobs(jobs, nproc=None, timeout=1800, features=None, target=None, per_batch=None):
    """Runs job dicts through vh_codec in parallel batches; returns results in order."""
    if not jobs:
        return []
    nproc = nproc or min(core.NCPU, 14)
    # balance by input size
    order = sorted(range(len(jobs)), key=lambda i: -job_cost(jobs[i]))
    nb = max(1, min(nproc * 3, len(jobs)))
    batches = [[] for _ in range(nb)]
    load = [0] * nb
    for i in order:
        b = load.index(min(load))
        batches[b].append(i)
        load[b] += job_cost(jobs[i])
    batches = [b for b in batches if b]
    inputs = [([], "\n".join(json.dumps(jobs[i]) for i in b) + "\n") for b in batches]
    res = core.run_bin_parallel("vh_codec", inputs, timeout=timeout, nproc=nproc, features=features, target=target)
    out = [None] * len(jobs)
    for b, r in zip(batches, res):
        lines = [x for x in r.stdout.splitlines() if x.strip()]
        if r.returncode != 0 or len(lines) != len(b):
            raise ToolError(f"vh_codec failed rc={r.returncode}: got {len(lines)} of {len(b)} results; first job "
                            f"{jobs[b[min(len(lines), len(b) - 1)]]['id']}\n{r.stderr[-2000:]}")
        for i, line in zip(b, lines):
            out[i] = json.loads(line)
    return out


def job_cost(j):
    n = sum(s["len"] for s in j["input"]) + 20000
    f = 1.0
    if j["opt"].get("mode") == "normal":
        f *= 4
    if j["opt"].get("mf") == "bt4":
        f *= 2
    return int(n * f * max(1, j.get("repeat", 1)) * (1 + 0.2 * j.get("mutations", 0)))


def mk_job(jid, writer="lzma2", opt=None, input=None, **kw):
    o = dict(dict=65536, lc=3, lp=0, pb=2, mode="fast", nice=32, mf="hc4", depth=0)
    o.update(opt or {})
    j = dict(id=jid, writer=writer, opt=o, input=input or [])
    j.update(kw)
    return j


def seg(cls, n, seed=0, period=0):
    s = {"class": cls, "len": int(n), "seed": int(seed)}
    if period:
        s["period"] = int(period)
    return s


def input_class(job):
    segs = job["input"]
    if not segs or sum(s["len"] for s in segs) == 0:
        return "empty"
    if len(segs) == 1:
        return segs[0]["class"]
    return "mixed-segments"


def size_class(job):
    n = sum(s["len"] for s in job["input"])
    d = job["opt"]["dict"]
    if n == 0:
        return "0"
    if n == 1:
        return "1"
    if n < d:
        return "<dict"
    if n <= (64 << 10):
        return "<=64K"
    if n <= (2 << 20):
        return "<=2M"
    return ">2M"


def opt_sig(job):
    o = job["opt"]
    return (job["writer"], o["mode"], o["mf"], "d%d" % o["dict"], "n%d" % o["nice"], "lc%dlp%dpb%d" % (o["lc"], o["lp"], o["pb"]),
            "depth%d" % o.get("depth", 0), "preset" if job.get("preset") else "-", "cs" if job.get("chunk_size") else "-",
            "h%d%d%d" % (job.get("header", False), job.get("end_marker", False), job.get("declared", False)))


def replay_job(job):
    j = dict(job)
    j["trace"] = 0
    return j


def judge_roundtrip(job, res):
    """C01 oracle. Returns None or (what, sig)."""
    oc = res["outcome"]
    if oc == "ok":
        return None
    o = job["opt"]
    sig = {"writer": job["writer"], "outcome": oc, "mode": o["mode"], "mf": o["mf"],
           "dict_lt_64k": o["dict"] < 65536, "input": input_class(job),
           "chunk_size": bool(job.get("chunk_size")), "preset": bool(job.get("preset")),
           "flush": any(s["op"] == "f" for s in job.get("script", [])), "bias": bool(job.get("bias")),
           "site": panic_site(res.get("detail", "")),
           "err": res.get("detail", "")[:40] if oc in ("dec_err", "enc_err") else "",
           # an uncompressed chunk with dictionary reset in the middle of the stream directly followed by an LZMA chunk
           # that resets the dictionary again (LZMA2Writer::force_independent_chunk left set: DESIGN.md D2)
           "pattern_01_e0": _has_01_e0(res)}
    what = (f"{job['writer']} round trip fails: {oc}: {res.get('detail', '')[:200]} "
            f"(dict={o['dict']} mode={o['mode']} mf={o['mf']} nice={o['nice']} input={input_class(job)}/{size_class(job)})")
    return what, sig


def _has_01_e0(res):
    head = (res.get("census") or {}).get("head") or []
    return any(a == 1 and b == 0xE0 for a, b in zip(head[1:], head[2:]))


def panic_site(detail):
    if " @ " in detail:
        loc = detail.rsplit(" @ ", 1)[1]
        f = loc.split(":")[0]
        return os.path.basename(f)
    return ""


def shadow_failures(res, key="shadow"):
    return [s for s in res.get(key, []) if s["violations"] > 0]
