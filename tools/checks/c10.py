"""C10: dropping or finishing an MT reader/writer releases all of its threads; worker bound."""
from vlib import core
from checks.mtplans import run_plan, reader_cfgs, writer_cfgs, run_replay


def run(tier, replay=None):
    ctx = core.Check("C10", tier, "model_checking")
    core.build_harness()
    if replay:
        return run_replay(ctx, {"C10"}, replay)
    quick = tier == "quick"
    rows = []
    # drop at every idle point of the read history (before any I/O, mid-stream, after eof, after an error)
    for k in (0, 1, 2):
        rows.append((f"lz2-drop{k}", "lzma2", 2, ["I", "I", "I"], dict(drop_after=k), "tour" if k < 2 else "rand"))
    rows += [
        ("lz2-eof-drop", "lzma2", 2, ["I", "I"], dict(), "tour"),
        ("lz2-err-drop", "lzma2", 2, ["I", "I", "I"], dict(bad=[1]), "rand"),
        ("lz2-src-err-drop", "lzma2", 2, ["I", "X"], dict(), "tour"),
        ("lz2-1w-drop1", "lzma2", 1, ["I", "I", "I"], dict(drop_after=1), "tour"),
        ("lz2-3w-drop1", "lzma2", 3, ["I", "I", "I"], dict(drop_after=1), "rand"),
        ("lzip-drop0", "lzip", 2, ["M", "M", "M"], dict(drop_after=0), "tour"),
        ("lzip-drop1", "lzip", 2, ["M", "M", "M"], dict(drop_after=1), "rand"),
        ("lzip-eof-drop", "lzip", 2, ["M", "M"], dict(), "tour"),
        ("lzip-err-drop", "lzip", 2, ["M", "M", "M"], dict(bad=[0]), "rand"),
    ]
    if not quick:
        rows += [
            ("lz2-3w-4u-drop1", "lzma2", 3, ["I", "I", "I", "I"], dict(drop_after=1), "rand"),
            ("lz2-3w-drop2", "lzma2", 3, ["I", "I", "I", "I", "I"], dict(drop_after=2), "rand"),
            ("lz2-drop1-full", "lzma2", 2, ["I", "I", "I"], dict(drop_after=1), "fulltour"),
            ("lzip-3w-drop2", "lzip", 3, ["M", "M", "M", "M"], dict(drop_after=2), "tour"),
        ]
    plan = reader_cfgs(rows) + writer_cfgs(quick, drop=True)
    run_plan(ctx, {"C10"}, plan, quick, workqueue=True)
