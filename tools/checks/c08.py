"""C08: multi-threaded readers and writers are equivalent to the single-threaded ones."""
from vlib import core
from checks.mtplans import run_plan, reader_cfgs, writer_cfgs, run_replay


def run(tier, replay=None):
    ctx = core.Check("C08", tier, "model_checking")
    core.build_harness()
    if replay:
        return run_replay(ctx, {"C08"}, replay)
    quick = tier == "quick"
    plan = reader_cfgs([
        ("lz2-3u", "lzma2", 2, ["I", "I", "I"], dict(), "tour"),
        ("lz2-dep", "lzma2", 2, ["I", "D", "I"], dict(), "rand"),
        ("lz2-dep-first", "lzma2", 2, ["D", "D", "I", "D"], dict(), "rand"),
        ("lz2-1u", "lzma2", 2, ["I"], dict(), "tour"),
        ("lz2-empty", "lzma2", 2, [], dict(), "tour"),
        ("lz2-1w", "lzma2", 1, ["I", "I", "I"], dict(), "tour"),
        ("lz2-3w-4u", "lzma2", 3, ["I", "I", "D", "I"], dict(), "rand"),
        ("lz2-props-reset", "lzma2", 2, ["I", "P", "I", "U", "D"], dict(), "rand"),
        ("lz2-preset", "lzma2", 2, ["I", "D", "I"], dict(extra=dict(preset=True)), "rand"),
        ("lz2-preset-long", "lzma2", 2, ["I", "D", "I"], dict(extra=dict(preset=True, dict_size=4096, preset_len=6000)), "rand"),
        ("lz2-short-src", "lzma2", 2, ["I", "I", "I"], dict(extra=dict(src_chunk=7)), "rand"),
        ("lzip-short-src", "lzip", 2, ["M", "M", "M"], dict(extra=dict(src_chunk=5)), "rand"),
        ("lz2-unc-trailing", "lzma2", 2, ["I", "I", "D"], dict(extra=dict(unc=[1], trailing=9)), "rand"),
        ("lz2-text-1k", "lzma2", 2, ["I", "I", "I"], dict(extra=dict(data_class="text", unit_len=1500)), "rand"),
        ("lzip-3m", "lzip", 2, ["M", "M", "M"], dict(), "tour"),
        ("lzip-unc", "lzip", 2, ["M", "M"], dict(extra=dict(unc=[0], data_class="mixed", unit_len=2000)), "rand"),
        ("lzip-empty-member", "lzip", 2, ["M", "M", "M"], dict(empty=[1]), "rand"),
        ("lzip-1m", "lzip", 2, ["M"], dict(), "tour"),
        ("lzip-3w", "lzip", 3, ["M", "M", "M"], dict(), "rand"),
    ] + ([] if quick else [
        ("lzip-3w-4m", "lzip", 3, ["M", "M", "M", "M"], dict(), "rand"),
        ("lz2-5u", "lzma2", 2, ["I", "I", "I", "I", "I"], dict(), "rand"),
        ("lz2-3w-5u", "lzma2", 3, ["I", "D", "I", "I", "I"], dict(), "rand"),
        ("lz2-3u-full", "lzma2", 2, ["I", "I", "I"], dict(), "fulltour"),
        ("lzip-3m-full", "lzip", 2, ["M", "M", "M"], dict(), "fulltour"),
        ("lzip-5m", "lzip", 3, ["M", "M", "M", "M", "M"], dict(empty=[0, 4]), "rand"),
    ]))
    plan += writer_cfgs(quick)
    run_plan(ctx, {"C08"}, plan, quick)
