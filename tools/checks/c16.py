"""C16: readers consume exactly the bytes of their stream."""
import random
from concurrent.futures import ThreadPoolExecutor
from vlib import core, contlib

MANIFEST = dict(
    level="exploration",
    technique="TLA+ specs XzContainer (ConsumesExactly: the single-stream reader ends exactly behind the footer, model-checked with TLC over "
              "streams followed by padding / another stream / other bytes) and Lzma2Chunks (exact chunk lengths, the strict chunk walker "
              "gives the stream length independently of writer and reader); TLC behaviours and a format x source x trailing-bytes x "
              "read-size grid are replayed into the real LZMAReader / LZMA2Reader / XZReader over a byte-counting source; TConsumed is a "
              "trace invariant of the TLC-validated writer traces",
    text="After the reader has returned end of stream the byte-counting source must stand at the first byte behind the stream: checked "
         "for .lzma with end marker and with declared size, raw LZMA2 and single-stream XZ, for streams written by the crate and by "
         "liblzma (and forged block headers), followed by nothing, zero bytes, random bytes or another stream, with read sizes 1, 2, 7, "
         "1000, 4096, 65536. The stream length is established independently (strict parser / liblzma total_in). TLC checks "
         "ConsumesExactly on the XZ reader model for all exported concatenation behaviours, which are replayed into the real reader. Directed shapes: raw LZMA2 written and read with a preset dictionary shorter than / as long as / longer than the dictionary, and declared-size .lzma streams several times the dictionary read with sizes that straddle the wrap point of the dictionary buffer.",
    ref="4.2, 4.8, 6/C16",
    note="Held on the explored streams only (inputs <= 70 KiB in quick, <= 1 MiB in thorough); the range-coder byte accounting itself "
         "(RangeCoder spec) belongs to group C2; .lzma streams carrying both a declared size and an end marker are outside the statement.",
    ready=True)


def run(tier, replay=None):
    ctx = core.Check("C16", tier, "exploration")
    core.build_harness()
    j = contlib.Judge(ctx, {"C16"})
    if replay:
        return contlib.run_replay(ctx, j, replay)
    quick = tier == "quick"
    pool = ThreadPoolExecutor(max_workers=8)
    outer = ThreadPoolExecutor(max_workers=4)
    seed = ctx.seed

    def xz_all():
        scns, res, meta, runs = contlib.family_xz(ctx, j, quick, random.Random(seed), pool, cap=150 if quick else 2000, nrand=30 if quick else 300)
        contlib.validate_xz_runs(ctx, j, runs, pool)
        return scns

    fs = [outer.submit(lambda: contlib.family_consume(ctx, j, quick, random.Random(seed + 1), pool)[0]),
          outer.submit(lambda: contlib.family_concat_xz(ctx, j, quick, random.Random(seed + 2), pool)[0]),
          outer.submit(xz_all if not quick else (lambda: [])),
          outer.submit(lambda: contlib.family_lzma2(ctx, j, quick, random.Random(seed + 3), pool)[0]),
          outer.submit(lambda: contlib.family_lzma(ctx, j, quick, random.Random(seed + 4), pool)[0])]
    scns = [s for f in fs for s in f.result()]
    outer.shutdown()
    pool.shutdown()
    contlib.finish(ctx, j, scns,
                   "one evaluation = one valid stream (followed by a trailing-bytes kind) read to end of stream by a real reader over a "
                   "byte-counting source; distinct = (format, source, trailing kind, end-marker/declared-size, read sizes, data class, outcome)")
