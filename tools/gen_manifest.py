#!/usr/bin/env python3
"""Regenerates /verif/MANIFEST.json from the table below (single source of truth for the interface)."""
import json, os, subprocess
V = "/verif"
props = [json.loads(l) for l in open(f"{V}/properties.jsonl")]
hooks = subprocess.run(["git", "-C", "/repo", "log", "--format=%h %s"], capture_output=True, text=True).stdout.splitlines()
hook_commits = [l.split()[0] for l in hooks if l.split(" ", 1)[1].startswith("verif hook")]

MT_NOTE = ("Assumes sequentially consistent atomics and the std Mutex/Condvar/mpsc semantics simulated by the cfg-gated "
           "runtime src/verif_rt.rs (hook H2); TLC results hold for the stated small constants (<= 3 workers, <= 5 units); "
           "workers run the real codec on small real streams.")
CHECKS = {
 "C08": dict(level="model_checking", technique="TLA+ spec (MtReader/MtWriter) model-checked with TLC; TLC transition tours replayed into the real code on a deterministic runtime; recorded traces validated by TLC",
   text="TLC visits every interleaving of coordinator and workers of the primitive-grain specifications MtReader.tla / MtWriter.tla within small constants and checks in-order exactly-once delivery (InOrder), plus liveness; the specification is bound to the code in both directions: edge-covering tours of TLC's state graph are replayed step by step into the real LZMA2/LZIP MT readers and writers on the deterministic runtime with the enabled-thread sets compared, and traces recorded under random/PCT schedules are validated by TLC against the same spec. Every execution also compares the bytes with the single-threaded result.",
   ref="4.1, 5.1, 6/C08", note=MT_NOTE),
 "C09": dict(level="model_checking", technique="TLA+ spec model-checked with TLC (deadlock freedom + liveness under fairness), TLC counter-examples / tours / regressed-variant schedules replayed into the real code with exact deadlock detection, TLC trace validation",
   text="Termination and error reporting are decided on the specification by TLC (no deadlock state, <>termination under weak fairness, NoFalseSuccess) for every fault scenario (corrupt unit, truncated / unterminated / empty input, source failure, worker panic), and on the code by replaying TLC-derived schedules and randomized schedules on the deterministic runtime, where 'caller blocked and no thread enabled' is detected exactly.",
   ref="4.1, 5.1, 6/C09", note=MT_NOTE),
 "C10": dict(level="model_checking", technique="TLA+ spec model-checked with TLC (WorkersReleased, WorkerBound), drop at every idle point; schedules of regressed design variants (lost wake-up) replayed into the real code; TLC trace validation",
   text="TLC checks that after drop/finish every worker exits (liveness) and that the number of live workers never exceeds the limit, for drops at every idle point of the call history; the real code is driven through tour, counter-example and randomized schedules and the runtime reports any thread still blocked at the end of a run and the maximum number of live workers.",
   ref="4.1, 5.1, 6/C10", note=MT_NOTE),
}
# checks defined by their own module: tools/checks/cNN.py with a module-level MANIFEST dict
import importlib, sys
sys.path.insert(0, f"{V}/tools")
for p in props:
    pid = p["id"]
    if pid in CHECKS or not os.path.exists(f"{V}/tools/checks/{pid.lower()}.py"):
        continue
    try:
        mod = importlib.import_module("checks." + pid.lower())
        if hasattr(mod, "MANIFEST") and mod.MANIFEST.get("ready", True):
            CHECKS[pid] = mod.MANIFEST
    except Exception as e:
        print("skip", pid, e)
NA = {}
if os.path.exists(f"{V}/not_applicable.json"):
    NA = json.load(open(f"{V}/not_applicable.json"))
PENDING = "check not built yet (build in progress, see DESIGN.md section 10)"

m = {"version": 1,
     "setup_cmd": "sh /verif/tools/setup.sh",
     "hooks": {"guard": "lzma_rust2_verif",
               "enable": "--cfg lzma_rust2_verif via rustflags in /verif/harness/.cargo/config.toml (every harness build)",
               "baseline_off_cmd": "cd /repo && cargo test --workspace --no-fail-fast --offline",
               "source_commits": hook_commits, "add_only": True},
     "engines": [{"name": "tlc", "path": "/opt/veriftools/tla/tla2tools.jar", "serves_properties": sorted(CHECKS),
                  "kind_free_text": "TLC 1.8.0 explicit-state model checker: design checks, state-graph dumps for transition tours, trace validation"},
                 {"name": "vh", "path": "/verif/harness", "serves_properties": sorted(CHECKS),
                  "kind_free_text": "Rust conformance harness (path dependency on /repo, hooks enabled): replays TLC behaviours into the real code, records NDJSON traces"}],
     "checks": [], "notes": "see DESIGN.md; known findings in /verif/known_findings.json", "not_applicable": []}
for p in props:
    pid = p["id"]
    if pid in CHECKS:
        c = CHECKS[pid]
        m["checks"].append({"property_id": pid,
                            "quick_cmd": f"python3 tools/check.py {pid} --tier quick",
                            "thorough_cmd": f"python3 tools/check.py {pid} --tier thorough",
                            "evidence_file": f"/verif/evidence/{pid}.json",
                            "replay_cmd_template": f"python3 tools/check.py {pid} --replay {{path}}",
                            "engine": c.get("engine", "tlc+vh"),
                            "level_claimed": {"category": c["level"], "text": c["text"], "design_ref": c["ref"]},
                            "level_note": c["note"], "technique": c["technique"]})
    else:
        m["not_applicable"].append({"property_id": pid, "reason": NA.get(pid, PENDING)})
json.dump(m, open(f"{V}/MANIFEST.json", "w"), indent=1)
print("checks:", [c["property_id"] for c in m["checks"]], "pending:", len(m["not_applicable"]))
