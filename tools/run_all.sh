#!/bin/sh
# Runs every registered check of a tier in sequence and prints a summary (development aid, not a registered command).
tier=${1:-quick}; shift
ids=${*:-"C01 C02 C03 C04 C05 C06 C07 C08 C09 C10 C11 C12 C13 C14 C15 C16 C17 C18 C19"}
mkdir -p work/runall
for c in $ids; do
  s=$(date +%s)
  nice -n 5 python3 tools/check.py $c --tier $tier > work/runall/$c.$tier.log 2>&1
  rc=$?
  e=$(date +%s)
  echo "$c $tier exit=$rc wall=$((e-s))s $(grep -c '^VIOLATION' work/runall/$c.$tier.log) violations $(grep -c '^KNOWN-FINDING' work/runall/$c.$tier.log) known $(grep -c '^DRIFT' work/runall/$c.$tier.log) drift"
done
