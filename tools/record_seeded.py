#!/usr/bin/env python3
"""Records a confirmed seeded mutation under /verif/seeded/<id>/ from the agent's directory and try_mutant results.
usage: record_seeded.py <mutant_dir> <id> <notes> <eval.json> [<eval.json> ...]"""
import json, os, shutil, sys
src, sid, notes = sys.argv[1], sys.argv[2], sys.argv[3]
evals = [json.load(open(f)) for f in sys.argv[4:]]
d = f"/verif/seeded/{sid}"
os.makedirs(d, exist_ok=True)
for f in ("patch.diff", "demo.rs"):
    if os.path.exists(f"{src}/{f}"):
        shutil.copy(f"{src}/{f}", f"{d}/{f}")
m = json.load(open(f"{src}/meta.json"))
checks = {}
conf = {}
for e in evals:
    for k in ("applies", "demo_passes_without", "demo_fails_with", "existing_tests_pass_with"):
        if e.get(k) is not None:
            conf[k] = e[k]
    for pid, v in e["checks"].items():
        viol = [l.strip() for l in v["lines"] if l.startswith("  what")]
        drift = [l for l in v["lines"] if l.startswith("DRIFT")]
        if v["exit"] == 1 and viol:
            checks[f"{pid} quick"] = "VIOLATION: " + viol[0][6:300] + (f" (+{len(drift)} DRIFT lines)" if drift else "")
        elif v["exit"] == 0:
            checks[f"{pid} quick"] = "exit 0 (not caught)" + (": DRIFT only: " + drift[0][:200] if drift else "")
        else:
            checks[f"{pid} quick"] = f"exit {v['exit']} (tool error): " + v.get("tail", "")[-200:]
meta = {"property": m.get("property"), "title": m.get("title"), "what_it_breaks": m.get("what_it_breaks"),
        "needs_to_manifest": m.get("needs_to_manifest"), "files": m.get("files"),
        "origin": "fresh sub-agent given only the property record (statement, quantifier, anchors) and a scratch worktree of /repo (no access to /verif)",
        "confirmed_by_lead": dict(conf, how="python3 tools/try_mutant.py <dir> <checks> --confirm --tests=--lib (scratch git worktree of /repo HEAD, git apply; demo.rs run as tests/vdemo.rs with and without the patch; the agent ran the full suite with the patch: same pass/fail set as the clean tree; checks run from a snapshot of /verif with VERIF_REPO pointing at the scratch tree)"),
        "checks": checks, "notes": notes}
json.dump(meta, open(f"{d}/meta.json", "w"), indent=1)
print(sid, checks)
