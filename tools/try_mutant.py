#!/usr/bin/env python3
"""Tries a seeded mutation against the checks without touching /repo.

  python3 tools/try_mutant.py <mutant_dir> <Cxx> [<Cyy> ...] [--confirm] [--tier quick]

<mutant_dir> holds patch.diff (+ optionally demo.rs and meta.json). A scratch git worktree of /repo's HEAD is
created under /tmp/mt_eval, the patch applied, the named checks run with VERIF_REPO / VERIF_OUT pointing at the
scratch tree, and the worktree removed again. With --confirm the demonstration is run with and without the patch
and the repository's own (relevant) tests with it."""
import argparse, json, os, shutil, subprocess, sys, time

EV = "/tmp/mt_eval"


def sh(cmd, cwd=None, env=None, timeout=3600):
    e = dict(os.environ)
    e.update(env or {})
    return subprocess.run(cmd, cwd=cwd, env=e, timeout=timeout, stdout=subprocess.PIPE, stderr=subprocess.STDOUT, text=True)


def main():
    ap = argparse.ArgumentParser()
    ap.add_argument("mutant")
    ap.add_argument("pids", nargs="+")
    ap.add_argument("--confirm", action="store_true")
    ap.add_argument("--tier", default="quick")
    ap.add_argument("--tests", default="--lib")
    ap.add_argument("--slot", default="0", help="parallel evaluation slot (separate scratch directories)")
    a = ap.parse_args()
    global EV
    EV = os.path.join("/tmp/mt_eval", "slot" + a.slot)
    mdir = os.path.abspath(a.mutant)
    name = os.path.basename(os.path.dirname(mdir.rstrip("/"))) + "_" + os.path.basename(mdir.rstrip("/"))
    os.makedirs(EV, exist_ok=True)
    wt = os.path.join(EV, "repo")
    sh(["git", "-C", "/repo", "worktree", "remove", "--force", wt])
    shutil.rmtree(wt, ignore_errors=True)
    p = sh(["git", "-C", "/repo", "worktree", "add", "--detach", wt, "HEAD"])
    if p.returncode != 0:
        print(p.stdout)
        sys.exit(2)
    out = {"mutant": mdir, "checks": {}}
    # run the checks from a snapshot of /verif so that edits made meanwhile do not disturb the evaluation
    snap = os.path.join(EV, "verif_snap")
    sh(["rsync", "-a", "--delete", "--exclude", "target", "--exclude", "work", "--exclude", ".git", "--exclude", "evidence",
        "--exclude", "replays", "/verif/", snap + "/"])
    try:
        tenv = {"CARGO_TARGET_DIR": os.path.join(EV, "target_dev")}
        demo = os.path.join(mdir, "demo.rs")
        if a.confirm and os.path.exists(demo):
            shutil.copy(demo, os.path.join(wt, "tests", "vdemo.rs"))
            r0 = sh(["cargo", "test", "--offline", "--test", "vdemo"], cwd=wt, env=tenv)
            out["demo_passes_without"] = r0.returncode == 0
        ap_ = sh(["git", "apply", "--3way", os.path.join(mdir, "patch.diff")], cwd=wt)
        if ap_.returncode != 0:
            ap_ = sh(["git", "apply", os.path.join(mdir, "patch.diff")], cwd=wt)
        if ap_.returncode != 0:
            print("patch does not apply:", ap_.stdout)
            out["applies"] = False
            print(json.dumps(out, indent=1))
            return
        out["applies"] = True
        if a.confirm:
            if os.path.exists(demo):
                r1 = sh(["cargo", "test", "--offline", "--test", "vdemo"], cwd=wt, env=tenv)
                out["demo_fails_with"] = r1.returncode != 0
                out["demo_tail"] = r1.stdout[-600:]
                os.remove(os.path.join(wt, "tests", "vdemo.rs"))
            rt = sh(["cargo", "test", "--offline"] + a.tests.split(), cwd=wt, env=tenv)
            out["existing_tests_pass_with"] = rt.returncode == 0
            if rt.returncode != 0:
                out["tests_tail"] = rt.stdout[-800:]
        for pid in a.pids:
            t0 = time.time()
            od = os.path.join(EV, "out_" + name)
            r = sh(["python3", os.path.join(snap, "tools", "check.py"), pid, "--tier", a.tier], cwd=snap,
                   env={"VERIF_REPO": wt, "VERIF_OUT": od})
            open(os.path.join(EV, f"log_{name}_{pid}.txt"), "w").write(r.stdout)
            lines = [l for l in r.stdout.splitlines() if l.startswith(("VIOLATION", "  what", "KNOWN-FINDING", "DRIFT", "TOOL-ERROR"))]
            out["checks"][pid] = {"exit": r.returncode, "wall_s": round(time.time() - t0), "lines": lines[:12]}
            if r.returncode not in (0, 1) or (r.returncode == 1 and not lines):
                out["checks"][pid]["tail"] = r.stdout[-1500:]
    finally:
        sh(["git", "-C", "/repo", "worktree", "remove", "--force", wt])
        shutil.rmtree(wt, ignore_errors=True)
    print(json.dumps(out, indent=1))


if __name__ == "__main__":
    main()
