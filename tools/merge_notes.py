#!/usr/bin/env python3
"""Inserts the groups' notes (notes/group*.md) into DESIGN.md section 11 between markers (idempotent)."""
import re, os
D = "/verif/DESIGN.md"
s = open(D).read()
BEGIN, END = "<!-- BEGIN GROUP NOTES -->", "<!-- END GROUP NOTES -->"
order = [("11.3", "groupA.md", "Containers (C02, C03, C12, C16, C18)"),
         ("11.4", "groupB.md", "Hostile input and I/O faults (C04, C05, C06)"),
         ("11.5", "groupC1.md", "Encoder core (C01, C13, C15)"),
         ("11.6", "groupC2.md", "Decoder core and feature configurations (C14; symbol, ring and range-coder specifications)"),
         ("11.7", "groupD.md", "Filters, call partitions, options, memory (C07, C11, C17, C19)")]
parts = [BEGIN, ""]
for num, f, title in order:
    p = os.path.join("/verif/notes", f)
    if not os.path.exists(p):
        parts.append(f"### {num} {title}\n\n(notes pending)\n")
        continue
    t = open(p).read()
    t = re.sub(r"^# .*\n", "", t, count=1)                 # drop the file's own title
    t = re.sub(r"^(#{1,4}) ", lambda m: "#" * min(6, len(m.group(1)) + 2) + " ", t, flags=re.M)
    parts.append(f"### {num} {title}\n\n*(written by the builder of this group; file notes/{f})*\n\n{t.strip()}\n")
parts.append(END)
block = "\n".join(parts)
if BEGIN in s:
    s = s[:s.index(BEGIN)] + block + s[s.index(END) + len(END):]
else:
    anchor = "### 11.9 Seeded mutations"
    s = s.replace(anchor, block + "\n\n" + anchor, 1)
open(D, "w").write(s)
print("merged", [f for _, f, _ in order if os.path.exists(os.path.join('/verif/notes', f))])
