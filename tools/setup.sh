#!/bin/sh
# MANIFEST.setup_cmd: builds everything the checks need from files on disk only (offline).
set -e
export CARGO_NET_OFFLINE=true
cd /verif/harness
cargo build --release --offline
# C14: feature configurations (own target directories, see notes/groupC2.md)
cargo build --release --offline --no-default-features --features std --target-dir target/alt_noopt
if [ -d /verif/harness_nostd ]; then
  cd /verif/harness_nostd
  cargo build --release --offline --target-dir target/alt_plain
  cargo build --release --offline --features optimization --target-dir target/alt_opt
fi
cd /verif
python3 tools/sany_all.py
