//! Option-grid conformance (group D; C19): every point of the boundary grid of the public option fields is
//! executed on the real writer - construct, write, finish - under panic containment, then the produced bytes are
//! decoded with the corresponding reader. The outcome class is what Options.tla predicts per point:
//!   Err            an error was returned by the constructor, write, flush or finish
//!   OkDecodable    success reported and the reader yields exactly the written bytes
//!   OkUndecodable  success reported but the reader fails / panics / yields other bytes
//!   Panic          constructor, write or finish panicked
//! Points that may abort the process (huge allocations) are run one per process by the check.
use serde::Deserialize;
use serde_json::{json, Value};

use crate::filters::{make_data, DataSpec};
use crate::partition::{decode, encode, Opts};
use crate::tio::{self, contain, Sink};

#[derive(Deserialize, Clone, Debug)]
pub struct Case {
    pub id: String,
    pub target: String,
    #[serde(default)]
    pub opts: Opts,
    pub data: DataSpec,
    #[serde(default)]
    pub script: Vec<i64>,
}

pub fn run_case(c: &Case) -> Value {
    let mut res = json!({"id": c.id, "target": c.target});
    let (data, _) = match make_data(&c.data, c.data.arch.as_deref().unwrap_or("x86")) {
        Ok(d) => d,
        Err(e) => {
            res["tool_error"] = json!(e);
            return res;
        }
    };
    res["n"] = json!(data.len());
    let sink = Sink::new(&[], None);
    let w = contain(|| encode(&c.target, &c.opts, &data, &c.script, sink.clone(), None));
    let stream = sink.bytes();
    res["out_len"] = json!(stream.len());
    match w {
        Err(p) => {
            res["class"] = json!("Panic");
            res["phase"] = json!("encode");
            res["detail"] = json!(format!("{p} @ {}", tio::last_panic_loc()));
            return res;
        }
        Ok(Err(e)) => {
            if e.starts_with("tool:") {
                res["tool_error"] = json!(e);
                return res;
            }
            res["class"] = json!("Err");
            res["phase"] = json!(e.split(':').next().unwrap_or("?"));
            res["detail"] = json!(e);
            return res;
        }
        Ok(Ok(())) => {}
    }
    let d = contain(|| decode(&c.target, &c.opts, stream, data.len(), &[], &[], None, false));
    match d {
        Ok(Ok(ro)) => {
            if ro.err.is_none() && ro.bytes == data {
                res["class"] = json!("OkDecodable");
            } else {
                res["class"] = json!("OkUndecodable");
                res["phase"] = json!("decode");
                res["detail"] = json!(match &ro.err {
                    Some(e) => format!("reader error: {e}"),
                    None => format!("reader yields {} bytes, differs from the {} written", ro.bytes.len(), data.len()),
                });
            }
        }
        Ok(Err(e)) => {
            res["class"] = json!("OkUndecodable");
            res["phase"] = json!("decode");
            res["detail"] = json!(e);
        }
        Err(p) => {
            res["class"] = json!("OkUndecodable");
            res["phase"] = json!("decode");
            res["detail"] = json!(format!("reader panic: {p} @ {}", tio::last_panic_loc()));
        }
    }
    res
}
