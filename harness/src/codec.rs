//! Group C1 (C01 / C13 / C15): option x input-class driver for the single-threaded LZMA / LZMA2
//! writers and readers. Every job is one encoder history (write / flush / finish script) over a
//! generated input; the result carries the round-trip verdict, the output digest, coverage
//! counters, the shadow-assertion monitor (hook H5) and - if requested - the window trace
//! (hook H3) as JSON events for `Trace_EncWindow.tla` / `Trace_MatchFinderPos.tla`.
use std::io::{Read, Write};
use std::num::NonZeroU64;
use std::panic::{catch_unwind, AssertUnwindSafe};
use std::sync::Mutex;

use lzma_rust2::verif_trace as vt;
use lzma_rust2::verif_win as vw;
use lzma_rust2::*;
use serde::Deserialize;
use serde_json::{json, Map, Value};

use crate::gen;

fn d_3() -> u32 {
    3
}
fn d_2() -> u32 {
    2
}
fn d_nice() -> u32 {
    32
}
fn d_dict() -> u32 {
    1 << 16
}
fn d_one() -> u32 {
    1
}
fn d_read() -> usize {
    1 << 16
}
fn d_true() -> bool {
    true
}

#[derive(Deserialize, Clone, Debug)]
pub struct Seg {
    pub class: String,
    pub len: usize,
    #[serde(default)]
    pub seed: u64,
    /// class "block": a random block of this many bytes repeated
    #[serde(default)]
    pub period: usize,
    /// class "echo": alphabet size of the repeated block (0 = 256)
    #[serde(default)]
    pub alpha: u32,
    /// class "echo": mean spacing of the bytes that differ from the block (0 = none)
    #[serde(default)]
    pub noise: usize,
    /// class "echo": offsets (within the segment) of forced deviations from the block
    #[serde(default)]
    pub marks: Vec<Mark>,
}

#[derive(Deserialize, Clone, Debug)]
pub struct Mark {
    pub at: usize,
    /// the deviating byte and the two block bytes behind it also occur 40 bytes earlier (a short near match starts at
    /// the mark, a long match at the block period one byte later)
    #[serde(default)]
    pub la: bool,
}

#[derive(Deserialize, Clone, Debug)]
pub struct Opt {
    #[serde(default = "d_dict")]
    pub dict: u32,
    #[serde(default = "d_3")]
    pub lc: u32,
    #[serde(default)]
    pub lp: u32,
    #[serde(default = "d_2")]
    pub pb: u32,
    #[serde(default)]
    pub mode: String, // fast | normal
    #[serde(default = "d_nice")]
    pub nice: u32,
    #[serde(default)]
    pub mf: String, // hc4 | bt4
    #[serde(default)]
    pub depth: i32,
}

#[derive(Deserialize, Clone, Debug)]
pub struct Step {
    pub op: String, // w | f | age
    #[serde(default)]
    pub n: usize,
    #[serde(default)]
    pub d: i32,
}

#[derive(Deserialize, Clone, Debug)]
pub struct Job {
    pub id: String,
    pub writer: String, // lzma2 | lzma1
    pub opt: Opt,
    #[serde(default)]
    pub preset: Option<Seg>,
    #[serde(default)]
    pub chunk_size: Option<u64>,
    #[serde(default)]
    pub header: bool,
    #[serde(default)]
    pub end_marker: bool,
    #[serde(default)]
    pub declared: bool,
    pub input: Vec<Seg>,
    /// write / flush schedule; bytes not covered by it are written in one last call; finish is implicit
    #[serde(default)]
    pub script: Vec<Step>,
    #[serde(default)]
    pub trace: u8,
    #[serde(default)]
    pub bias: i32,
    #[serde(default = "d_one")]
    pub repeat: u32,
    #[serde(default = "d_read")]
    pub read_size: usize,
    #[serde(default = "d_true")]
    pub decode: bool,
    #[serde(default)]
    pub max_events: usize,
    /// C15 decoder side: number of mutated copies of the produced stream to decode with the shadow monitor on
    #[serde(default)]
    pub mutations: u32,
    #[serde(default)]
    pub mut_seed: u64,
}

pub fn seg_data(s: &Seg) -> Vec<u8> {
    match s.class.as_str() {
        "block" => {
            let p = s.period.max(1);
            let blk = gen::data("random", p, s.seed);
            let mut v = Vec::with_capacity(s.len);
            while v.len() < s.len {
                let n = (s.len - v.len()).min(p);
                v.extend_from_slice(&blk[..n]);
            }
            v
        }
        "echo" => {
            // a random block over a small alphabet repeated with period `period` (every position has a candidate at exactly
            // that distance while its 2- / 3-byte prefixes also occur nearby), copies differing from the block in single
            // bytes (`noise`: matches at the period stay short, so the match finder is consulted every few positions);
            // `marks` force a deviation at given offsets and keep their neighbourhood free of other deviations
            let p = s.period.max(1);
            let a = if s.alpha == 0 || s.alpha > 256 { 256u64 } else { s.alpha.max(2) as u64 };
            let mut r = gen::Rng::new(s.seed ^ 0xEC40);
            let blk: Vec<u8> = (0..p).map(|_| r.below(a) as u8).collect();
            let mut v: Vec<u8> = (0..s.len).map(|i| blk[i % p]).collect();
            let other = |r: &mut gen::Rng, b: u8| ((b as u64 + 1 + r.below(a - 1)) % a) as u8;
            if s.noise > 0 {
                for i in 0..s.len {
                    if r.below(s.noise as u64) == 0 && !s.marks.iter().any(|m| (i + 48 >= m.at && i <= m.at + 16) || (i + p + 48 >= m.at && i + p <= m.at + 16)) {
                        v[i] = other(&mut r, blk[i % p]);
                    }
                }
            }
            for m in &s.marks {
                if m.at + 3 > s.len {
                    continue;
                }
                let c = other(&mut r, blk[m.at % p]);
                v[m.at] = c;
                if m.la && m.at >= 40 {
                    v[m.at - 40] = c;
                    v[m.at - 39] = blk[(m.at + 1) % p];
                    v[m.at - 38] = blk[(m.at + 2) % p];
                }
            }
            v
        }
        "wordy" => {
            // stretches of words from a small vocabulary (every position has a short match, so the optimal parser keeps
            // extending its look-ahead chain up to its limit), each followed by a phrase seen before (a match of maximal
            // length met deep inside the look-ahead)
            let mut r = gen::Rng::new(s.seed ^ 0x77);
            let words: Vec<Vec<u8>> = (0..300)
                .map(|_| {
                    let l = 2 + r.below(9) as usize;
                    (0..l).map(|_| b'a' + r.below(26) as u8).collect()
                })
                .collect();
            let plen = if s.period > 0 { s.period } else { 400 };
            let phrase: Vec<u8> = (0..plen).map(|_| b'A' + r.below(26) as u8).collect();
            let mut v = Vec::with_capacity(s.len + 8192);
            v.extend_from_slice(&phrase);
            while v.len() < s.len {
                let end = v.len() + 3000 + r.below(3000) as usize;
                while v.len() < end {
                    let w = &words[r.below(words.len() as u64) as usize];
                    v.extend_from_slice(w);
                    v.push(b' ');
                }
                v.truncate(end);
                v.extend_from_slice(&phrase);
            }
            v.truncate(s.len);
            v
        }
        c => gen::data(c, s.len, s.seed),
    }
}

pub fn input_data(segs: &[Seg]) -> Vec<u8> {
    let mut v = Vec::new();
    for s in segs {
        if s.class == "soup" {
            // short matches everywhere, hardly any redundancy: every 4-byte word is copied from a random place within the
            // last `period` bytes (keeps the optimal parser looking far ahead while the data stays nearly incompressible)
            let mut r = gen::Rng::new(s.seed ^ 0x50u64);
            let w = 4usize;
            let end = v.len() + s.len;
            while v.len() < end {
                let back = s.period.max(w + 1).min(v.len());
                if back < w + 1 {
                    v.push(r.byte());
                    continue;
                }
                let src = v.len() - w - r.below((back - w) as u64) as usize;
                for k in 0..w {
                    if v.len() < end {
                        let b = v[src + k];
                        v.push(b);
                    }
                }
            }
            continue;
        }
        v.extend(seg_data(s));
    }
    v
}

fn lzma_options(j: &Job, preset: &Option<Vec<u8>>) -> LZMAOptions {
    let o = &j.opt;
    let mut lo = LZMAOptions::new(
        o.dict,
        o.lc,
        o.lp,
        o.pb,
        if o.mode == "normal" { EncodeMode::Normal } else { EncodeMode::Fast },
        o.nice,
        if o.mf == "bt4" { MFType::BT4 } else { MFType::HC4 },
        o.depth,
    );
    lo.preset_dict = preset.clone();
    lo
}

static PANIC_MSG: Mutex<String> = Mutex::new(String::new());

pub fn install_panic_hook() {
    std::panic::set_hook(Box::new(|info| {
        let loc = info.location().map(|l| format!("{}:{}", l.file(), l.line())).unwrap_or_default();
        let msg = if let Some(s) = info.payload().downcast_ref::<&str>() {
            s.to_string()
        } else if let Some(s) = info.payload().downcast_ref::<String>() {
            s.clone()
        } else {
            "?".to_string()
        };
        if let Ok(mut g) = PANIC_MSG.lock() {
            *g = format!("{} @ {}", msg, loc);
        }
    }));
}

fn take_panic() -> String {
    PANIC_MSG.lock().map(|mut g| std::mem::take(&mut *g)).unwrap_or_default()
}

const T_API_WRITE: u8 = 40;
const T_API_FLUSH: u8 = 41;
const T_API_FINISH: u8 = 42;

fn api(tag: u8, n: i64) {
    if vt::enabled() {
        vw::flush();
        vt::emit(tag, [n, 0, 0, 0, 0, 0, 0, 0]);
    }
}

enum Wr {
    L2(LZMA2Writer<Vec<u8>>),
    L1(LZMAWriter<Vec<u8>>),
    Lzip(LZIPWriter<Vec<u8>>),
    Xz(XZWriter<'static, Vec<u8>>),
}

/// One encoder history. Returns the compressed bytes or an error text.
fn encode_once(j: &Job, data: &[u8], preset: &Option<Vec<u8>>) -> std::result::Result<Vec<u8>, String> {
    let lo = lzma_options(j, preset);
    vw::set_lz_bias(j.bias);
    let mut w = if j.writer == "lzma1" {
        let declared = if j.declared { Some(data.len() as u64) } else { None };
        let r = if j.header {
            LZMAWriter::new(Vec::new(), &lo, true, j.end_marker, declared)
        } else {
            LZMAWriter::new(Vec::new(), &lo, false, j.end_marker, declared)
        };
        Wr::L1(r.map_err(|e| format!("new: {e}"))?)
    } else if j.writer == "lzip" {
        let mut o = LZIPOptions::with_preset(0);
        o.lzma_options = lo;
        o.member_size = j.chunk_size.and_then(NonZeroU64::new);
        Wr::Lzip(LZIPWriter::new(Vec::new(), o))
    } else if j.writer == "xz" {
        let mut o = XZOptions::default();
        o.lzma_options = lo;
        o.block_size = j.chunk_size.and_then(NonZeroU64::new);
        Wr::Xz(XZWriter::new(Vec::new(), o).map_err(|e| format!("new: {e}"))?)
    } else {
        let mut o2 = LZMA2Options::default();
        o2.lzma_options = lo;
        o2.chunk_size = j.chunk_size.and_then(NonZeroU64::new);
        Wr::L2(LZMA2Writer::new(Vec::new(), o2))
    };
    vw::set_lz_bias(0);
    let mut off = 0usize;
    let mut steps: Vec<Step> = j.script.clone();
    let covered: usize = steps.iter().filter(|s| s.op == "w").map(|s| s.n).sum();
    if covered < data.len() && !steps.iter().any(|s| s.op == "wall") {
        steps.push(Step { op: "w".into(), n: data.len() - covered, d: 0 });
    }
    // "wall": the rest of the input in pieces of n bytes
    if let Some(i) = steps.iter().position(|s| s.op == "wall") {
        let piece = steps[i].n.max(1);
        let done: usize = steps[..i].iter().filter(|s| s.op == "w").map(|s| s.n).sum();
        steps.truncate(i);
        let mut left = data.len().saturating_sub(done);
        while left > 0 {
            let n = left.min(piece);
            steps.push(Step { op: "w".into(), n, d: 0 });
            left -= n;
        }
    }
    for s in &steps {
        match s.op.as_str() {
            "w" => {
                let n = s.n.min(data.len() - off);
                api(T_API_WRITE, n as i64);
                let r = match &mut w {
                    Wr::L1(w) => w.write_all(&data[off..off + n]),
                    Wr::L2(w) => w.write_all(&data[off..off + n]),
                    Wr::Lzip(w) => w.write_all(&data[off..off + n]),
                    Wr::Xz(w) => w.write_all(&data[off..off + n]),
                };
                r.map_err(|e| format!("write: {e}"))?;
                off += n;
            }
            "f" => {
                api(T_API_FLUSH, 0);
                let r = match &mut w {
                    Wr::L1(w) => w.flush(),
                    Wr::L2(w) => w.flush(),
                    Wr::Lzip(w) => w.flush(),
                    Wr::Xz(w) => w.flush(),
                };
                r.map_err(|e| format!("flush: {e}"))?;
            }
            "age" => vw::age(s.d),
            _ => return Err(format!("bad step {}", s.op)),
        }
    }
    api(T_API_FINISH, 0);
    let out = match w {
        Wr::L1(w) => w.finish(),
        Wr::L2(w) => w.finish(),
        Wr::Lzip(w) => w.finish(),
        Wr::Xz(w) => w.finish(),
    }
    .map_err(|e| format!("finish: {e}"))?;
    vw::flush();
    Ok(out)
}

fn decode_all(j: &Job, comp: &[u8], preset: &Option<Vec<u8>>, expect: &[u8]) -> std::result::Result<(Vec<u8>, bool), String> {
    let mut out = Vec::with_capacity(expect.len());
    let mut buf = vec![0u8; j.read_size.max(1)];
    let mut prefix_ok = true;
    let pd = preset.as_deref();
    macro_rules! drain {
        ($r:expr) => {{
            loop {
                match $r.read(&mut buf) {
                    Ok(0) => break,
                    Ok(n) => {
                        out.extend_from_slice(&buf[..n]);
                        if out.len() > expect.len() || out[out.len() - n..] != expect[out.len() - n..out.len()] {
                            prefix_ok = false;
                        }
                        if out.len() > expect.len() + (1 << 20) {
                            return Err("decoder produces more than the input".into());
                        }
                    }
                    Err(e) => return Err(format!("{:?}: {}", e.kind(), e)),
                }
            }
        }};
    }
    if j.writer == "lzma1" {
        let o = &j.opt;
        if j.header {
            let mut r = LZMAReader::new_mem_limit(comp, u32::MAX, pd).map_err(|e| format!("new: {e}"))?;
            drain!(r);
        } else {
            let size = if j.end_marker && !j.declared { u64::MAX } else { expect.len() as u64 };
            let mut r = LZMAReader::new(comp, size, o.lc, o.lp, o.pb, o.dict, pd).map_err(|e| format!("new: {e}"))?;
            drain!(r);
        }
    } else if j.writer == "lzip" {
        let mut r = LZIPReader::new(comp).map_err(|e| format!("new: {e}"))?;
        drain!(r);
    } else if j.writer == "xz" {
        let mut r = XZReader::new(comp, false);
        drain!(r);
    } else {
        let mut r = LZMA2Reader::new(comp, j.opt.dict, pd);
        drain!(r);
    }
    Ok((out, prefix_ok))
}

/// LZMA2 chunk census of a stream: control-byte classes, largest sizes, structural sanity.
pub fn lzma2_census(b: &[u8]) -> Value {
    let mut kinds: Map<String, Value> = Map::new();
    let mut i = 0usize;
    let (mut max_u, mut max_c, mut n) = (0u64, 0u64, 0u64);
    let mut ok = false;
    let mut seq: Vec<u8> = Vec::new();
    while i < b.len() {
        let c = b[i];
        if c == 0 {
            ok = i + 1 == b.len();
            break;
        }
        n += 1;
        if seq.len() < 64 {
            seq.push(c & 0xE0 | (c < 0x80) as u8 * (c & 3));
        }
        let name;
        if c >= 0x80 {
            if i + 5 > b.len() {
                break;
            }
            let u = (((c & 0x1f) as u64) << 16) + ((b[i + 1] as u64) << 8) + b[i + 2] as u64 + 1;
            let cs = ((b[i + 3] as u64) << 8) + b[i + 4] as u64 + 1;
            let hdr = if c >= 0xC0 { 6 } else { 5 };
            name = format!("{:02x}", c & 0xE0);
            max_u = max_u.max(u);
            max_c = max_c.max(cs);
            i += hdr + cs as usize;
        } else {
            if c > 2 || i + 3 > b.len() {
                break;
            }
            let u = ((b[i + 1] as u64) << 8) + b[i + 2] as u64 + 1;
            name = format!("{:02x}", c);
            max_u = max_u.max(u);
            i += 3 + u as usize;
        }
        let e = kinds.entry(name).or_insert(json!(0));
        *e = json!(e.as_u64().unwrap() + 1);
    }
    json!({"kinds": kinds, "chunks": n, "max_uncompressed": max_u, "max_compressed": max_c, "well_formed": ok, "head": seq})
}

/// Hostile variant number `i` of a valid LZMA2 stream.
pub fn mutate_lzma2(c: &[u8], rng: &mut gen::Rng, i: u32) -> Vec<u8> {
    let mut v = c.to_vec();
    // chunk starts
    let mut starts: Vec<(usize, usize, usize)> = Vec::new(); // (offset, header len, payload len) of LZMA chunks
    let mut p = 0usize;
    while p < c.len() && c[p] != 0 {
        let b = c[p];
        if b >= 0x80 {
            if p + 5 > c.len() {
                break;
            }
            let cs = ((c[p + 3] as usize) << 8) + c[p + 4] as usize + 1;
            let hdr = if b >= 0xC0 { 6 } else { 5 };
            starts.push((p, hdr, cs));
            p += hdr + cs;
        } else {
            if p + 3 > c.len() {
                break;
            }
            p += 3 + ((c[p + 1] as usize) << 8) + c[p + 2] as usize + 1;
        }
    }
    if starts.is_empty() || v.len() < 8 {
        if !v.is_empty() {
            let k = rng.below(v.len() as u64) as usize;
            v[k] ^= 1 << rng.below(8);
        }
        return v;
    }
    let (off, hdr, cs) = starts[rng.below(starts.len() as u64) as usize];
    match i % 4 {
        0 => {
            // declare a larger uncompressed size: the decoder keeps decoding past the real end of the payload
            let u = ((v[off] as usize & 0x1f) << 16) + ((v[off + 1] as usize) << 8) + v[off + 2] as usize;
            let nu = (u + 1 + rng.below(70_000) as usize).min((1 << 21) - 1);
            v[off] = (v[off] & 0xE0) | ((nu >> 16) as u8 & 0x1f);
            v[off + 1] = (nu >> 8) as u8;
            v[off + 2] = nu as u8;
        }
        1 => {
            // declare a shorter compressed size (payload cut short inside the stream)
            let ncs = if cs > 6 { 5 + rng.below((cs - 5) as u64) as usize } else { cs };
            v[off + 3] = ((ncs - 1) >> 8) as u8;
            v[off + 4] = (ncs - 1) as u8;
        }
        2 => {
            // flip bytes inside the payload
            for _ in 0..1 + rng.below(4) {
                let k = off + hdr + rng.below(cs as u64) as usize;
                if k < v.len() {
                    v[k] ^= 1 << rng.below(8);
                }
            }
        }
        _ => {
            // a payload of 0xFF bytes: long runs of direct bits / maximal distances, then whatever follows
            let n = cs.min(64 + rng.below(512) as usize);
            for k in 0..n {
                let q = off + hdr + 5 + k;
                if q < off + hdr + cs && q < v.len() {
                    v[q] = 0xFF;
                }
            }
            let u = 0x1F_FFFFusize;
            v[off] = (v[off] & 0xE0) | ((u >> 16) as u8 & 0x1f);
            v[off + 1] = (u >> 8) as u8;
            v[off + 2] = u as u8;
        }
    }
    v
}

fn ev_json(tag: u8, f: &[i64; 8]) -> Option<Value> {
    Some(match tag {
        vw::T_NEW => json!({"ev":"New","dict":f[0],"kb":f[1],"ka":f[2],"bs":f[3],"mm":f[4],"nice":f[5],"mf":f[6]}),
        vw::T_FILL => json!({"ev":"Fill","rp":f[0],"rl":f[1],"wp":f[2],"pe":f[3],"len":f[4],"mv":f[5],"inp":f[6],"fin":f[7]}),
        vw::T_FLUSH => json!({"ev":"Flush","rp":f[0],"rl":f[1],"wp":f[2],"pe":f[3]}),
        vw::T_FINISH => json!({"ev":"Finish","rp":f[0],"rl":f[1],"wp":f[2],"pe":f[3]}),
        vw::T_PRESET => json!({"ev":"Preset","rp":f[0],"rl":f[1],"wp":f[2],"pe":f[3],"n":f[4],"plen":f[6]}),
        vw::T_ENC => json!({"ev":"Enc","n":f[0],"len":f[1],"ra":f[2],"rp":f[3],"pe":f[4],"un":f[5],"wp":f[6]}),
        vw::T_SYM => json!({"ev":"Sym","len":f[0],"ra":f[1],"rp":f[2],"pe":f[3],"un":f[4],"wp":f[5]}),
        vw::T_CHUNK => json!({"ev":"Chunk","un":f[0],"raw":f[1],"rp":f[2],"ra":f[3]}),
        vw::T_RENORM => json!({"ev":"Renorm","mf":f[0],"lz":f[1],"off":f[2],"lz2":f[3],"cyc":f[4],"cpos":f[5]}),
        vw::T_NORMTAB => json!({"ev":"NormTab","tab":f[0],"n":f[1],"off":f[2],"minb":f[3],"maxb":f[4],"mina":f[5],"maxa":f[6],"mism":f[7]}),
        vw::T_NORMSMP => json!({"ev":"NormSmp","tab":f[0],"i":f[1],"off":f[2],"b":f[3],"a":f[4]}),
        T_API_WRITE => json!({"ev":"A","call":"write","n":f[0]}),
        T_API_FLUSH => json!({"ev":"A","call":"flush","n":0}),
        T_API_FINISH => json!({"ev":"A","call":"finish","n":0}),
        _ => return None,
    })
}

fn dirty_heap(round: u32) {
    // leave freed, non-zero memory of assorted sizes behind so that later allocations may reuse it
    let mut keep: Vec<Vec<u8>> = Vec::new();
    for (i, sz) in [1usize << 12, 1 << 16, 1 << 18, 300_000, 1 << 20, 1 << 22, 5_000_000].iter().enumerate() {
        let v = vec![0xA5u8 ^ (round as u8) ^ (i as u8); *sz];
        keep.push(v);
    }
    std::hint::black_box(&keep);
}

pub fn run_job(j: &Job) -> Value {
    let data = input_data(&j.input);
    let preset = j.preset.as_ref().map(seg_data);
    let mut digests: Vec<String> = Vec::new();
    let mut first: Option<Vec<u8>> = None;
    let mut outcome = "ok".to_string();
    let mut detail = String::new();
    let mut events: Vec<Value> = Vec::new();
    let mut truncated = false;
    vt::reset_counters();
    vw::reset_shadows();
    let max_events = if j.max_events == 0 { 400_000 } else { j.max_events };
    for rep in 0..j.repeat.max(1) {
        if rep > 0 {
            dirty_heap(rep);
        }
        let tracing = j.trace > 0 && rep == 0;
        if tracing {
            vw::set_level(j.trace);
            vt::enable();
        }
        let _ = take_panic();
        let r = catch_unwind(AssertUnwindSafe(|| encode_once(j, &data, &preset)));
        vw::flush();
        let evs = if tracing { vt::take() } else { Vec::new() };
        vt::disable();
        vw::set_lz_bias(0);
        vw::age(0);
        if tracing {
            // other groups' hooks (per-symbol events) share the sink: keep the window / API events only
            let mine = evs.iter().filter(|(t, _)| *t >= 16).count();
            if mine > max_events {
                truncated = true;
            } else {
                events = evs.iter().filter_map(|(t, f)| ev_json(*t, f)).collect();
            }
        }
        match r {
            Err(_) => {
                outcome = "enc_panic".into();
                detail = take_panic();
                break;
            }
            Ok(Err(e)) => {
                outcome = "enc_err".into();
                detail = e;
                break;
            }
            Ok(Ok(c)) => {
                digests.push(gen::digest(&c));
                if first.is_none() {
                    first = Some(c);
                }
            }
        }
    }
    let enc_counters = vt::counters();
    let enc_shadows = vw::shadows();
    let mut res = json!({"id": j.id, "input_len": data.len(), "input_digest": gen::digest(&data)});
    let m = res.as_object_mut().unwrap();
    let mut decoded_len = 0usize;
    let mut first_diff: i64 = -1;
    if let (Some(c), true) = (&first, outcome == "ok") {
        m.insert("clen".into(), json!(c.len()));
        if j.writer == "lzma2" {
            m.insert("census".into(), lzma2_census(c));
        }
        if j.decode {
            let _ = take_panic();
            let r = catch_unwind(AssertUnwindSafe(|| decode_all(j, c, &preset, &data)));
            match r {
                Err(_) => {
                    outcome = "dec_panic".into();
                    detail = take_panic();
                }
                Ok(Err(e)) => {
                    outcome = "dec_err".into();
                    detail = e;
                }
                Ok(Ok((out, prefix_ok))) => {
                    decoded_len = out.len();
                    if out != data || !prefix_ok {
                        outcome = "mismatch".into();
                        first_diff = out.iter().zip(data.iter()).position(|(a, b)| a != b).unwrap_or(out.len().min(data.len())) as i64;
                        detail = format!("decoded {} of {} bytes, first difference at {}", out.len(), data.len(), first_diff);
                    }
                }
            }
        }
    }
    // C15, decoder side: hostile variants of the stream (shortened chunk sizes make the range decoder run past
    // the end of the chunk buffer; flipped payload bytes; truncation) are decoded with the monitor on
    let mut mut_stats = json!(null);
    if let (Some(c), true) = (&first, j.mutations > 0 && j.writer == "lzma2") {
        let mut rng = gen::Rng::new(j.mut_seed ^ 0x5EED);
        let (mut ok, mut err, mut pan) = (0u32, 0u32, 0u32);
        let mut first_panic = String::new();
        for i in 0..j.mutations {
            let mc = mutate_lzma2(c, &mut rng, i);
            let _ = take_panic();
            let r = catch_unwind(AssertUnwindSafe(|| {
                let mut out = Vec::new();
                let mut r = LZMA2Reader::new(mc.as_slice(), j.opt.dict, preset.as_deref());
                let mut buf = vec![0u8; 1 << 15];
                loop {
                    match r.read(&mut buf) {
                        Ok(0) => return true,
                        Ok(n) => {
                            out.extend_from_slice(&buf[..n]);
                            if out.len() > data.len() + (8 << 20) {
                                return true;
                            }
                        }
                        Err(_) => return false,
                    }
                }
            }));
            match r {
                Ok(true) => ok += 1,
                Ok(false) => err += 1,
                Err(_) => {
                    pan += 1;
                    if first_panic.is_empty() {
                        first_panic = format!("mutation {}: {}", i, take_panic());
                    }
                }
            }
        }
        mut_stats = json!({"ok": ok, "err": err, "panic": pan, "first_panic": first_panic});
    }
    let all = vt::counters();
    let sh = vw::shadows();
    let shadow_json = |s: &[vw::Shadow; 6]| -> Value {
        Value::Array(
            s.iter()
                .enumerate()
                .map(|(i, e)| {
                    json!({"site": vw::SITE_NAMES[i], "count": e.count, "violations": e.violations,
                           "min_margin": if e.count == 0 { 0 } else { e.min_margin }, "first": e.first,
                           "touch_lo": e.touch_lo, "touch_hi": e.touch_hi})
                })
                .collect(),
        )
    };
    m.insert("outcome".into(), json!(outcome));
    m.insert("detail".into(), json!(detail));
    m.insert("digests".into(), json!(digests));
    m.insert("decoded_len".into(), json!(decoded_len));
    m.insert("first_diff".into(), json!(first_diff));
    m.insert(
        "cov".into(),
        json!({"moves": enc_counters[vw::C_MOVE], "moves_pending": enc_counters[vw::C_MOVE_PENDING], "pending_reprocessed": enc_counters[vw::C_PENDING],
               "pending_positions": enc_counters[vw::C_PENDING_POS],
               "chunks_lzma": enc_counters[vw::C_CHUNK_LZMA], "chunks_raw": enc_counters[vw::C_CHUNK_RAW],
               "renorm": enc_counters[vw::C_RENORM], "fills": enc_counters[vw::C_FILL],
               "norm_scalar": enc_counters[vw::C_NORM_SCALAR], "norm_simd": enc_counters[vw::C_NORM_SIMD],
               "norm_mismatch": enc_counters[vw::C_NORM_MISMATCH], "encoders": enc_counters[vw::C_NEW],
               "sym_lit": all[4], "sym_match": all[5], "sym_longrep": all[6], "sym_shortrep": all[7]}),
    );
    m.insert("shadow_enc".into(), shadow_json(&enc_shadows));
    m.insert("mutations".into(), mut_stats);
    m.insert("shadow".into(), shadow_json(&sh));
    if j.trace > 0 {
        m.insert("trace_truncated".into(), json!(truncated));
        m.insert("events".into(), Value::Array(events));
    }
    res
}
