//! Byte-level corruption of concrete files (C04 / C06; owner: group B): single-bit flips, byte edits, seeded
//! structure-aware mutation restricted to given byte ranges, pure random bytes, truncation, and CRC32 fix-ups
//! over given regions so that the damage passes the container checks and reaches deep parsing. Record-level
//! edits (deletion / duplication / transposition of records, field edits with correct or wrong CRCs) are made
//! by the forge in tools/checks/bforge.py, which knows the record layout because it assembled the file.
use serde::Deserialize;

use crate::gen::Rng;

#[derive(Deserialize, Clone, Debug, Default)]
pub struct Fix {
    pub at: usize,
    pub from: usize,
    pub to: usize,
    /// "crc32" (little endian, 4 bytes)
    #[serde(default)]
    pub algo: String,
}

#[derive(Deserialize, Clone, Debug, Default)]
pub struct Seeded {
    pub seed: u64,
    pub n: usize,
    /// byte ranges [a, b) the mutation may touch (empty = whole input)
    #[serde(default)]
    pub within: Vec<(usize, usize)>,
}

#[derive(Deserialize, Clone, Debug, Default)]
pub struct Mutn {
    #[serde(default)]
    pub flip: Option<u64>,
    #[serde(default)]
    pub set: Vec<(usize, u8)>,
    #[serde(default)]
    pub xor: Vec<(usize, u8)>,
    #[serde(default)]
    pub seeded: Option<Seeded>,
    #[serde(default)]
    pub trunc: Option<usize>,
    #[serde(default)]
    pub fix: Vec<Fix>,
    /// pure random bytes of this length replace the input (seed from `seeded.seed`)
    #[serde(default)]
    pub random_len: Option<usize>,
}

fn crc32(b: &[u8]) -> u32 {
    const C: crc::Crc<u32, crc::Table<16>> = crc::Crc::<u32, crc::Table<16>>::new(&crc::CRC_32_ISO_HDLC);
    C.checksum(b)
}

pub fn apply_mutation(input: &[u8], m: &Mutn) -> Vec<u8> {
    let mut v = input.to_vec();
    if let Some(n) = m.random_len {
        let mut r = Rng::new(m.seeded.as_ref().map(|s| s.seed).unwrap_or(1));
        v = (0..n).map(|_| r.byte()).collect();
    }
    if let Some(bit) = m.flip {
        let i = (bit / 8) as usize;
        if i < v.len() {
            v[i] ^= 1 << (bit % 8);
        }
    }
    for (i, b) in &m.set {
        if *i < v.len() {
            v[*i] = *b;
        }
    }
    for (i, b) in &m.xor {
        if *i < v.len() {
            v[*i] ^= *b;
        }
    }
    if let Some(s) = &m.seeded {
        if m.random_len.is_none() && !v.is_empty() {
            let mut r = Rng::new(s.seed);
            let ranges: Vec<(usize, usize)> = if s.within.is_empty() {
                vec![(0, v.len())]
            } else {
                s.within.iter().map(|(a, b)| (*a.min(&v.len()), *b.min(&v.len()))).filter(|(a, b)| a < b).collect()
            };
            if !ranges.is_empty() {
                let total: usize = ranges.iter().map(|(a, b)| b - a).sum();
                for _ in 0..s.n {
                    let mut k = r.below(total as u64) as usize;
                    let mut pos = 0;
                    for (a, b) in &ranges {
                        if k < b - a {
                            pos = a + k;
                            break;
                        }
                        k -= b - a;
                    }
                    match r.below(8) {
                        0 | 1 | 2 => v[pos] ^= 1 << r.below(8),
                        3 => v[pos] = r.byte(),
                        4 => v[pos] = 0,
                        5 => v[pos] = 0xFF,
                        6 => v[pos] = v[pos].wrapping_add(1),
                        _ => v[pos] = v[pos].wrapping_sub(1),
                    }
                }
            }
        }
    }
    if let Some(t) = m.trunc {
        v.truncate(t);
    }
    for f in &m.fix {
        if f.from <= f.to && f.to <= v.len() && f.at + 4 <= v.len() {
            let c = crc32(&v[f.from..f.to]);
            v[f.at..f.at + 4].copy_from_slice(&c.to_le_bytes());
        }
    }
    v
}

