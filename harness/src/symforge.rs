//! StreamForge, symbol part (group C2): an independent LZMA symbol serialiser.
//!
//! Range encoder, probability model, literal / length / distance coding and the `state` / `reps`
//! bookkeeping are written from the LZMA specification (LZMA SDK "lzma-specification.txt") and the
//! xz file format description of LZMA2 chunks; no code is shared with the crate under test and there
//! is no match finder: the caller supplies the symbol sequence. It realises TLC symbol scripts (every
//! symbol-kind sequence, also ones no encoder would choose) as `.lzma` or raw LZMA2 streams.
//! `ref_decode_*` decode with liblzma so that every forged stream can be cross-checked against the
//! reference decoder before it is shown to the crate (a forge bug must not look like a crate bug).

use liblzma::stream::{Action, Filters, Status, Stream};

const TOP: u32 = 1 << 24;
const PROB_BITS: u32 = 11;
const PROB_INIT: u16 = 1 << (PROB_BITS - 1);
const MOVE: u32 = 5;

/// Range encoder of the specification (low is 33 bits wide, carry propagated through `cache_size`).
pub struct Rc {
    low: u64,
    range: u32,
    cache: u8,
    cache_size: u64,
    pub out: Vec<u8>,
}

impl Rc {
    pub fn new() -> Self {
        Rc { low: 0, range: 0xFFFF_FFFF, cache: 0, cache_size: 1, out: Vec::new() }
    }
    fn shift_low(&mut self) {
        if self.low < 0xFF00_0000 || self.low >= (1u64 << 32) {
            let carry = (self.low >> 32) as u8;
            let mut b = self.cache;
            loop {
                self.out.push(b.wrapping_add(carry));
                b = 0xFF;
                self.cache_size -= 1;
                if self.cache_size == 0 {
                    break;
                }
            }
            self.cache = ((self.low >> 24) & 0xFF) as u8;
        }
        self.cache_size += 1;
        self.low = (self.low & 0x00FF_FFFF) << 8;
    }
    pub fn bit(&mut self, p: &mut u16, bit: u32) {
        let bound = (self.range >> PROB_BITS) * (*p as u32);
        if bit == 0 {
            self.range = bound;
            *p += (((1u32 << PROB_BITS) - *p as u32) >> MOVE) as u16;
        } else {
            self.low += bound as u64;
            self.range -= bound;
            *p -= *p >> MOVE;
        }
        while self.range < TOP {
            self.range <<= 8;
            self.shift_low();
        }
    }
    pub fn direct(&mut self, value: u32, nbits: u32) {
        for i in (0..nbits).rev() {
            self.range >>= 1;
            if (value >> i) & 1 == 1 {
                self.low += self.range as u64;
            }
            while self.range < TOP {
                self.range <<= 8;
                self.shift_low();
            }
        }
    }
    pub fn tree(&mut self, probs: &mut [u16], nbits: u32, sym: u32) {
        let mut m = 1usize;
        for i in (0..nbits).rev() {
            let b = (sym >> i) & 1;
            self.bit(&mut probs[m], b);
            m = (m << 1) | b as usize;
        }
    }
    pub fn rtree(&mut self, probs: &mut [u16], nbits: u32, sym: u32) {
        let mut m = 1usize;
        for i in 0..nbits {
            let b = (sym >> i) & 1;
            self.bit(&mut probs[m], b);
            m = (m << 1) | b as usize;
        }
    }
    pub fn finish(&mut self) {
        for _ in 0..5 {
            self.shift_low();
        }
    }
}

struct LenCoder {
    choice: u16,
    choice2: u16,
    low: Vec<[u16; 8]>,
    mid: Vec<[u16; 8]>,
    high: [u16; 256],
}

impl LenCoder {
    fn new() -> Self {
        LenCoder { choice: PROB_INIT, choice2: PROB_INIT, low: vec![[PROB_INIT; 8]; 16], mid: vec![[PROB_INIT; 8]; 16], high: [PROB_INIT; 256] }
    }
    fn encode(&mut self, rc: &mut Rc, len: u32, pos_state: usize) {
        let l = len - 2;
        if l < 8 {
            rc.bit(&mut self.choice, 0);
            rc.tree(&mut self.low[pos_state], 3, l);
        } else if l < 16 {
            rc.bit(&mut self.choice, 1);
            rc.bit(&mut self.choice2, 0);
            rc.tree(&mut self.mid[pos_state], 3, l - 8);
        } else {
            rc.bit(&mut self.choice, 1);
            rc.bit(&mut self.choice2, 1);
            rc.tree(&mut self.high, 8, l - 16);
        }
    }
}

/// One LZMA symbol of a script.
#[derive(Clone, Debug, PartialEq)]
pub enum Sym {
    Lit(u8),
    /// normal match, `dist` is the zero-based distance (0 = previous byte)
    Match { dist: u32, len: u32 },
    /// long repeated match with the idx-th most recent distance
    Rep { idx: usize, len: u32 },
    ShortRep,
    /// end marker: match with distance 0xFFFFFFFF, length 2
    Marker,
}

/// Probability model + state of the specification.
pub struct Model {
    lc: u32,
    lp: u32,
    pb: u32,
    state: usize,
    reps: [u32; 4],
    is_match: [[u16; 16]; 12],
    is_rep: [u16; 12],
    is_rep_g0: [u16; 12],
    is_rep_g1: [u16; 12],
    is_rep_g2: [u16; 12],
    is_rep0_long: [[u16; 16]; 12],
    lit: Vec<u16>,
    len: LenCoder,
    rep_len: LenCoder,
    pos_slot: [[u16; 64]; 4],
    pos_special: [u16; 115],
    align: [u16; 16],
}

fn upd_lit(s: usize) -> usize {
    if s < 4 { 0 } else if s < 10 { s - 3 } else { s - 6 }
}

impl Model {
    pub fn new(lc: u32, lp: u32, pb: u32) -> Self {
        Model {
            lc, lp, pb, state: 0, reps: [0; 4],
            is_match: [[PROB_INIT; 16]; 12], is_rep: [PROB_INIT; 12], is_rep_g0: [PROB_INIT; 12],
            is_rep_g1: [PROB_INIT; 12], is_rep_g2: [PROB_INIT; 12], is_rep0_long: [[PROB_INIT; 16]; 12],
            lit: vec![PROB_INIT; 0x300usize << (lc + lp)],
            len: LenCoder::new(), rep_len: LenCoder::new(),
            pos_slot: [[PROB_INIT; 64]; 4], pos_special: [PROB_INIT; 115], align: [PROB_INIT; 16],
        }
    }
    pub fn props_byte(&self) -> u8 {
        ((self.pb * 5 + self.lp) * 9 + self.lc) as u8
    }
    pub fn state(&self) -> usize {
        self.state
    }
    pub fn reps(&self) -> [u32; 4] {
        self.reps
    }

    fn literal(&mut self, rc: &mut Rc, byte: u8, hist: &[u8], pos: usize) {
        let prev = hist.last().copied().unwrap_or(0) as usize;
        let lit_state = ((pos & ((1usize << self.lp) - 1)) << self.lc) + (prev >> (8 - self.lc));
        let probs = &mut self.lit[0x300 * lit_state..0x300 * (lit_state + 1)];
        let mut sym = 1usize;
        if self.state >= 7 {
            // matched literal: the byte at distance rep0 steers the contexts until the first mismatch
            let d = self.reps[0] as usize;
            let mut match_byte = if d < hist.len() { hist[hist.len() - 1 - d] as usize } else { 0 };
            let mut i = 8;
            while i > 0 {
                i -= 1;
                let match_bit = (match_byte >> 7) & 1;
                match_byte <<= 1;
                let bit = ((byte as usize) >> i) & 1;
                rc.bit(&mut probs[((1 + match_bit) << 8) + sym], bit as u32);
                sym = (sym << 1) | bit;
                if match_bit != bit {
                    break;
                }
            }
            while i > 0 {
                i -= 1;
                let bit = ((byte as usize) >> i) & 1;
                rc.bit(&mut probs[sym], bit as u32);
                sym = (sym << 1) | bit;
            }
        } else {
            for i in (0..8).rev() {
                let bit = ((byte as usize) >> i) & 1;
                rc.bit(&mut probs[sym], bit as u32);
                sym = (sym << 1) | bit;
            }
        }
        self.state = upd_lit(self.state);
    }

    fn distance(&mut self, rc: &mut Rc, dist: u32, len: u32) {
        let len_state = (if len - 2 < 4 { len - 2 } else { 3 }) as usize;
        let slot = if dist < 4 {
            dist
        } else {
            let n = 31 - dist.leading_zeros(); // index of the highest set bit
            (n << 1) | ((dist >> (n - 1)) & 1)
        };
        rc.tree(&mut self.pos_slot[len_state], 6, slot);
        if slot >= 4 {
            let nbits = (slot >> 1) - 1;
            let base = (2 | (slot & 1)) << nbits;
            let rest = dist - base;
            if slot < 14 {
                // reverse bit tree over pos_special[base - slot ..]
                let off = (base - slot) as usize;
                let mut m = 1usize;
                for i in 0..nbits {
                    let b = (rest >> i) & 1;
                    rc.bit(&mut self.pos_special[off + m - 1], b);
                    m = (m << 1) | b as usize;
                }
            } else {
                rc.direct(rest >> 4, nbits - 4);
                rc.rtree(&mut self.align, 4, rest & 15);
            }
        }
    }

    /// Encodes one symbol. `hist` = all bytes produced so far, `pos` = position used for pos_state / lp
    /// (bytes since the last dictionary reset). Returns the bytes the symbol produces.
    pub fn encode(&mut self, rc: &mut Rc, s: &Sym, hist: &[u8], pos: usize) -> Vec<u8> {
        let ps = pos & ((1usize << self.pb) - 1);
        let st = self.state;
        let copy = |hist: &[u8], dist: u32, len: u32| -> Vec<u8> {
            let mut v: Vec<u8> = Vec::new();
            for _ in 0..len {
                let n = hist.len() + v.len();
                let d = dist as usize + 1;
                let b = if d <= n {
                    let i = n - d;
                    if i < hist.len() { hist[i] } else { v[i - hist.len()] }
                } else {
                    0
                };
                v.push(b);
            }
            v
        };
        match s {
            Sym::Lit(b) => {
                rc.bit(&mut self.is_match[st][ps], 0);
                self.literal(rc, *b, hist, pos);
                vec![*b]
            }
            Sym::Match { dist, len } => {
                rc.bit(&mut self.is_match[st][ps], 1);
                rc.bit(&mut self.is_rep[st], 0);
                self.reps = [*dist, self.reps[0], self.reps[1], self.reps[2]];
                self.len.encode(rc, *len, ps);
                self.distance(rc, *dist, *len);
                self.state = if st < 7 { 7 } else { 10 };
                copy(hist, *dist, *len)
            }
            Sym::Marker => {
                rc.bit(&mut self.is_match[st][ps], 1);
                rc.bit(&mut self.is_rep[st], 0);
                self.reps = [0xFFFF_FFFF, self.reps[0], self.reps[1], self.reps[2]];
                self.len.encode(rc, 2, ps);
                self.distance(rc, 0xFFFF_FFFF, 2);
                self.state = if st < 7 { 7 } else { 10 };
                vec![]
            }
            Sym::ShortRep => {
                rc.bit(&mut self.is_match[st][ps], 1);
                rc.bit(&mut self.is_rep[st], 1);
                rc.bit(&mut self.is_rep_g0[st], 0);
                rc.bit(&mut self.is_rep0_long[st][ps], 0);
                self.state = if st < 7 { 9 } else { 11 };
                copy(hist, self.reps[0], 1)
            }
            Sym::Rep { idx, len } => {
                rc.bit(&mut self.is_match[st][ps], 1);
                rc.bit(&mut self.is_rep[st], 1);
                if *idx == 0 {
                    rc.bit(&mut self.is_rep_g0[st], 0);
                    rc.bit(&mut self.is_rep0_long[st][ps], 1);
                } else {
                    rc.bit(&mut self.is_rep_g0[st], 1);
                    if *idx == 1 {
                        rc.bit(&mut self.is_rep_g1[st], 0);
                    } else {
                        rc.bit(&mut self.is_rep_g1[st], 1);
                        rc.bit(&mut self.is_rep_g2[st], (*idx - 2) as u32);
                    }
                    // move the selected distance to the front
                    let d = self.reps[*idx];
                    let mut r = vec![d];
                    for (i, x) in self.reps.iter().enumerate() {
                        if i != *idx {
                            r.push(*x);
                        }
                    }
                    self.reps = [r[0], r[1], r[2], r[3]];
                }
                self.rep_len.encode(rc, *len, ps);
                self.state = if st < 7 { 8 } else { 11 };
                copy(hist, self.reps[0], *len)
            }
        }
    }
}

/// A `.lzma` (LZMA_Alone) stream: 13-byte header + one range coder stream.
/// `size`: Some(n) = declared uncompressed size, None = unknown (0xFFFF…); `marker` appends the end marker.
pub fn lzma_alone(syms: &[Sym], lc: u32, lp: u32, pb: u32, dict: u32, size: Option<u64>, marker: bool) -> (Vec<u8>, Vec<u8>) {
    let mut m = Model::new(lc, lp, pb);
    let mut rc = Rc::new();
    let mut hist: Vec<u8> = Vec::new();
    for s in syms {
        let v = m.encode(&mut rc, s, &hist, hist.len());
        hist.extend_from_slice(&v);
    }
    if marker {
        m.encode(&mut rc, &Sym::Marker, &hist, hist.len());
    }
    rc.finish();
    let mut out = vec![m.props_byte()];
    out.extend_from_slice(&dict.to_le_bytes());
    out.extend_from_slice(&size.unwrap_or(u64::MAX).to_le_bytes());
    out.extend_from_slice(&rc.out);
    (out, hist)
}

/// One chunk of a forged LZMA2 stream.
#[derive(Clone, Debug)]
pub enum Chunk {
    /// LZMA chunk; `dict_reset` → control 0xE0, else `new_props` → 0xC0, else `state_reset` → 0xA0, else 0x80
    Lzma { syms: Vec<Sym>, dict_reset: bool, new_props: bool, state_reset: bool },
    /// uncompressed chunk (control 0x01 with dictionary reset, else 0x02)
    Raw { data: Vec<u8>, dict_reset: bool },
}

/// Raw LZMA2 stream (chunks + end byte 0x00 if `terminate`). Returns (stream, expected output, chunk table)
/// where the chunk table lists (offset of the control byte, compressed payload length) per chunk.
pub fn lzma2(chunks: &[Chunk], lc: u32, lp: u32, pb: u32, terminate: bool) -> (Vec<u8>, Vec<u8>, Vec<(usize, usize)>) {
    let mut m = Model::new(lc, lp, pb);
    let mut hist: Vec<u8> = Vec::new();
    let mut base = 0usize; // hist index of the last dictionary reset
    let mut out: Vec<u8> = Vec::new();
    let mut table = Vec::new();
    for c in chunks {
        match c {
            Chunk::Raw { data, dict_reset } => {
                table.push((out.len(), data.len()));
                out.push(if *dict_reset { 1 } else { 2 });
                out.extend_from_slice(&((data.len() - 1) as u16).to_be_bytes());
                out.extend_from_slice(data);
                if *dict_reset {
                    base = hist.len();
                }
                hist.extend_from_slice(data);
            }
            Chunk::Lzma { syms, dict_reset, new_props, state_reset } => {
                if *dict_reset {
                    base = hist.len();
                }
                if *dict_reset || *new_props || *state_reset {
                    m = Model::new(lc, lp, pb);
                }
                let mut rc = Rc::new();
                let start = hist.len();
                for s in syms {
                    let pos = hist.len() - base;
                    let v = m.encode(&mut rc, s, &hist[base..], pos);
                    hist.extend_from_slice(&v);
                }
                rc.finish();
                let u = hist.len() - start;
                let level = if *dict_reset { 3 } else if *new_props { 2 } else if *state_reset { 1 } else { 0 };
                table.push((out.len(), rc.out.len()));
                out.push(0x80 | (level << 5) | (((u - 1) >> 16) as u8 & 0x1F));
                out.extend_from_slice(&(((u - 1) & 0xFFFF) as u16).to_be_bytes());
                out.extend_from_slice(&((rc.out.len() - 1) as u16).to_be_bytes());
                if level >= 2 {
                    out.push(m.props_byte());
                }
                out.extend_from_slice(&rc.out);
            }
        }
    }
    if terminate {
        out.push(0);
    }
    (out, hist, table)
}

fn run_ref(mut s: Stream, input: &[u8]) -> Result<(Vec<u8>, bool), String> {
    let mut out: Vec<u8> = Vec::with_capacity(1 << 16);
    let mut stalls = 0;
    loop {
        let pos = s.total_in() as usize;
        if out.capacity() - out.len() < 1 << 15 {
            out.reserve(1 << 16);
        }
        let before = (s.total_in(), s.total_out());
        match s.process_vec(&input[pos.min(input.len())..], &mut out, Action::Run) {
            Ok(Status::StreamEnd) => return Ok((out, true)),
            Ok(_) => {}
            Err(e) => return Err(format!("{e:?}")),
        }
        if (s.total_in(), s.total_out()) == before {
            stalls += 1;
            if stalls > 3 {
                return Ok((out, false));
            }
        } else {
            stalls = 0;
        }
    }
}

/// liblzma's LZMA_Alone decoder: (bytes, stream end seen).
pub fn ref_decode_lzma(b: &[u8]) -> Result<(Vec<u8>, bool), String> {
    run_ref(Stream::new_lzma_decoder(u64::MAX).map_err(|e| format!("{e:?}"))?, b)
}

/// liblzma's raw LZMA2 decoder with a 4 KiB dictionary (the smallest it offers).
pub fn ref_decode_lzma2(b: &[u8]) -> Result<(Vec<u8>, bool), String> {
    let mut f = Filters::new();
    f.lzma2_properties(&[0]).map_err(|e| format!("{e:?}"))?;
    run_ref(Stream::new_raw_decoder(&f).map_err(|e| format!("{e:?}"))?, b)
}
