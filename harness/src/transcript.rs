//! C14 transcripts, std side (group C2): the protocol itself is `transcript_core.rs`, shared textually with
//! the no_std harness crate /verif/harness_nostd.
pub mod shim {
    pub use std::io::{Read, Write};
    pub type Err = std::io::Error;
    pub type Res<T> = std::io::Result<T>;
    pub fn kind_name(e: &Err) -> String {
        format!("{:?}", e.kind())
    }
}
use crate::gen;
use shim::*;
include!("transcript_core.rs");
