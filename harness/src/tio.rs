//! Traced I/O endpoints (group D): a source that hands out its bytes in caller-chosen chunk sizes and a sink
//! that accepts at most a chosen number of bytes per call. Both append `(kind, requested, returned)` records to
//! a shared event log so that the API-level trace of a filter / codec object (call, size, returned size, bytes
//! forwarded) can be validated by TLC against FilterStream / CallPartition.
use std::io::{Read, Result, Seek, SeekFrom, Write};
use std::sync::{Arc, Mutex};

use serde_json::{json, Value};

#[derive(Clone, Default)]
pub struct Log(pub Arc<Mutex<Vec<Value>>>);

impl Log {
    pub fn new() -> Self {
        Log(Arc::new(Mutex::new(Vec::new())))
    }
    pub fn push(&self, v: Value) {
        let mut g = self.0.lock().unwrap_or_else(|e| e.into_inner());
        if g.len() < 200_000 {
            g.push(v);
        }
    }
    pub fn take(&self) -> Vec<Value> {
        std::mem::take(&mut *self.0.lock().unwrap_or_else(|e| e.into_inner()))
    }
    pub fn len(&self) -> usize {
        self.0.lock().unwrap_or_else(|e| e.into_inner()).len()
    }
}

/// Source: returns at most `chunks[k % len]` bytes on the k-th call (0 = as much as requested).
pub struct Src {
    pub data: Arc<Vec<u8>>,
    pub pos: usize,
    pub chunks: Vec<usize>,
    pub k: usize,
    pub log: Option<Log>,
    pub tag: &'static str,
    pub calls: usize,
    /// every n-th non-empty call fails with ErrorKind::Interrupted without consuming anything (0 = never)
    pub interrupt_every: usize,
}

impl Src {
    pub fn new(data: Vec<u8>, chunks: &[usize], log: Option<Log>) -> Self {
        Src { data: Arc::new(data), pos: 0, chunks: chunks.to_vec(), k: 0, log, tag: "Src", calls: 0, interrupt_every: 0 }
    }
    pub fn shared(data: Arc<Vec<u8>>, chunks: &[usize], log: Option<Log>) -> Self {
        Src { data, pos: 0, chunks: chunks.to_vec(), k: 0, log, tag: "Src", calls: 0, interrupt_every: 0 }
    }
}

impl Read for Src {
    fn read(&mut self, buf: &mut [u8]) -> Result<usize> {
        self.calls += 1;
        if self.interrupt_every > 0 && !buf.is_empty() && self.calls % self.interrupt_every == 0 {
            if let Some(l) = &self.log {
                l.push(json!({"op": "SrcInterrupted", "n": buf.len(), "ret": -1}));
            }
            return Err(std::io::Error::new(std::io::ErrorKind::Interrupted, "interrupted (injected)"));
        }
        let mut cap = usize::MAX;
        if !self.chunks.is_empty() && !buf.is_empty() {
            let c = self.chunks[self.k % self.chunks.len()];
            self.k += 1;
            if c != 0 {
                cap = c;
            }
        }
        let n = buf.len().min(self.data.len() - self.pos).min(cap);
        buf[..n].copy_from_slice(&self.data[self.pos..self.pos + n]);
        self.pos += n;
        if let Some(l) = &self.log {
            l.push(json!({"op": self.tag, "n": buf.len(), "ret": n}));
        }
        Ok(n)
    }
}

impl Seek for Src {
    fn seek(&mut self, p: SeekFrom) -> Result<u64> {
        let np: i64 = match p {
            SeekFrom::Start(x) => x as i64,
            SeekFrom::End(x) => self.data.len() as i64 + x,
            SeekFrom::Current(x) => self.pos as i64 + x,
        };
        if np < 0 {
            return Err(std::io::Error::new(std::io::ErrorKind::InvalidInput, "seek before start"));
        }
        self.pos = (np as usize).min(self.data.len());
        Ok(self.pos as u64)
    }
}

#[derive(Default)]
pub struct SinkInner {
    pub out: Vec<u8>,
    pub caps: Vec<usize>,
    pub k: usize,
    pub flushes: usize,
    pub writes: usize,
}

/// Sink: accepts at most `caps[k % len]` bytes on the k-th non-empty call (0 = everything).
#[derive(Clone)]
pub struct Sink {
    pub inner: Arc<Mutex<SinkInner>>,
    pub log: Option<Log>,
}

impl Sink {
    pub fn new(caps: &[usize], log: Option<Log>) -> Self {
        Sink { inner: Arc::new(Mutex::new(SinkInner { caps: caps.to_vec(), ..Default::default() })), log }
    }
    pub fn bytes(&self) -> Vec<u8> {
        self.inner.lock().unwrap_or_else(|e| e.into_inner()).out.clone()
    }
    pub fn len(&self) -> usize {
        self.inner.lock().unwrap_or_else(|e| e.into_inner()).out.len()
    }
}

impl Write for Sink {
    fn write(&mut self, buf: &[u8]) -> Result<usize> {
        let mut g = self.inner.lock().unwrap_or_else(|e| e.into_inner());
        g.writes += 1;
        let mut cap = usize::MAX;
        if !g.caps.is_empty() && !buf.is_empty() {
            let c = g.caps[g.k % g.caps.len()];
            g.k += 1;
            if c != 0 {
                cap = c;
            }
        }
        let n = buf.len().min(cap);
        g.out.extend_from_slice(&buf[..n]);
        drop(g);
        if let Some(l) = &self.log {
            l.push(json!({"op": "Sink", "n": buf.len(), "ret": n}));
        }
        Ok(n)
    }
    fn flush(&mut self) -> Result<()> {
        self.inner.lock().unwrap_or_else(|e| e.into_inner()).flushes += 1;
        if let Some(l) = &self.log {
            l.push(json!({"op": "SinkFlush", "n": 0, "ret": 0}));
        }
        Ok(())
    }
}

/// Runs `f` with panics contained; returns Err(message) on panic.
pub fn contain<T>(f: impl FnOnce() -> T) -> std::result::Result<T, String> {
    match std::panic::catch_unwind(std::panic::AssertUnwindSafe(f)) {
        Ok(v) => Ok(v),
        Err(e) => {
            let msg = if let Some(s) = e.downcast_ref::<&str>() {
                s.to_string()
            } else if let Some(s) = e.downcast_ref::<String>() {
                s.clone()
            } else {
                "panic".to_string()
            };
            Err(msg)
        }
    }
}

thread_local! {
    pub static LAST_PANIC_LOC: std::cell::RefCell<String> = const { std::cell::RefCell::new(String::new()) };
}

/// Installs a silent panic hook that remembers the location of the last panic (file:line) per thread.
pub fn install_panic_hook() {
    std::panic::set_hook(Box::new(|info| {
        let loc = info.location().map(|l| format!("{}:{}", l.file(), l.line())).unwrap_or_default();
        LAST_PANIC_LOC.with(|c| *c.borrow_mut() = loc);
    }));
}

pub fn last_panic_loc() -> String {
    LAST_PANIC_LOC.with(|c| c.borrow().clone())
}

/// read loop with a cyclic size pattern; the last pattern entry that is non-zero keeps the loop finite.
/// Returns (bytes, error?, zero_reads_ok, calls). Zero-length reads must return Ok(0).
pub struct ReadOutcome {
    pub bytes: Vec<u8>,
    pub err: Option<String>,
    pub zero_ok: bool,
    pub calls: usize,
    pub after_eof_ok: bool,
    /// MT readers: number of work units / members the reader handed out (vacuity guard of C07)
    pub units: Option<u64>,
}

pub fn read_pattern<R: Read>(r: &mut R, sizes: &[usize], log: Option<&Log>, max_calls: usize) -> ReadOutcome {
    let mut out = Vec::new();
    let mut zero_ok = true;
    let mut calls = 0usize;
    let mut k = 0usize;
    let maxn = sizes.iter().copied().max().unwrap_or(1).max(1);
    let mut buf = vec![0u8; maxn];
    let mut err = None;
    let mut after_eof_ok = true;
    let mut interrupts = 0usize;
    loop {
        if calls >= max_calls {
            err = Some("call limit".to_string());
            break;
        }
        let n = if sizes.is_empty() { maxn } else { sizes[k % sizes.len()] };
        k += 1;
        calls += 1;
        if let Some(l) = log {
            l.push(json!({"op": "ReadCall", "n": n, "ret": 0}));
        }
        let res = r.read(&mut buf[..n]);
        if let Some(l) = log {
            match &res {
                Ok(m) => l.push(json!({"op": "Read", "n": n, "ret": *m})),
                Err(_) => l.push(json!({"op": "Read", "n": n, "ret": -1})),
            }
        }
        match res {
            Ok(m) => {
                if n == 0 {
                    if m != 0 {
                        zero_ok = false;
                    }
                    // all-zero pattern would never terminate
                    if sizes.iter().all(|s| *s == 0) {
                        break;
                    }
                    continue;
                }
                if m == 0 {
                    // end of stream: must be sticky, and a zero-length read after it is still Ok(0)
                    for probe in [n, 0, 1] {
                        match r.read(&mut buf[..probe.min(maxn)]) {
                            Ok(0) => {}
                            _ => after_eof_ok = false,
                        }
                    }
                    break;
                }
                if m > n {
                    err = Some(format!("read returned {m} > {n}"));
                    break;
                }
                out.extend_from_slice(&buf[..m]);
            }
            Err(e) if e.kind() == std::io::ErrorKind::Interrupted && interrupts < 1_000_000 => {
                interrupts += 1;
                k -= 1; // same size again
            }
            Err(e) => {
                err = Some(format!("{:?}: {}", e.kind(), e));
                break;
            }
        }
    }
    ReadOutcome { bytes: out, err, zero_ok, calls, after_eof_ok, units: None }
}

/// Line server used by the group D binaries: one JSON request per stdin line, one JSON result per stdout line.
pub fn serve(mut f: impl FnMut(&str) -> Value) {
    use std::io::BufRead;
    install_panic_hook();
    let stdin = std::io::stdin();
    let out = std::io::stdout();
    let mut out = std::io::BufWriter::new(out.lock());
    for line in stdin.lock().lines() {
        let line = line.unwrap();
        if line.trim().is_empty() {
            continue;
        }
        let v = f(&line);
        writeln!(out, "{}", v).unwrap();
        out.flush().unwrap();
    }
}
