//! Memory conformance (group D; C17): a counting global allocator (installed only in the vh_mem binary) around
//! the real construction and use of writers and readers, next to the values the crate's estimators return.
//!   * `peak` = highest number of live heap bytes above the level at the start of the measurement,
//!   * `allocs` = sizes of the allocations >= 512 bytes made while constructing the object (the allocation
//!     inventory MemModel.tla predicts item by item),
//!   * `estimate_kib` = what the public estimator returns for the same parameters (or its error / panic).
//! Input, produced streams and read buffers are allocated before the measurement starts; the encoder's sink
//! discards its input, so only the object under test allocates inside the window.
use std::alloc::{GlobalAlloc, Layout, System};
use std::io::{Read, Write};
use std::num::NonZeroU64;
use std::sync::atomic::{AtomicBool, AtomicUsize, Ordering::SeqCst};
use std::sync::Mutex;

use lzma_rust2::*;
use serde::Deserialize;
use serde_json::{json, Value};
use std::result::Result;

use crate::gen;
use crate::partition::{lzma_options, Opts};
use crate::tio::{self, contain};

pub struct Counting;
static CUR: AtomicUsize = AtomicUsize::new(0);
static PEAK: AtomicUsize = AtomicUsize::new(0);
static LOGGING: AtomicBool = AtomicBool::new(false);
static NLOG: AtomicUsize = AtomicUsize::new(0);
const MAXLOG: usize = 96;
static LOGBUF: [AtomicUsize; MAXLOG] = [const { AtomicUsize::new(0) }; MAXLOG];
static GUARD: Mutex<()> = Mutex::new(());

#[inline]
fn note_alloc(n: usize) {
    let c = CUR.fetch_add(n, SeqCst) + n;
    PEAK.fetch_max(c, SeqCst);
    if n >= 512 && LOGGING.load(SeqCst) {
        let i = NLOG.fetch_add(1, SeqCst);
        if i < MAXLOG {
            LOGBUF[i].store(n, SeqCst);
        }
    }
}

unsafe impl GlobalAlloc for Counting {
    unsafe fn alloc(&self, l: Layout) -> *mut u8 {
        let p = System.alloc(l);
        if !p.is_null() {
            note_alloc(l.size());
        }
        p
    }
    unsafe fn alloc_zeroed(&self, l: Layout) -> *mut u8 {
        let p = System.alloc_zeroed(l);
        if !p.is_null() {
            note_alloc(l.size());
        }
        p
    }
    unsafe fn dealloc(&self, p: *mut u8, l: Layout) {
        System.dealloc(p, l);
        CUR.fetch_sub(l.size(), SeqCst);
    }
    unsafe fn realloc(&self, p: *mut u8, l: Layout, new: usize) -> *mut u8 {
        let q = System.realloc(p, l, new);
        if !q.is_null() {
            CUR.fetch_sub(l.size(), SeqCst);
            note_alloc(new);
        }
        q
    }
}

/// Measurement window: live bytes at start are the baseline.
pub struct Window {
    base: usize,
}
impl Window {
    pub fn start(log_allocs: bool) -> Self {
        let base = CUR.load(SeqCst);
        PEAK.store(base, SeqCst);
        NLOG.store(0, SeqCst);
        LOGGING.store(log_allocs, SeqCst);
        Window { base }
    }
    pub fn stop_logging(&self) {
        LOGGING.store(false, SeqCst);
    }
    pub fn peak(&self) -> usize {
        PEAK.load(SeqCst).saturating_sub(self.base)
    }
    pub fn allocs(&self) -> Vec<usize> {
        let n = NLOG.load(SeqCst).min(MAXLOG);
        (0..n).map(|i| LOGBUF[i].load(SeqCst)).collect()
    }
    pub fn overflowed(&self) -> bool {
        NLOG.load(SeqCst) > MAXLOG
    }
}

struct NullSink(u64);
impl Write for NullSink {
    fn write(&mut self, b: &[u8]) -> std::io::Result<usize> {
        self.0 += b.len() as u64;
        Ok(b.len())
    }
    fn flush(&mut self) -> std::io::Result<()> {
        Ok(())
    }
}

#[derive(Deserialize, Clone, Debug)]
pub struct Case {
    pub id: String,
    /// est | enc_lzma2 | enc_lzma | dec_lzma | dec_lzma2 | limit
    pub kind: String,
    #[serde(default)]
    pub opts: Opts,
    #[serde(default)]
    pub input_len: usize,
    #[serde(default)]
    pub data: Option<String>,
    /// limit: memory limit in KiB given to LZMAReader::new_mem_limit; header fields are taken from opts
    #[serde(default)]
    pub limit_kib: Option<u32>,
    /// limit: raw props byte to put into the .lzma header (overrides lc/lp/pb)
    #[serde(default)]
    pub props: Option<u8>,
    /// limit: uncompressed-size field of the .lzma header (default u64::MAX = unknown)
    #[serde(default)]
    pub uncomp: Option<u64>,
    /// dec_*: length of the caller's buffer handed to every read() call (default 64 KiB)
    #[serde(default)]
    pub read_len: Option<usize>,
}

/// Number of (LZMA, uncompressed) chunks of an LZMA2 stream.
fn lzma2_chunk_kinds(b: &[u8]) -> (usize, usize) {
    let (mut lz, mut unc, mut i) = (0usize, 0usize, 0usize);
    while i < b.len() && b[i] != 0 {
        let c = b[i];
        if c >= 0x80 {
            if i + 5 > b.len() {
                break;
            }
            let cs = ((b[i + 3] as usize) << 8) + b[i + 4] as usize + 1;
            i += (if c >= 0xC0 { 6 } else { 5 }) + cs;
            lz += 1;
        } else {
            if i + 3 > b.len() {
                break;
            }
            i += 3 + ((b[i + 1] as usize) << 8) + b[i + 2] as usize + 1;
            unc += 1;
        }
    }
    (lz, unc)
}

fn est_value(r: Result<Result<u32, String>, String>) -> Value {
    match r {
        Ok(Ok(v)) => json!(v),
        Ok(Err(e)) => json!(format!("err: {e}")),
        Err(p) => json!(format!("panic: {p} @ {}", tio::last_panic_loc())),
    }
}

pub fn run_case(c: &Case) -> Value {
    let _g = GUARD.lock().unwrap_or_else(|e| e.into_inner());
    let mut res = json!({"id": c.id, "kind": c.kind});
    let l = lzma_options(&c.opts);
    // "a+b": alternating stretches of the classes a and b, each long enough to fill whole LZMA2 chunks of its own kind
    let class = c.data.as_deref().unwrap_or("text");
    let data = if class.contains('+') {
        let parts: Vec<&str> = class.split('+').collect();
        let seg = (c.input_len / 4).max(70_000);
        let mut v = Vec::with_capacity(c.input_len);
        let mut k = 0usize;
        while v.len() < c.input_len {
            let n = seg.min(c.input_len - v.len());
            v.extend_from_slice(&gen::data(parts[k % parts.len()], n, 5 + k as u64));
            k += 1;
        }
        v
    } else {
        gen::data(class, c.input_len, 5)
    };
    match c.kind.as_str() {
        "est" => {
            // all four public estimators on the same parameters; pure arithmetic, nothing is allocated
            res["enc_kib"] = est_value(contain(|| Ok::<u32, String>(l.get_memory_usage())));
            res["dec_lzma_kib"] = est_value(contain(|| lzma_get_memory_usage(l.dict_size, l.lc, l.lp).map_err(|e| e.to_string())));
            res["dec_lzma_props_kib"] = est_value(contain(|| {
                lzma_get_memory_usage_by_props(l.dict_size, c.props.unwrap_or(l.get_props())).map_err(|e| e.to_string())
            }));
            res["dec_lzma2_kib"] = est_value(contain(|| Ok::<u32, String>(lzma2_get_memory_usage(l.dict_size))));
        }
        "enc_lzma2" | "enc_lzma" => {
            res["estimate_kib"] = est_value(contain(|| Ok::<u32, String>(l.get_memory_usage())));
            let lzma2 = c.kind == "enc_lzma2";
            // built before the measurement window: the harness's own copy of a preset dictionary is not the writer's
            let mut o2 = Some(LZMA2Options { lzma_options: l.clone(), chunk_size: None::<NonZeroU64> });
            let r = contain(|| {
                let w = Window::start(true);
                let out: Result<(usize, usize), String> = (|| {
                    if lzma2 {
                        let mut wr = LZMA2Writer::new(NullSink(0), o2.take().unwrap());
                        w.stop_logging();
                        let pc = w.peak();
                        wr.write_all(&data).map_err(|e| e.to_string())?;
                        wr.finish().map_err(|e| e.to_string())?;
                        Ok((pc, w.peak()))
                    } else {
                        let mut wr = LZMAWriter::new_no_header(NullSink(0), &l, true).map_err(|e| e.to_string())?;
                        w.stop_logging();
                        let pc = w.peak();
                        wr.write_all(&data).map_err(|e| e.to_string())?;
                        wr.finish().map_err(|e| e.to_string())?;
                        Ok((pc, w.peak()))
                    }
                })();
                w.stop_logging();
                (out, w.allocs(), w.overflowed())
            });
            match r {
                Ok((Ok((pc, p)), allocs, ovf)) => {
                    res["construct_peak"] = json!(pc);
                    res["peak"] = json!(p);
                    res["allocs"] = json!(allocs);
                    res["allocs_truncated"] = json!(ovf);
                }
                Ok((Err(e), _, _)) => res["error"] = json!(e),
                Err(p) => res["panic"] = json!(format!("{p} @ {}", tio::last_panic_loc())),
            }
        }
        "dec_lzma" | "dec_lzma2" => {
            let lzma2 = c.kind == "dec_lzma2";
            // the stream, outside the measurement window
            let mut stream = Vec::new();
            let enc = contain(|| -> Result<(), String> {
                if lzma2 {
                    let mut wr = LZMA2Writer::new(&mut stream, LZMA2Options { lzma_options: l.clone(), chunk_size: None });
                    wr.write_all(&data).map_err(|e| e.to_string())?;
                    wr.finish().map_err(|e| e.to_string())?;
                } else {
                    // unknown size (end marker): with a known size smaller than the dictionary LZMAReader
                    // legitimately shrinks its window to the content, which (dict_size, props) cannot tell
                    let mut wr = LZMAWriter::new_use_header(&mut stream, &l, None).map_err(|e| e.to_string())?;
                    wr.write_all(&data).map_err(|e| e.to_string())?;
                    wr.finish().map_err(|e| e.to_string())?;
                }
                Ok(())
            });
            if !matches!(enc, Ok(Ok(()))) {
                res["tool_error"] = json!(format!("could not build the stream: {enc:?}"));
                return res;
            }
            res["estimate_kib"] = if lzma2 {
                est_value(contain(|| Ok::<u32, String>(lzma2_get_memory_usage(l.dict_size))))
            } else {
                est_value(contain(|| lzma_get_memory_usage_by_props(l.dict_size, l.get_props()).map_err(|e| e.to_string())))
            };
            if lzma2 {
                let (lz, unc) = lzma2_chunk_kinds(&stream);
                res["chunks_lzma"] = json!(lz);
                res["chunks_unc"] = json!(unc);
            }
            // the caller's buffer is the caller's memory: allocated outside the measurement window
            let mut buf = vec![0u8; c.read_len.unwrap_or(1 << 16).max(1)];
            let mut total = 0usize;
            let r = contain(|| {
                let w = Window::start(true);
                let out: Result<(usize, usize), String> = (|| {
                    if lzma2 {
                        let mut rd = LZMA2Reader::new(&stream[..], l.dict_size, None);
                        w.stop_logging();
                        let pc = w.peak();
                        loop {
                            let n = rd.read(&mut buf).map_err(|e| e.to_string())?;
                            if n == 0 {
                                break;
                            }
                            total += n;
                        }
                        Ok((pc, w.peak()))
                    } else {
                        let mut rd = LZMAReader::new_mem_limit(&stream[..], u32::MAX, None).map_err(|e| e.to_string())?;
                        w.stop_logging();
                        let pc = w.peak();
                        loop {
                            let n = rd.read(&mut buf).map_err(|e| e.to_string())?;
                            if n == 0 {
                                break;
                            }
                            total += n;
                        }
                        Ok((pc, w.peak()))
                    }
                })();
                w.stop_logging();
                (out, w.allocs())
            });
            match r {
                Ok((Ok((pc, p)), allocs)) => {
                    res["construct_peak"] = json!(pc);
                    res["peak"] = json!(p);
                    res["allocs"] = json!(allocs);
                    res["decoded"] = json!(total);
                }
                Ok((Err(e), _)) => res["error"] = json!(e),
                Err(p) => res["panic"] = json!(format!("{p} @ {}", tio::last_panic_loc())),
            }
        }
        "limit" => {
            // a forged .lzma header (props, dict size, unknown size) followed by a few payload bytes
            let mut hdr = vec![c.props.unwrap_or(l.get_props())];
            hdr.extend_from_slice(&l.dict_size.to_le_bytes());
            hdr.extend_from_slice(&c.uncomp.unwrap_or(u64::MAX).to_le_bytes());
            hdr.extend_from_slice(&[0, 0, 0, 0, 0, 0, 0, 0]);
            let limit = c.limit_kib.unwrap_or(u32::MAX);
            res["need_kib"] = est_value(contain(|| lzma_get_memory_usage_by_props(l.dict_size, hdr[0]).map_err(|e| e.to_string())));
            let r = contain(|| {
                let w = Window::start(false);
                let out = LZMAReader::new_mem_limit(&hdr[..], limit, None);
                let p = w.peak();
                let o = match &out {
                    Ok(_) => "ok".to_string(),
                    Err(e) => format!("err:{:?}", e.kind()),
                };
                drop(out);
                (o, p)
            });
            match r {
                Ok((o, p)) => {
                    res["outcome"] = json!(o);
                    res["peak"] = json!(p);
                }
                Err(p) => res["panic"] = json!(format!("{p} @ {}", tio::last_panic_loc())),
            }
        }
        k => res["tool_error"] = json!(format!("unknown kind {k}")),
    }
    res
}
