//! vh_filter: filter cases (BCJ x 8, Delta, BCJ2) — see vh::filters. JSON lines in, JSON lines out.
fn main() {
    vh::tio::serve(|line| match serde_json::from_str::<vh::filters::Case>(line) {
        Ok(c) => vh::filters::run_case(&c),
        Err(e) => {
            eprintln!("bad case: {e}: {line}");
            std::process::exit(2);
        }
    });
}
