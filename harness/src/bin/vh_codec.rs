//! vh_codec: reads codec jobs (one JSON object per line) on stdin, runs each against the real LZMA / LZMA2
//! writers and readers, prints one JSON result per line (group C1: C01 C13 C15).
use std::io::{BufRead, Write};

fn main() {
    vh::codec::install_panic_hook();
    let stdin = std::io::stdin();
    let out = std::io::stdout();
    let mut out = std::io::BufWriter::new(out.lock());
    for line in stdin.lock().lines() {
        let line = line.unwrap();
        if line.trim().is_empty() {
            continue;
        }
        let j: vh::codec::Job = match serde_json::from_str(&line) {
            Ok(s) => s,
            Err(e) => {
                eprintln!("bad job: {e}: {line}");
                std::process::exit(2);
            }
        };
        let r = vh::codec::run_job(&j);
        writeln!(out, "{}", r).unwrap();
        out.flush().unwrap();
    }
}
