fn main(){}
