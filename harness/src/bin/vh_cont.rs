//! vh_cont: reads container scenarios (one JSON object per line) on stdin, runs each against the real
//! code, prints one JSON result per line (group A: C02 C03 C12 C16 C18).
use std::io::{BufRead, Write};

fn main() {
    std::panic::set_hook(Box::new(|_| {}));
    let stdin = std::io::stdin();
    let out = std::io::stdout();
    let mut out = std::io::BufWriter::new(out.lock());
    for line in stdin.lock().lines() {
        let line = line.unwrap();
        if line.trim().is_empty() {
            continue;
        }
        let s: vh::cont::Scn = match serde_json::from_str(&line) {
            Ok(s) => s,
            Err(e) => {
                eprintln!("bad scenario: {e}: {line}");
                std::process::exit(2);
            }
        };
        let r = vh::cont::run_scenario(&s);
        writeln!(out, "{}", r).unwrap();
    }
}
