//! vh_opt: option-grid points on the real writers - see vh::options. JSON lines in / out.
fn main() {
    vh::tio::serve(|line| match serde_json::from_str::<vh::options::Case>(line) {
        Ok(c) => vh::options::run_case(&c),
        Err(e) => {
            eprintln!("bad case: {e}: {line}");
            std::process::exit(2);
        }
    });
}
