//! vh_hostile: group B case runner (C04 / C05 / C06). Reads JSON jobs on stdin ("def" lines define shared base
//! inputs), prints one JSON result per line. Exit code 3 = a case did not return (its result line says
//! "timeout", or "panic" with hung=true) and the remaining jobs were not run; a missing result line after a
//! crash of this process (abort, stack overflow) identifies the job that killed it.
#[global_allocator]
static A: vh::hostile::alloc::CountingAlloc = vh::hostile::alloc::CountingAlloc;

fn main() {
    vh::hostile::main_loop();
}
