//! vh_transcript: C14 transcript protocol on the std API (built once per std feature configuration).
fn main() {
    vh::transcript::main_loop();
}
