//! vh_part: call-partition cases on every codec writer / reader — see vh::partition. JSON lines in / out.
fn main() {
    vh::tio::serve(|line| match serde_json::from_str::<vh::partition::Case>(line) {
        Ok(c) => vh::partition::run_case(&c),
        Err(e) => {
            eprintln!("bad case: {e}: {line}");
            std::process::exit(2);
        }
    });
}
