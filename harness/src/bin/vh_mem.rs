//! vh_mem: memory measurements with a counting global allocator - see vh::mem. JSON lines in / out.
#[global_allocator]
static ALLOC: vh::mem::Counting = vh::mem::Counting;

fn main() {
    vh::tio::serve(|line| match serde_json::from_str::<vh::mem::Case>(line) {
        Ok(c) => vh::mem::run_case(&c),
        Err(e) => {
            eprintln!("bad case: {e}: {line}");
            std::process::exit(2);
        }
    });
}
