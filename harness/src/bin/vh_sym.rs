//! vh_sym: symbol-level jobs (round trips with per-symbol events, strict replay of forged TLC scripts,
//! H4 differential). One JSON job per line on stdin, one JSON result per line on stdout.
use std::io::{BufRead, Write};

fn main() {
    std::panic::set_hook(Box::new(|_| {}));
    let stdin = std::io::stdin();
    let out = std::io::stdout();
    let mut out = std::io::BufWriter::new(out.lock());
    for line in stdin.lock().lines() {
        let line = line.unwrap();
        if line.trim().is_empty() {
            continue;
        }
        let j: serde_json::Value = match serde_json::from_str(&line) {
            Ok(s) => s,
            Err(e) => {
                eprintln!("bad job: {e}: {line}");
                std::process::exit(2);
            }
        };
        let r = vh::sym::run_job(&j);
        writeln!(out, "{}", r).unwrap();
    }
}
