//! vh_bcj2: exact-script runs of the real BCJ2Reader for the Bcj2Decoder model - see vh::bcj2m. JSON lines in / out.
fn main() {
    vh::tio::serve(|line| match serde_json::from_str::<vh::bcj2m::Case>(line) {
        Ok(c) => vh::bcj2m::run_case(&c),
        Err(e) => {
            eprintln!("bad case: {e}: {line}");
            std::process::exit(2);
        }
    });
}
