//! Symbol-level conformance jobs (group C2): per-symbol events of real encodes / decodes (hook H3),
//! strict replay of TLC symbol scripts + read-size sequences through forged streams, and the H4
//! function-level differential. One JSON job per line on stdin of `vh_sym`, one JSON result per line.

use crate::gen;
use crate::symforge::{self, Chunk, Sym};
use lzma_rust2::{verif_api, verif_trace, EncodeMode, LZMA2Options, LZMA2Reader, LZMA2Writer, LZMAOptions, LZMAReader, LZMAWriter, MFType};
use serde_json::{json, Value};
use std::io::{Read, Write};
use std::num::NonZeroU64;
use std::panic::{catch_unwind, AssertUnwindSafe};

fn u(v: &Value, k: &str, d: u64) -> u64 {
    v.get(k).and_then(|x| x.as_u64()).unwrap_or(d)
}

fn b(v: &Value, k: &str, d: bool) -> bool {
    v.get(k).and_then(|x| x.as_bool()).unwrap_or(d)
}

pub fn options(o: &Value) -> LZMAOptions {
    let mut opt = LZMAOptions::with_preset(u(o, "preset", 6) as u32);
    if let Some(x) = o.get("dict").and_then(|x| x.as_u64()) {
        opt.dict_size = x as u32;
    }
    if let Some(x) = o.get("lc").and_then(|x| x.as_u64()) {
        opt.lc = x as u32;
    }
    if let Some(x) = o.get("lp").and_then(|x| x.as_u64()) {
        opt.lp = x as u32;
    }
    if let Some(x) = o.get("pb").and_then(|x| x.as_u64()) {
        opt.pb = x as u32;
    }
    if let Some(x) = o.get("nice").and_then(|x| x.as_u64()) {
        opt.nice_len = x as u32;
    }
    if let Some(x) = o.get("depth").and_then(|x| x.as_i64()) {
        opt.depth_limit = x as i32;
    }
    if let Some(x) = o.get("mode").and_then(|x| x.as_str()) {
        opt.mode = if x == "fast" { EncodeMode::Fast } else { EncodeMode::Normal };
    }
    if let Some(x) = o.get("mf").and_then(|x| x.as_str()) {
        opt.mf = if x == "hc4" { MFType::HC4 } else { MFType::BT4 };
    }
    opt
}

pub fn input(j: &Value) -> Vec<u8> {
    if let Some(h) = j.get("hex").and_then(|x| x.as_str()) {
        return gen::unhex(h);
    }
    let d = &j["data"];
    gen::data(d["class"].as_str().unwrap_or("text"), u(d, "len", 1000) as usize, u(d, "seed", 1))
}

/// Raw events → JSON. Tags: 1 encoder symbol, 2 decoder symbol, 3 flush, 4 set_limit, 5 reset, 6 copy_uncompressed.
pub fn events_json(ev: &[(u8, [i64; 8])]) -> Vec<Value> {
    ev.iter()
        .map(|(t, f)| match t {
            1 | 2 => json!({"side": if *t == 1 {"E"} else {"D"}, "kind": f[0], "len": f[1], "idx": f[2], "st": f[3], "r": [f[4], f[5], f[6], f[7]]}),
            3 => json!({"side": "L", "op": "flush", "B": f[0], "start": f[1], "pos": f[2], "full": f[3], "limit": f[4], "plen": f[5], "pdist": f[6], "copied": f[7]}),
            4 => json!({"side": "L", "op": "limit", "B": f[0], "n": f[1], "limit": f[2], "pos": f[3]}),
            5 => json!({"side": "L", "op": "reset", "B": f[0]}),
            6 => json!({"side": "L", "op": "unc", "B": f[0], "n": f[1], "copied": f[2], "pos": f[3], "full": f[4]}),
            7 => {
                let (low, range) = (f[3] as u64, f[4] as u64);
                json!({"side": "RE", "p": f[0], "q": f[1], "b": f[2], "l": [(low >> 32) & 0xFFFF, (low >> 16) & 0xFFFF, low & 0xFFFF],
                       "r": [(range >> 16) & 0xFFFF, range & 0xFFFF], "c": f[5], "cs": f[6], "n": f[7]})
            }
            8 => {
                let (code, range) = (f[3] as u64, f[4] as u64);
                json!({"side": "RD", "p": f[0], "q": f[1], "b": f[2], "c": [(code >> 16) & 0xFFFF, code & 0xFFFF],
                       "r": [(range >> 16) & 0xFFFF, range & 0xFFFF], "n": f[5]})
            }
            _ => Value::Null, // events of other groups' hooks
        })
        .filter(|v| !v.is_null())
        .collect()
}

fn kind_of(e: &std::io::Error) -> String {
    format!("{:?}", e.kind())
}

/// Reads `r` with the cyclic size sequence `reads` (0 entries allowed: a zero-length read must return 0 and change
/// nothing) until end of stream / error / `max_calls`. Returns (bytes, per-call records, error).
pub fn read_script<R: Read>(r: &mut R, reads: &[usize], cyclic: bool, max_calls: usize) -> (Vec<u8>, Vec<Value>, Option<(String, String)>) {
    let mut out = Vec::new();
    let mut calls = Vec::new();
    let mut i = 0usize;
    let mut buf = vec![0u8; reads.iter().copied().max().unwrap_or(1).max(1)];
    let mut first_err: Option<(String, String)> = None;
    loop {
        if calls.len() >= max_calls || (!cyclic && i >= reads.len()) {
            break;
        }
        let k = if reads.is_empty() { 4096.min(buf.len()) } else { reads[i % reads.len()] };
        i += 1;
        match r.read(&mut buf[..k]) {
            Ok(n) => {
                out.extend_from_slice(&buf[..n]);
                calls.push(json!({"k": k, "n": n}));
                if n == 0 && k > 0 && cyclic {
                    break;
                }
            }
            Err(e) => {
                calls.push(json!({"k": k, "n": -1, "kind": kind_of(&e), "msg": e.to_string()}));
                if first_err.is_none() {
                    first_err = Some((kind_of(&e), e.to_string()));
                }
                if cyclic {
                    return (out, calls, first_err);
                }
            }
        }
    }
    (out, calls, first_err)
}

fn counters_json() -> Value {
    let c = verif_trace::counters();
    json!({"enc_pushed": c[0], "dec_pulled_stream": c[1], "dec_pulled_buf": c[2], "dec_past_end": c[3],
           "enc_sym": [c[4], c[5], c[6], c[7]], "dec_sym": [c[24], c[25], c[26], c[27]]})
}

/// Real encode + real decode of the same data with per-symbol events on both sides.
fn roundtrip(j: &Value) -> Value {
    let data = input(j);
    let fmt = j["fmt"].as_str().unwrap_or("lzma");
    let opt = options(&j["opts"]);
    let want_events = b(j, "events", true);
    let reads: Vec<usize> = j.get("reads").and_then(|x| x.as_array()).map(|a| a.iter().map(|x| x.as_u64().unwrap_or(1) as usize).collect()).unwrap_or_default();
    verif_trace::reset_counters();
    if want_events {
        verif_trace::enable();
        if b(j, "bits", false) {
            verif_trace::set_level(2);
        }
    }
    let enc = catch_unwind(AssertUnwindSafe(|| -> std::io::Result<Vec<u8>> {
        match fmt {
            "lzma2" => {
                let mut o = LZMA2Options { lzma_options: opt.clone(), chunk_size: None };
                if let Some(c) = j.get("chunk").and_then(|x| x.as_u64()) {
                    o.chunk_size = NonZeroU64::new(c);
                }
                let mut w = LZMA2Writer::new(Vec::new(), o);
                for part in data.chunks(u(j, "write", 1 << 20).max(1) as usize) {
                    w.write_all(part)?;
                    if b(j, "flush", false) {
                        w.flush()?;
                    }
                }
                w.finish()
            }
            _ => {
                let marker = b(j, "marker", true);
                let mut w = if marker { LZMAWriter::new_use_header(Vec::new(), &opt, None)? } else { LZMAWriter::new_use_header(Vec::new(), &opt, Some(data.len() as u64))? };
                for part in data.chunks(u(j, "write", 1 << 20).max(1) as usize) {
                    w.write_all(part)?;
                }
                w.finish()
            }
        }
    }));
    let enc_events = verif_trace::take();
    let enc_counters = counters_json();
    let comp = match enc {
        Ok(Ok(c)) => c,
        Ok(Err(e)) => {
            verif_trace::disable();
            return json!({"id": j["id"], "enc": "err", "kind": kind_of(&e), "msg": e.to_string()});
        }
        Err(_) => {
            verif_trace::disable();
            return json!({"id": j["id"], "enc": "panic"});
        }
    };
    verif_trace::reset_counters();
    let dec = catch_unwind(AssertUnwindSafe(|| match fmt {
        "lzma2" => {
            let mut r = LZMA2Reader::new(comp.as_slice(), opt.dict_size, None);
            read_script(&mut r, &reads, true, 1 << 22)
        }
        _ => match LZMAReader::new_mem_limit(comp.as_slice(), u32::MAX, None) {
            Ok(mut r) => read_script(&mut r, &reads, true, 1 << 22),
            Err(e) => (Vec::new(), Vec::new(), Some((kind_of(&e), e.to_string()))),
        },
    }));
    let dec_events = verif_trace::take();
    verif_trace::disable();
    let dec_counters = counters_json();
    let mut res = json!({"id": j["id"], "enc": "ok", "enc_len": comp.len(), "in_len": data.len(), "digest": gen::digest(&comp),
                         "enc_counters": enc_counters, "dec_counters": dec_counters});
    match dec {
        Ok((out, _calls, err)) => {
            res["dec"] = json!(if err.is_some() { "err" } else { "ok" });
            res["equal"] = json!(out == data);
            if let Some((k, m)) = err {
                res["kind"] = json!(k);
                res["msg"] = json!(m);
            }
        }
        Err(_) => {
            res["dec"] = json!("panic");
            res["equal"] = json!(false);
        }
    }
    if want_events {
        let mut ev = events_json(&enc_events);
        ev.extend(events_json(&dec_events));
        res["events"] = json!(ev);
    }
    if b(j, "emit_hex", false) {
        res["hex"] = json!(gen::hex(&comp));
    }
    res
}

fn parse_sym(v: &Value) -> Sym {
    let a = v.as_array().unwrap();
    match a[0].as_str().unwrap() {
        "lit" => Sym::Lit(a[1].as_u64().unwrap() as u8),
        "match" => Sym::Match { dist: a[1].as_u64().unwrap() as u32, len: a[2].as_u64().unwrap() as u32 },
        "rep" => Sym::Rep { idx: a[1].as_u64().unwrap() as usize, len: a[2].as_u64().unwrap() as u32 },
        "srep" => Sym::ShortRep,
        "marker" => Sym::Marker,
        x => panic!("bad symbol {x}"),
    }
}

/// Forges a stream from a script. Returns (stream, expected bytes, chunk table).
pub fn forge(j: &Value) -> (Vec<u8>, Vec<u8>, Vec<(usize, usize)>) {
    let (lc, lp, pb) = (u(j, "lc", 3) as u32, u(j, "lp", 0) as u32, u(j, "pb", 2) as u32);
    if j["fmt"].as_str() == Some("lzma2") {
        let chunks: Vec<Chunk> = j["chunks"]
            .as_array()
            .unwrap()
            .iter()
            .map(|c| {
                if c["t"].as_str() == Some("raw") {
                    Chunk::Raw { data: c["data"].as_array().unwrap().iter().map(|x| x.as_u64().unwrap() as u8).collect(), dict_reset: b(c, "dict_reset", false) }
                } else {
                    Chunk::Lzma {
                        syms: c["syms"].as_array().unwrap().iter().map(parse_sym).collect(),
                        dict_reset: b(c, "dict_reset", false),
                        new_props: b(c, "new_props", false),
                        state_reset: b(c, "state_reset", false),
                    }
                }
            })
            .collect();
        symforge::lzma2(&chunks, lc, lp, pb, b(j, "terminate", true))
    } else {
        let syms: Vec<Sym> = j["script"].as_array().unwrap().iter().map(parse_sym).collect();
        let size = if b(j, "size_known", false) { Some(u(j, "size", 0)) } else { None };
        let (s, h) = symforge::lzma_alone(&syms, lc, lp, pb, u(j, "dict", 4096) as u32, size, b(j, "marker", true));
        (s, h, vec![])
    }
}

/// Strict replay: forge the stream of a TLC script, cross-check it with liblzma, then read it through the real
/// reader with exactly the scripted read sizes.
fn forge_job(j: &Value) -> Value {
    let (stream, expect, table) = forge(j);
    let lzma2 = j["fmt"].as_str() == Some("lzma2");
    let reference = if lzma2 { symforge::ref_decode_lzma2(&stream) } else { symforge::ref_decode_lzma(&stream) };
    let mut res = json!({"id": j["id"], "stream_len": stream.len(), "expect_len": expect.len(),
                         "chunks": table.iter().map(|(o, l)| json!([o, l])).collect::<Vec<_>>()});
    match &reference {
        Ok((bytes, end)) => {
            res["ref"] = json!("ok");
            res["ref_end"] = json!(end);
            res["ref_equal"] = json!(*bytes == expect);
            res["ref_len"] = json!(bytes.len());
        }
        Err(e) => {
            res["ref"] = json!("err");
            res["ref_msg"] = json!(e);
        }
    }
    if b(j, "emit_hex", false) {
        res["hex"] = json!(gen::hex(&stream));
        res["expect_hex"] = json!(gen::hex(&expect));
    }
    if b(j, "forge_only", false) {
        return res;
    }
    let reads: Vec<usize> = j["reads"].as_array().map(|a| a.iter().map(|x| x.as_u64().unwrap() as usize).collect()).unwrap_or_default();
    let cyclic = b(j, "cyclic", false);
    verif_trace::reset_counters();
    verif_trace::enable();
    let dict = u(j, "dict", 4096) as u32;
    let r = catch_unwind(AssertUnwindSafe(|| {
        if lzma2 {
            let mut r = LZMA2Reader::new(stream.as_slice(), dict, None);
            read_script(&mut r, &reads, cyclic, 1 << 16)
        } else {
            match LZMAReader::new_mem_limit(stream.as_slice(), u32::MAX, None) {
                Ok(mut r) => read_script(&mut r, &reads, cyclic, 1 << 16),
                Err(e) => (Vec::new(), vec![json!({"k": 0, "n": -1, "kind": kind_of(&e), "msg": e.to_string(), "ctor": true})], Some((kind_of(&e), e.to_string()))),
            }
        }
    }));
    let ev = verif_trace::take();
    verif_trace::disable();
    res["counters"] = counters_json();
    match r {
        Ok((out, calls, err)) => {
            res["outcome"] = json!(if err.is_some() { "err" } else { "ok" });
            res["calls"] = json!(calls);
            res["out_len"] = json!(out.len());
            res["prefix_ok"] = json!(out.len() <= expect.len() && out[..] == expect[..out.len()]);
            res["complete"] = json!(out == expect);
            if let Some((k, m)) = err {
                res["kind"] = json!(k);
                res["msg"] = json!(m);
            }
        }
        Err(_) => {
            res["outcome"] = json!("panic");
        }
    }
    if b(j, "events", true) {
        res["events"] = json!(events_json(&ev));
    }
    res
}

/// H4: every normalize variant on the same array (at every alignment offset 0..8 of an over-allocated buffer).
fn h4_norm(j: &Value) -> Value {
    let arr: Vec<i32> = j["arr"].as_array().unwrap().iter().map(|x| x.as_i64().unwrap() as i32).collect();
    let off = j["off"].as_i64().unwrap() as i32;
    let mut out = serde_json::Map::new();
    let run = |f: &dyn Fn(&mut [i32], i32) -> bool, shift: usize| -> Option<Vec<i32>> {
        // place the array at a chosen element offset of a larger buffer so that SIMD prefixes / suffixes vary
        let mut buf = vec![0i32; arr.len() + 16];
        buf[shift..shift + arr.len()].copy_from_slice(&arr);
        if f(&mut buf[shift..shift + arr.len()], off) { Some(buf[shift..shift + arr.len()].to_vec()) } else { None }
    };
    let shifts: Vec<usize> = j.get("shifts").and_then(|x| x.as_array()).map(|a| a.iter().map(|x| x.as_u64().unwrap() as usize).collect()).unwrap_or_else(|| vec![0]);
    let mut variants = Vec::new();
    for &s in &shifts {
        let sc = run(&|p, o| { verif_api::normalize_scalar(p, o); true }, s);
        let di = run(&|p, o| { verif_api::normalize_dispatch(p, o); true }, s);
        let av = run(&|p, o| verif_api::normalize_avx2(p, o), s);
        let ss = run(&|p, o| verif_api::normalize_sse41(p, o), s);
        variants.push(json!({"shift": s, "scalar": sc, "dispatch": di, "avx2": av, "sse41": ss}));
    }
    out.insert("id".into(), j["id"].clone());
    out.insert("variants".into(), json!(variants));
    Value::Object(out)
}

/// H4: portable vs dispatching (assembly) decode_direct_bits on caller-supplied state.
fn h4_bits(j: &Value) -> Value {
    let buf: Vec<u8> = j["buf"].as_array().unwrap().iter().map(|x| x.as_u64().unwrap() as u8).collect();
    let pos = u(j, "pos", 0) as usize;
    let range = u(j, "range", 0xFFFF_FFFF) as u32;
    let code = u(j, "code", 0) as u32;
    let count = u(j, "count", 1) as u32;
    let f = |dispatch: bool| {
        match catch_unwind(AssertUnwindSafe(|| verif_api::decode_direct_bits(dispatch, &buf, pos, range, code, count))) {
            Ok(d) => json!({"result": d.result, "range": d.range, "code": d.code, "pos": d.pos, "finished": d.finished}),
            Err(_) => json!({"panic": true}),
        }
    };
    json!({"id": j["id"], "portable": f(false), "dispatch": f(true), "has_asm": verif_api::direct_bits_has_asm()})
}

pub fn run_job(j: &Value) -> Value {
    match j["op"].as_str().unwrap_or("") {
        "roundtrip" => roundtrip(j),
        "forge" => forge_job(j),
        "h4norm" => h4_norm(j),
        "h4bits" => h4_bits(j),
        x => json!({"id": j["id"], "error": format!("unknown op {x}")}),
    }
}
