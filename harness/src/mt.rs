//! Scenario runner for the four multi-threaded types on the deterministic runtime (hook H2).
use std::io::{Read, Write};
use std::num::NonZeroU64;
use std::sync::{Arc, Mutex};

use lzma_rust2::verif_rt::{self, Op, Policy, Report};
use lzma_rust2::*;
use serde::{Deserialize, Serialize};
use serde_json::{json, Value};

use crate::gen::{self, Rng};

fn d_true() -> bool {
    true
}
fn d_unit() -> usize {
    300
}
fn d_steps() -> usize {
    200_000
}

#[derive(Deserialize, Clone, Debug)]
pub struct Call {
    pub op: String, // write | flush | finish | drop | read
    #[serde(default)]
    pub n: usize,
}

#[derive(Deserialize, Clone, Debug)]
#[serde(tag = "kind", rename_all = "lowercase")]
pub enum Pol {
    Random { seed: u64 },
    /// PCT-like: random priorities, `depth` priority change points
    Pct { seed: u64, depth: u32 },
    /// steps: [thread, enabled threads expected by the spec, compare?, waiter to wake (-1 = n/a)]
    Guided { steps: Vec<(usize, Vec<usize>, bool, i64)> },
    /// follow `prefix` (choice indices into the enabled list), then always take the first enabled
    /// thread, preferring the current one (used by the stateless DFS driver)
    Dfs { prefix: Vec<usize> },
}

#[derive(Deserialize, Clone, Debug)]
pub struct Scn {
    pub id: String,
    pub family: String,
    #[serde(default)]
    pub chunks: Vec<String>,
    #[serde(default = "d_true")]
    pub terminated: bool,
    #[serde(default)]
    pub bad: Vec<u64>,
    #[serde(default)]
    pub panic: Vec<u64>,
    #[serde(default)]
    pub empty: Vec<u64>,
    pub workers: u32,
    #[serde(default)]
    pub drop_after: Option<u64>,
    #[serde(default = "d_unit")]
    pub unit_len: usize,
    pub policy: Pol,
    #[serde(default)]
    pub log: bool,
    #[serde(default)]
    pub calls: Vec<Call>,
    #[serde(default)]
    pub data_class: Option<String>,
    #[serde(default)]
    pub seed: u64,
    #[serde(default = "d_steps")]
    pub max_steps: usize,
    /// writers: error injected by the sink at this write call index
    #[serde(default)]
    pub sink_err_at: Option<usize>,
    /// lzma2 reader: the stream was encoded with (and is decoded with) a preset dictionary
    #[serde(default)]
    pub preset: bool,
    /// readers: this many bytes follow the end of the stream
    #[serde(default)]
    pub trailing: usize,
    /// units made of incompressible data (LZMA2: stored as uncompressed chunks, control 0x01 / 0x02)
    #[serde(default)]
    pub unc: Vec<u64>,
    /// readers: after the first error keep calling read() this many more times (each must fail again)
    #[serde(default)]
    pub calls_after_err: u32,
    /// lzip reader: corrupt the trailer of member k: [k, field, mode]; field 0 = member_size, 1 = data_size,
    /// 2 = first magic byte of the member; mode 0 = zero, 1 = +1, 2 = -1, 3 = huge
    #[serde(default)]
    pub lzip_damage: Option<(usize, u8, u8)>,
    /// readers: number of operations the source may be asked for before it starts failing (0 = unlimited)
    #[serde(default)]
    pub op_budget: u64,
    /// readers: the source returns at most this many bytes per read call (0 = unlimited)
    #[serde(default)]
    pub src_chunk: usize,
    /// LZMA2: dictionary size (0 = 64 KiB) and preset dictionary length (0 = 2000)
    #[serde(default)]
    pub dict_size: u32,
    #[serde(default)]
    pub preset_len: usize,
}

impl Scn {
    fn dict(&self) -> u32 {
        if self.dict_size == 0 { MT_DICT } else { self.dict_size }
    }
    fn preset_dict(&self) -> Vec<u8> {
        gen::data("text", if self.preset_len == 0 { 2000 } else { self.preset_len }, 77)
    }
}

// ------------------------------------------------------------------ policies
#[derive(Default, Debug, Clone, Serialize)]
pub struct GRep {
    pub divergence: Option<String>,
    pub en_mismatch: Option<String>,
    pub used: usize,
    pub choices: Vec<(usize, usize)>, // (index chosen, number enabled) per decision (DFS bookkeeping)
}

struct Guided {
    steps: Vec<(usize, Vec<usize>, bool, i64)>,
    pos: usize,
    last: usize,
    rep: Arc<Mutex<GRep>>,
}
impl Policy for Guided {
    fn choose(&mut self, enabled: &[usize], current: usize, _s: usize) -> usize {
        if self.pos < self.steps.len() {
            let (t, en, cmp, _) = &self.steps[self.pos];
            let mut r = self.rep.lock().unwrap();
            if *cmp && r.en_mismatch.is_none() && r.divergence.is_none() {
                let mut a = enabled.to_vec();
                a.sort();
                let mut b = en.clone();
                b.sort();
                b.dedup();
                if a != b {
                    r.en_mismatch = Some(format!("step {} impl {:?} spec {:?}", self.pos, a, b));
                }
            }
            if r.divergence.is_none() {
                if enabled.contains(t) {
                    self.last = self.pos;
                    self.pos += 1;
                    r.used = self.pos;
                    return *t;
                }
                r.divergence = Some(format!("step {} wants {} enabled {:?}", self.pos, t, enabled));
            }
            self.pos = self.steps.len();
        }
        if enabled.contains(&current) {
            current
        } else {
            enabled[0]
        }
    }
    fn choose_waiter(&mut self, waiters: &[usize]) -> usize {
        // the step being executed is the one chosen last
        if self.pos > 0 && self.last < self.steps.len() {
            let w = self.steps[self.last].3;
            if w >= 0 {
                if let Some(i) = waiters.iter().position(|x| *x == w as usize) {
                    return i;
                }
                let mut r = self.rep.lock().unwrap();
                if r.divergence.is_none() {
                    r.divergence = Some(format!("step {} wants to wake {} waiters {:?}", self.last, w, waiters));
                }
            }
        }
        0
    }
}

struct RandomP(Rng);
impl Policy for RandomP {
    fn choose(&mut self, enabled: &[usize], _c: usize, _s: usize) -> usize {
        enabled[self.0.below(enabled.len() as u64) as usize]
    }
    fn choose_waiter(&mut self, waiters: &[usize]) -> usize {
        self.0.below(waiters.len() as u64) as usize
    }
}

/// PCT-style: each thread gets a random priority; at `depth` random steps the running thread's
/// priority drops below all others. Finds bugs needing few ordering constraints with good probability.
struct Pct {
    rng: Rng,
    prio: Vec<u64>,
    change: Vec<usize>,
    low: u64,
}
impl Policy for Pct {
    fn choose(&mut self, enabled: &[usize], _c: usize, step: usize) -> usize {
        for &t in enabled {
            while self.prio.len() <= t {
                let p = 1000 + self.rng.below(1_000_000);
                self.prio.push(p);
            }
        }
        let best = *enabled.iter().max_by_key(|&&t| self.prio[t]).unwrap();
        if self.change.contains(&step) {
            self.low = self.low.saturating_sub(1);
            self.prio[best] = self.low;
            return *enabled.iter().max_by_key(|&&t| self.prio[t]).unwrap();
        }
        best
    }
    fn choose_waiter(&mut self, waiters: &[usize]) -> usize {
        self.rng.below(waiters.len() as u64) as usize
    }
}

struct Dfs {
    prefix: Vec<usize>,
    pos: usize,
    rep: Arc<Mutex<GRep>>,
}
impl Policy for Dfs {
    fn choose(&mut self, enabled: &[usize], current: usize, _s: usize) -> usize {
        let idx = if self.pos < self.prefix.len() {
            self.prefix[self.pos].min(enabled.len() - 1)
        } else {
            // default continuation: keep running the current thread (no pre-emption), else the first
            enabled.iter().position(|t| *t == current).unwrap_or(0)
        };
        self.pos += 1;
        let mut r = self.rep.lock().unwrap();
        if r.choices.len() < 4000 {
            let cur_idx = enabled.iter().position(|t| *t == current);
            // encode: chosen index, number enabled; the current thread's index is needed to count pre-emptions
            r.choices.push((idx, enabled.len() * 1000 + cur_idx.map(|c| c + 1).unwrap_or(0)));
        }
        enabled[idx]
    }
}

fn make_policy(p: &Pol, rep: Arc<Mutex<GRep>>) -> Box<dyn Policy> {
    match p {
        Pol::Random { seed } => Box::new(RandomP(Rng::new(*seed))),
        Pol::Pct { seed, depth } => {
            let mut rng = Rng::new(*seed);
            let change = (0..*depth).map(|_| 1 + rng.below(400) as usize).collect();
            Box::new(Pct { rng, prio: vec![], change, low: 999 })
        }
        Pol::Guided { steps } => Box::new(Guided { steps: steps.clone(), pos: 0, last: 0, rep }),
        Pol::Dfs { prefix } => Box::new(Dfs { prefix: prefix.clone(), pos: 0, rep }),
    }
}

// ------------------------------------------------------------------ stream construction
pub const MT_DICT: u32 = 1 << 16;

fn lzma2_opts_d(dict: u32) -> LZMA2Options {
    let mut o = LZMA2Options::with_preset(0);
    o.lzma_options.dict_size = dict;
    o
}

fn lzma2_opts() -> LZMA2Options {
    lzma2_opts_d(MT_DICT)
}

fn unit_data(u: usize, len: usize, class: Option<&str>, seed: u64) -> Vec<u8> {
    match class {
        Some(c) => gen::data(c, len, seed.wrapping_add(u as u64 * 7919)),
        None => (0..len).map(|i| ((i * 7 + u * 13) % 251) as u8).collect(),
    }
}

pub fn preset_dict() -> Vec<u8> {
    gen::data("text", 2000, 77)
}

/// Builds an LZMA2 stream from the abstract chunk kinds; returns (stream, expected data per unit).
pub fn build_lzma2_stream(s: &Scn) -> (Vec<u8>, Vec<Vec<u8>>) {
    let mut all = Vec::new();
    let mut units: Vec<Vec<u8>> = Vec::new();
    let mut unit_starts: Vec<usize> = Vec::new();
    let mut w: Option<LZMA2Writer<Vec<u8>>> = None;
    let mut truncated = false;
    let mut first_of_unit = 0usize;
    let mut p_marks = 0usize;
    let opts = |first: bool| {
        let mut o = lzma2_opts_d(s.dict());
        if first && s.preset {
            o.lzma_options.preset_dict = Some(s.preset_dict());
        }
        o
    };
    let chunk_data = |i: usize, unit_no: usize, first_i: usize| -> Vec<u8> {
        if s.unc.contains(&(unit_no as u64)) {
            gen::data("random", s.unit_len, s.seed.wrapping_add(i as u64 * 31 + 5))
        } else if s.preset && unit_no == 0 && i == first_i {
            // matches reach back into the preset dictionary
            let p = s.preset_dict();
            // refer to the END of the preset dictionary: that is the part every decoder must keep
            let n = s.unit_len.min(1500).min(p.len());
            p[p.len() - n..].to_vec()
        } else {
            // a dependent chunk repeats its unit's first chunk, so its matches cross the chunk boundary
            unit_data(first_i, s.unit_len, s.data_class.as_deref(), s.seed)
        }
    };
    for (i, k) in s.chunks.iter().enumerate() {
        match k.as_str() {
            "I" => {
                if let Some(ww) = w.take() {
                    all.extend(ww.into_inner());
                }
                unit_starts.push(all.len());
                first_of_unit = i;
                let d = chunk_data(i, units.len(), first_of_unit);
                let mut nw = LZMA2Writer::new(Vec::new(), opts(units.is_empty()));
                nw.write_all(&d).unwrap();
                nw.flush().unwrap();
                w = Some(nw);
                units.push(d);
            }
            "D" => {
                if w.is_none() {
                    unit_starts.push(all.len());
                    first_of_unit = i;
                    w = Some(LZMA2Writer::new(Vec::new(), opts(units.is_empty())));
                    units.push(Vec::new());
                }
                let d = chunk_data(i, units.len() - 1, first_of_unit);
                let ww = w.as_mut().unwrap();
                ww.write_all(&d).unwrap();
                ww.flush().unwrap();
                units.last_mut().unwrap().extend(d);
            }
            "U" | "P" => {
                // dependent uncompressed chunk (control 0x02); "P" adds an LZMA chunk after it, which the
                // writer marks "state reset" (0xA0) and which is rewritten below to "state + props reset" (0xC0)
                assert!(w.is_some(), "U / P need a preceding chunk in the same unit");
                let d = gen::data("random", s.unit_len, s.seed.wrapping_add(i as u64 * 131 + 7));
                let ww = w.as_mut().unwrap();
                ww.write_all(&d).unwrap();
                ww.flush().unwrap();
                units.last_mut().unwrap().extend(d);
                if k == "P" {
                    let d2 = chunk_data(i, units.len() - 1, first_of_unit);
                    ww.write_all(&d2).unwrap();
                    ww.flush().unwrap();
                    units.last_mut().unwrap().extend(d2);
                    p_marks += 1;
                }
            }
            "X" => {
                if let Some(ww) = w.take() {
                    all.extend(ww.into_inner());
                }
                // reserved control byte: the cutter itself fails on it
                all.push(0x03);
                truncated = true;
                break;
            }
            _ => panic!("bad chunk kind"),
        }
    }
    if let Some(ww) = w.take() {
        all.extend(ww.into_inner());
    }
    if p_marks > 0 {
        // rewrite every 0xA0..0xBF chunk (state reset) into 0xC0..0xDF (state + props reset, same props)
        let props = lzma2_opts_d(s.dict()).lzma_options.get_props();
        let mut out = Vec::with_capacity(all.len() + 8);
        let mut i = 0;
        let mut shift_at: Vec<usize> = Vec::new();
        while i < all.len() {
            let c = all[i];
            if c >= 0x80 {
                let cs = ((all[i + 3] as usize) << 8) + all[i + 4] as usize + 1;
                let hdr = if c >= 0xC0 { 6 } else { 5 };
                if (0xA0..0xC0).contains(&c) {
                    out.push(c + 0x20);
                    out.extend_from_slice(&all[i + 1..i + 5]);
                    out.push(props);
                    out.extend_from_slice(&all[i + 5..i + 5 + cs]);
                    shift_at.push(i);
                } else {
                    out.extend_from_slice(&all[i..i + hdr + cs]);
                }
                i += hdr + cs;
            } else if c == 1 || c == 2 {
                let us = ((all[i + 1] as usize) << 8) + all[i + 2] as usize + 1;
                out.extend_from_slice(&all[i..i + 3 + us]);
                i += 3 + us;
            } else {
                out.extend_from_slice(&all[i..]);
                break;
            }
        }
        for st in unit_starts.iter_mut() {
            *st += shift_at.iter().filter(|&&p| p < *st).count();
        }
        all = out;
    }
    if s.terminated && !truncated {
        all.push(0);
        all.extend(gen::data("random", s.trailing, 99));
    }
    // deterministic decode failure of a unit: invalid props byte of its first (dictionary-reset) chunk
    for b in &s.bad {
        if let Some(&st) = unit_starts.get(*b as usize) {
            assert!(all[st] >= 0xC0, "unit does not start with an LZMA chunk carrying props");
            all[st + 5] = 0xFF;
        }
    }
    (all, units)
}

pub fn build_lzip_stream(s: &Scn) -> (Vec<u8>, Vec<Vec<u8>>) {
    let mut all = Vec::new();
    let mut units = Vec::new();
    for (i, _k) in s.chunks.iter().enumerate() {
        let d = if s.empty.contains(&(i as u64)) {
            Vec::new()
        } else if s.unc.contains(&(i as u64)) {
            gen::data("random", s.unit_len, s.seed.wrapping_add(i as u64 * 31 + 5))
        } else {
            unit_data(i, s.unit_len, s.data_class.as_deref(), s.seed)
        };
        let mut o = LZIPOptions::with_preset(0);
        o.lzma_options.dict_size = MT_DICT;
        let mut w = LZIPWriter::new(Vec::new(), o);
        w.write_all(&d).unwrap();
        let mut m = w.finish().unwrap();
        if s.bad.contains(&(i as u64)) {
            let n = m.len();
            m[n - 20] ^= 0x55; // CRC32 of the member: deterministic failure at the member trailer
        }
        if let Some((k, field, mode)) = s.lzip_damage {
            if k == i {
                let n = m.len();
                let apply = |v: u64| -> u64 {
                    match mode {
                        0 => 0,
                        1 => v + 1,
                        2 => v.wrapping_sub(1),
                        _ => u64::MAX / 2,
                    }
                };
                match field {
                    0 => {
                        let v = u64::from_le_bytes(m[n - 8..].try_into().unwrap());
                        m[n - 8..].copy_from_slice(&apply(v).to_le_bytes());
                    }
                    1 => {
                        let v = u64::from_le_bytes(m[n - 16..n - 8].try_into().unwrap());
                        m[n - 16..n - 8].copy_from_slice(&apply(v).to_le_bytes());
                    }
                    _ => m[0] ^= 0x20,
                }
            }
        }
        all.extend(m);
        units.push(d);
    }
    (all, units)
}

/// Source with an operation budget: counts read / seek calls, records the seek targets (the backward member
/// scan of LZIPReaderMT is observable through them) and fails every call once the budget is used up, so that
/// a loop that never ends is detected by count, not by wall clock.
pub struct BudgetSource {
    inner: std::io::Cursor<Vec<u8>>,
    pub st: Arc<Mutex<BudgetState>>,
    /// at most this many bytes per read call (0 = unlimited): a legal short-reading source
    max_read: usize,
}
#[derive(Default, Debug)]
pub struct BudgetState {
    pub ops: u64,
    pub budget: u64,
    pub blown: bool,
    pub seeks: Vec<(i64, u64)>, // (kind: 0 = Start, 1 = End, 2 = Current; resulting position)
    pub reads: Vec<(u64, usize)>, // (position before, bytes requested) for the first few hundred calls
}
impl BudgetSource {
    fn tick(&mut self) -> std::io::Result<()> {
        let mut st = self.st.lock().unwrap();
        st.ops += 1;
        if st.budget > 0 && st.ops > st.budget {
            st.blown = true;
            return Err(std::io::Error::other("verif: source operation budget exhausted"));
        }
        Ok(())
    }
}
impl Read for BudgetSource {
    fn read(&mut self, b: &mut [u8]) -> std::io::Result<usize> {
        self.tick()?;
        let p = self.inner.position();
        {
            let mut st = self.st.lock().unwrap();
            if st.reads.len() < 400 {
                st.reads.push((p, b.len()));
            }
        }
        let n = if self.max_read > 0 { b.len().min(self.max_read) } else { b.len() };
        self.inner.read(&mut b[..n])
    }
}
impl std::io::Seek for BudgetSource {
    fn seek(&mut self, p: std::io::SeekFrom) -> std::io::Result<u64> {
        self.tick()?;
        let r = self.inner.seek(p)?;
        let k = match p {
            std::io::SeekFrom::Start(_) => 0,
            std::io::SeekFrom::End(_) => 1,
            std::io::SeekFrom::Current(_) => 2,
        };
        let mut st = self.st.lock().unwrap();
        if st.seeks.len() < 400 {
            st.seeks.push((k, r));
        }
        Ok(r)
    }
}

// ------------------------------------------------------------------ running
#[derive(Default, Debug)]
struct Obs {
    outcome: String, // eof | err | dropped | panic
    err_kind: String,
    err_msg: String,
    out: Vec<u8>,
    reads_ok: u64,
    unit_count: i64,
    compressed: Vec<u8>,
    call_results: Vec<String>,
    st_ok: bool,
    st_out: Vec<u8>,
    post_err: Vec<String>,
    src_ops: u64,
    budget_blown: bool,
    seeks: Vec<(i64, u64)>,
    seeks_at_new: usize,
    file_len: u64,
    blocked_in: String,
}

struct FaultSink {
    buf: Arc<Mutex<Vec<u8>>>,
    calls: usize,
    err_at: Option<usize>,
}
impl Write for FaultSink {
    fn write(&mut self, b: &[u8]) -> std::io::Result<usize> {
        let i = self.calls;
        self.calls += 1;
        if Some(i) == self.err_at {
            return Err(std::io::Error::new(std::io::ErrorKind::PermissionDenied, "injected sink error"));
        }
        self.buf.lock().unwrap().extend_from_slice(b);
        Ok(b.len())
    }
    fn flush(&mut self) -> std::io::Result<()> {
        Ok(())
    }
}

fn op_json(t: usize, op: &Op) -> Value {
    let (name, o, v): (&str, i64, i64) = match op {
        Op::Start => ("Start", -1, 0),
        Op::Exit => ("Exit", -1, 0),
        Op::Lock(m) => ("Lock", *m as i64, 0),
        Op::Unlock(m) => ("Unlock", *m as i64, 0),
        Op::CvWait { cv, .. } => ("CvWait", *cv as i64, 0),
        Op::CvWake { cv, .. } => ("CvWake", *cv as i64, 0),
        Op::NotifyOne(cv, w) => ("NotifyOne", *cv as i64, if *w == usize::MAX { 0 } else { *w as i64 }),
        Op::NotifyAll(cv) => ("NotifyAll", *cv as i64, 0),
        Op::ALoad(a, v) => ("ALoad", *a as i64, *v as i64),
        Op::AStore(a, v) => ("AStore", *a as i64, *v as i64),
        Op::AAdd(a, d) => ("AAdd", *a as i64, *d),
        Op::Send(c, ok) => ("Send", *c as i64, *ok as i64),
        Op::Recv(c, ok) => ("Recv", *c as i64, *ok as i64),
        Op::TryRecv(c, r) => ("TryRecv", *c as i64, *r as i64),
        Op::Spawn(t) => ("Spawn", *t as i64, 0),
        Op::TryLock(m, ok) => ("TryLock", *m as i64, *ok as i64),
        Op::ARmw(a, _old, new) => ("ARmw", *a as i64, *new as i64),
        Op::Join(t) => ("Join", *t as i64, 0),
        Op::Yield => ("Yield", -1, 0),
        Op::DropSender(c) => ("DropSender", *c as i64, 0),
        Op::DropReceiver(c) => ("DropReceiver", *c as i64, 0),
        Op::User(s) => {
            return json!({"t": t, "op": "User", "o": -1, "v": 0, "s": s});
        }
    };
    json!({"t": t, "op": name, "o": o, "v": v})
}

pub fn run_scenario(s: &Scn) -> Value {
    let rep = Arc::new(Mutex::new(GRep::default()));
    let policy = make_policy(&s.policy, rep.clone());
    let obs = Arc::new(Mutex::new(Obs::default()));
    let cur_call: Arc<Mutex<String>> = Arc::new(Mutex::new("new".to_string()));
    let panics = s.panic.clone();
    if panics.is_empty() {
        verif_rt::set_fail_points(None);
    } else {
        verif_rt::set_fail_points(Some(Box::new(move |_site, seq| panics.contains(&seq))));
    }
    let (expected, report): (Vec<Vec<u8>>, Report) = match s.family.as_str() {
        "lzma2_reader" | "lzip_reader" => {
            let lz = s.family == "lzip_reader";
            let (stream, units) = if lz { build_lzip_stream(s) } else { build_lzma2_stream(s) };
            let o2 = obs.clone();
            let workers = s.workers;
            let drop_after = s.drop_after;
            let preset = s.preset;
            let calls_after_err = s.calls_after_err;
            let src_chunk = s.src_chunk;
            let dict = s.dict();
            let pd = s.preset_dict();
            // single-threaded reference result for the same stream (the property is MT == ST)
            {
                let mut st_out = Vec::new();
                let st_ok = if lz {
                    match LZIPReader::new(stream.as_slice()) {
                        Ok(mut r) => r.read_to_end(&mut st_out).is_ok(),
                        Err(_) => false,
                    }
                } else {
                    let pd = s.preset_dict();
                    let mut r = LZMA2Reader::new(stream.as_slice(), s.dict(), if preset { Some(pd.as_slice()) } else { None });
                    r.read_to_end(&mut st_out).is_ok()
                };
                let mut o = obs.lock().unwrap();
                o.st_ok = st_ok;
                o.st_out = st_out;
            }
            let cc = cur_call.clone();
            let buf_len = s.unit_len * (s.chunks.len() + 1) + 64;
            let bst = Arc::new(Mutex::new(BudgetState { budget: s.op_budget, ..Default::default() }));
            let bst2 = bst.clone();
            obs.lock().unwrap().file_len = stream.len() as u64;
            let r = verif_rt::run(policy, s.max_steps, move || {
                let mut buf = vec![0u8; buf_len];
                let mut out = Vec::new();
                let mut reads_ok = 0u64;
                let mut outcome = "dropped".to_string();
                let (mut ek, mut em) = (String::new(), String::new());
                let mut count = -1i64;
                let mut post_err: Vec<String> = Vec::new();
                macro_rules! drive {
                    ($r:expr, $cnt:expr) => {{
                        loop {
                            if let Some(k) = drop_after {
                                if reads_ok >= k {
                                    break;
                                }
                            }
                            *cc.lock().unwrap() = "read".into();
                            match $r.read(&mut buf) {
                                Ok(0) => {
                                    outcome = "eof".into();
                                    break;
                                }
                                Ok(n) => {
                                    out.extend_from_slice(&buf[..n]);
                                    reads_ok += 1;
                                }
                                Err(e) => {
                                    outcome = "err".into();
                                    ek = format!("{:?}", e.kind());
                                    em = e.to_string();
                                    // a failed stream must stay failed: further calls may not report success
                                    for _ in 0..calls_after_err {
                                        match $r.read(&mut buf) {
                                            Ok(n) => {
                                                post_err.push(format!("ok:{n}"));
                                                out.extend_from_slice(&buf[..n]);
                                            }
                                            Err(_) => post_err.push("err".into()),
                                        }
                                    }
                                    break;
                                }
                            }
                        }
                        count = $cnt;
                    }};
                }
                if lz {
                    let bst3 = bst2.clone();
                    let src = BudgetSource { inner: std::io::Cursor::new(stream), st: bst2, max_read: src_chunk };
                    let made = LZIPReaderMT::new(src, workers);
                    o2.lock().unwrap().seeks_at_new = bst3.lock().unwrap().seeks.len();
                    match made {
                        Ok(mut r) => {
                            drive!(r, r.member_count() as i64);
                            *cc.lock().unwrap() = "drop".into();
                            drop(r);
                        }
                        Err(e) => {
                            outcome = "err".into();
                            ek = format!("{:?}", e.kind());
                            em = format!("new: {}", e);
                        }
                    }
                } else {
                    let src = BudgetSource { inner: std::io::Cursor::new(stream), st: bst2, max_read: src_chunk };
                    let mut r = LZMA2ReaderMT::new(
                        src,
                        dict,
                        if preset { Some(pd.as_slice()) } else { None },
                        workers,
                    );
                    drive!(r, r.chunk_count() as i64);
                    *cc.lock().unwrap() = "drop".into();
                    drop(r);
                }
                let mut o = o2.lock().unwrap();
                o.outcome = outcome;
                o.err_kind = ek;
                o.err_msg = em;
                o.out = out;
                o.reads_ok = reads_ok;
                o.unit_count = count;
                o.post_err = post_err;
            });
            {
                let b = bst.lock().unwrap();
                let mut o = obs.lock().unwrap();
                o.src_ops = b.ops;
                o.budget_blown = b.blown;
                o.seeks = b.seeks.clone();
            }
            (units, r)
        }
        "lzma2_writer" | "lzip_writer" => {
            let lz = s.family == "lzip_writer";
            let o2 = obs.clone();
            let workers = s.workers;
            let calls = s.calls.clone();
            let unit = s.unit_len.max(1);
            let class = s.data_class.clone();
            let seed = s.seed;
            let total: usize = calls.iter().filter(|c| c.op == "write").map(|c| c.n).sum();
            let preset_w = s.preset;
            let pd_w = s.preset_dict();
            // dictionary of the writer: by default no larger than the unit; `dict_size` sets it explicitly (a dictionary
            // larger than the configured unit size makes the constructors raise the unit size to it)
            let wdict = if s.dict_size != 0 { s.dict_size.max(4096) } else { MT_DICT.min(unit.max(4096) as u32) };
            let input = if preset_w {
                // data that resembles the preset dictionary: a unit encoded against it would refer back into it
                let p = s.preset_dict();
                (0..total).map(|i| p[(i * 3 + (i / 700) * 11) % p.len()]).collect::<Vec<u8>>()
            } else {
                match &class {
                    Some(c) => gen::data(c, total, seed),
                    None => unit_data(0, total, None, seed),
                }
            };
            let input2 = input.clone();
            let sink_buf = Arc::new(Mutex::new(Vec::new()));
            let sb = sink_buf.clone();
            let err_at = s.sink_err_at;
            let cc = cur_call.clone();
            let r = verif_rt::run(policy, s.max_steps, move || {
                let sink = FaultSink { buf: sb, calls: 0, err_at };
                let mut res: Vec<String> = Vec::new();
                let mut off = 0usize;
                let mut outcome = "dropped".to_string();
                macro_rules! drive {
                    ($w:expr) => {{
                        let mut w = Some($w);
                        for c in &calls {
                            *cc.lock().unwrap() = c.op.clone();
                            match c.op.as_str() {
                                "write" => {
                                    let r = w.as_mut().unwrap().write_all(&input2[off..off + c.n]);
                                    off += c.n;
                                    match r {
                                        Ok(()) => res.push("ok".into()),
                                        Err(e) => {
                                            res.push(format!("err:{:?}", e.kind()));
                                            outcome = "err".into();
                                            break;
                                        }
                                    }
                                }
                                "flush" => match w.as_mut().unwrap().flush() {
                                    Ok(()) => res.push("ok".into()),
                                    Err(e) => {
                                        res.push(format!("err:{:?}", e.kind()));
                                        outcome = "err".into();
                                        break;
                                    }
                                },
                                "finish" => match w.take().unwrap().finish() {
                                    Ok(_) => {
                                        res.push("ok".into());
                                        outcome = "finished".into();
                                    }
                                    Err(e) => {
                                        res.push(format!("err:{:?}", e.kind()));
                                        outcome = "err".into();
                                        break;
                                    }
                                },
                                _ => break, // drop
                            }
                        }
                        if w.is_some() {
                            *cc.lock().unwrap() = "drop".into();
                        }
                        drop(w);
                    }};
                }
                if lz {
                    let mut o = LZIPOptions::with_preset(0);
                    o.lzma_options.dict_size = wdict;
                    o.member_size = NonZeroU64::new(unit as u64);
                    drive!(LZIPWriterMT::new(sink, o, workers).unwrap());
                } else {
                    let mut o = lzma2_opts();
                    o.lzma_options.dict_size = wdict;
                    o.chunk_size = NonZeroU64::new(unit as u64);
                    if preset_w {
                        o.lzma_options.preset_dict = Some(pd_w.clone());
                    }
                    drive!(LZMA2WriterMT::new(sink, o, workers).unwrap());
                }
                let mut ob = o2.lock().unwrap();
                ob.outcome = outcome;
                ob.call_results = res;
            });
            obs.lock().unwrap().compressed = sink_buf.lock().unwrap().clone();
            (vec![input], r)
        }
        f => panic!("unknown family {f}"),
    };
    verif_rt::set_fail_points(None);
    let g = rep.lock().unwrap().clone();
    obs.lock().unwrap().blocked_in = cur_call.lock().unwrap().clone();
    let o = obs.lock().unwrap();
    let v = finish_result(s, &expected, report, &g, &o);
    drop(o);
    v
}

fn finish_result(s: &Scn, expected: &[Vec<u8>], rp: Report, g: &GRep, o: &Obs) -> Value {
    let main_exited = rp.log.iter().any(|(t, op)| *t == 0 && *op == Op::Exit);
    let deadlock = rp.deadlock && !main_exited;
    let leak = rp.deadlock && main_exited;
    let all: Vec<u8> = expected.iter().flatten().cloned().collect();
    let is_reader = s.family.ends_with("reader");
    let mut v = json!({
        "id": s.id, "family": s.family, "outcome": o.outcome, "err_kind": o.err_kind, "err_msg": o.err_msg,
        "deadlock": deadlock, "leak": leak, "step_limit": rp.step_limit,
        "blocked": rp.blocked.iter().map(|(t, op)| json!([t, format!("{:?}", op)])).collect::<Vec<_>>(),
        "panicked": rp.panicked, "max_live": rp.max_live_children, "threads": rp.threads, "steps": rp.steps,
        "divergence": g.divergence, "en_mismatch": g.en_mismatch, "used": g.used,
        "main_exited": main_exited, "events": rp.log.len(),
        "last_call": o.blocked_in,
    });
    let m = v.as_object_mut().unwrap();
    if is_reader {
        m.insert("out_len".into(), json!(o.out.len()));
        m.insert("out_is_prefix".into(), json!(all.starts_with(&o.out)));
        m.insert("out_complete".into(), json!(o.out == all));
        m.insert("expected_len".into(), json!(all.len()));
        m.insert("reads_ok".into(), json!(o.reads_ok));
        m.insert("unit_count".into(), json!(o.unit_count));
        m.insert("expected_units".into(), json!(expected.len()));
        m.insert("post_err".into(), json!(o.post_err));
        m.insert("src_ops".into(), json!(o.src_ops));
        m.insert("budget_blown".into(), json!(o.budget_blown));
        m.insert("seeks".into(), json!(o.seeks));
        m.insert("file_len".into(), json!(o.file_len));
        m.insert("seeks_at_new".into(), json!(o.seeks_at_new));
        m.insert("st_ok".into(), json!(o.st_ok));
        m.insert("st_is_expected".into(), json!(o.st_out == all));
        m.insert("mt_is_prefix_of_st".into(), json!(o.st_out.starts_with(&o.out)));
        m.insert("mt_equals_st".into(), json!(o.st_out == o.out));
    } else {
        m.insert("call_results".into(), json!(o.call_results));
        m.insert("compressed_len".into(), json!(o.compressed.len()));
        m.insert("compressed_digest".into(), json!(gen::digest(&o.compressed)));
        // decode what reached the sink with the single-threaded reader
        let (dec_ok, dec, units) = if s.family == "lzip_writer" {
            let mut out = Vec::new();
            let ok = match LZIPReader::new(o.compressed.as_slice()) {
                Ok(mut r) => r.read_to_end(&mut out).is_ok(),
                Err(_) => o.compressed.is_empty() && false,
            };
            (ok, out, count_lzip_members(&o.compressed))
        } else {
            let mut out = Vec::new();
            let pd = s.preset_dict();
            let mut r = LZMA2Reader::new(o.compressed.as_slice(), MT_DICT.max(s.dict_size), if s.preset { Some(pd.as_slice()) } else { None });
            let ok = r.read_to_end(&mut out).is_ok();
            (ok, out, count_lzma2_units(&o.compressed))
        };
        m.insert("decode_ok".into(), json!(dec_ok));
        m.insert("decoded_is_prefix".into(), json!(all.starts_with(&dec)));
        m.insert("decoded_complete".into(), json!(dec == all));
        m.insert("decoded_len".into(), json!(dec.len()));
        m.insert("input_len".into(), json!(all.len()));
        m.insert("unit_sizes".into(), json!(units));
    }
    if s.log {
        m.insert("log".into(), Value::Array(rp.log.iter().map(|(t, op)| op_json(*t, op)).collect()));
    }
    if matches!(s.policy, Pol::Dfs { .. }) {
        m.insert("choices".into(), json!(g.choices));
    }
    v
}

/// Uncompressed sizes of the independent units (runs of chunks starting at a dictionary reset) of an LZMA2 stream.
pub fn count_lzma2_units(b: &[u8]) -> Vec<u64> {
    let mut units = Vec::new();
    let mut i = 0;
    while i < b.len() {
        let c = b[i];
        if c == 0 {
            break;
        }
        let (usize_, hdr, csize) = if c >= 0x80 {
            if i + 5 > b.len() {
                break;
            }
            let u = (((c & 0x1f) as u64) << 16) + ((b[i + 1] as u64) << 8) + b[i + 2] as u64 + 1;
            let cs = ((b[i + 3] as usize) << 8) + b[i + 4] as usize + 1;
            (u, if c >= 0xC0 { 6 } else { 5 }, cs)
        } else if c == 1 || c == 2 {
            if i + 3 > b.len() {
                break;
            }
            let u = ((b[i + 1] as u64) << 8) + b[i + 2] as u64 + 1;
            (u, 3, u as usize)
        } else {
            break;
        };
        if c >= 0xE0 || c == 1 || units.is_empty() {
            units.push(0);
        }
        *units.last_mut().unwrap() += usize_;
        i += hdr + csize;
    }
    units
}

pub fn count_lzip_members(b: &[u8]) -> Vec<u64> {
    // walk backwards over trailers
    let mut sizes = Vec::new();
    let mut end = b.len();
    while end >= 26 {
        let ms = u64::from_le_bytes(b[end - 8..end].try_into().unwrap()) as usize;
        let ds = u64::from_le_bytes(b[end - 16..end - 8].try_into().unwrap());
        if ms == 0 || ms > end {
            break;
        }
        sizes.push(ds);
        end -= ms;
    }
    sizes.reverse();
    sizes
}
