//! Independent strict parsers for .xz / .lz / .lzma (LZMA_Alone) / raw LZMA2 chunk streams (group A).
//!
//! Written from the format documents (xz-file-format 1.x, the lzip manual, the LZMA SDK notes); shares
//! no code with the crate under test. Every parser is total (never panics, never reads out of bounds)
//! and *tolerant*: it records what it sees, including wrong CRCs / paddings / sizes, as fields of the
//! records, and emits a `Bad` record where the structure cannot be followed any further. Whether a
//! record sequence is well-formed is decided by TLC (`WellFormed` in spec/XzContainer.tla etc.), not here.
//!
//! The records are `serde_json::Value` objects with a field `k` (record kind); see the functions.
use serde_json::{json, Value};
use sha2::Digest;

pub const CRC32: crc::Crc<u32> = crc::Crc::<u32>::new(&crc::CRC_32_ISO_HDLC);
pub const CRC64: crc::Crc<u64> = crc::Crc::<u64>::new(&crc::CRC_64_XZ);

pub const XZ_HEADER_MAGIC: [u8; 6] = [0xFD, 0x37, 0x7A, 0x58, 0x5A, 0x00];
pub const XZ_FOOTER_MAGIC: [u8; 2] = [0x59, 0x5A];

pub fn check_size(id: u8) -> Option<usize> {
    // xz-file-format 2.1.1.2: sizes by check id
    Some(match id {
        0 => 0,
        1..=3 => 4,
        4..=6 => 8,
        7..=9 => 16,
        10..=12 => 32,
        13..=15 => 64,
        _ => return None,
    })
}

pub fn check_value(id: u8, data: &[u8]) -> Option<Vec<u8>> {
    match id {
        0 => Some(vec![]),
        1 => Some(CRC32.checksum(data).to_le_bytes().to_vec()),
        4 => Some(CRC64.checksum(data).to_le_bytes().to_vec()),
        10 => Some(sha2::Sha256::digest(data).to_vec()),
        _ => None,
    }
}

/// Variable-length integer of the xz format: 1..9 bytes, 7 bits each, little endian, the last byte has
/// bit 7 clear and (if more than one byte) is not zero. Returns (value, length).
pub fn vli(b: &[u8]) -> Option<(u64, usize)> {
    let mut v: u64 = 0;
    for i in 0..9 {
        let x = *b.get(i)?;
        v |= ((x & 0x7F) as u64) << (7 * i);
        if x & 0x80 == 0 {
            if x == 0 && i > 0 {
                return None; // non-minimal encoding
            }
            return Some((v, i + 1));
        }
    }
    None
}

pub fn vli_encode(mut v: u64, out: &mut Vec<u8>) {
    while v >= 0x80 {
        out.push((v as u8) | 0x80);
        v >>= 7;
    }
    out.push(v as u8);
}

// ------------------------------------------------------------------------------------------ LZMA2
#[derive(Clone, Debug)]
pub struct Chunk {
    pub ctrl: u8,
    pub usize_: usize,
    pub csize: usize, // payload bytes following the chunk header
    pub props: Option<u8>,
    pub off: usize, // offset of the control byte
}

#[derive(Clone, Debug, Default)]
pub struct Lzma2Walk {
    pub chunks: Vec<Chunk>,
    pub terminated: bool,
    /// bytes from the start up to and including the 0x00 terminator (or up to where the walk stopped)
    pub len: usize,
    pub usize_total: usize,
    pub bad: Option<String>,
}

/// Walks the chunk headers of a raw LZMA2 stream starting at b[0].
pub fn walk_lzma2(b: &[u8]) -> Lzma2Walk {
    let mut w = Lzma2Walk::default();
    let mut p = 0usize;
    loop {
        let Some(&c) = b.get(p) else {
            w.bad = Some(format!("truncated before control byte at {p}"));
            break;
        };
        if c == 0 {
            w.terminated = true;
            p += 1;
            break;
        }
        if c >= 0x80 {
            let hl = if c >= 0xC0 { 6 } else { 5 };
            if p + hl > b.len() {
                w.bad = Some(format!("truncated LZMA chunk header at {p}"));
                break;
            }
            let us = (((c & 0x1F) as usize) << 16) + ((b[p + 1] as usize) << 8) + b[p + 2] as usize + 1;
            let cs = ((b[p + 3] as usize) << 8) + b[p + 4] as usize + 1;
            let props = if c >= 0xC0 { Some(b[p + 5]) } else { None };
            if p + hl + cs > b.len() {
                w.bad = Some(format!("truncated LZMA chunk payload at {p}"));
                break;
            }
            w.chunks.push(Chunk { ctrl: c, usize_: us, csize: cs, props, off: p });
            w.usize_total += us;
            p += hl + cs;
        } else if c <= 2 {
            if p + 3 > b.len() {
                w.bad = Some(format!("truncated uncompressed chunk header at {p}"));
                break;
            }
            let us = ((b[p + 1] as usize) << 8) + b[p + 2] as usize + 1;
            if p + 3 + us > b.len() {
                w.bad = Some(format!("truncated uncompressed chunk payload at {p}"));
                break;
            }
            w.chunks.push(Chunk { ctrl: c, usize_: us, csize: us, props: None, off: p });
            w.usize_total += us;
            p += 3 + us;
        } else {
            w.bad = Some(format!("reserved control byte {c:#x} at {p}"));
            break;
        }
    }
    w.len = p;
    w
}

/// level of an LZMA chunk: 0 nothing reset, 1 state, 2 state+props, 3 everything; uncompressed: 1 (dict reset) / 2.
pub fn chunk_event(c: &Chunk) -> Value {
    if c.ctrl >= 0x80 {
        json!({"k":"Chunk","kind":"lzma","level":((c.ctrl >> 5) & 3) as u32,"ctrl":c.ctrl,"usize":c.usize_,"csize":c.csize,
               "props": c.props.map(|p| p as i64).unwrap_or(-1)})
    } else {
        json!({"k":"Chunk","kind":"unc","level": if c.ctrl == 1 {3} else {0},"ctrl":c.ctrl,"usize":c.usize_,"csize":c.csize,"props":-1})
    }
}

pub fn lzma2_records(b: &[u8]) -> (Vec<Value>, Lzma2Walk) {
    let w = walk_lzma2(b);
    let mut v: Vec<Value> = w.chunks.iter().map(chunk_event).collect();
    if w.terminated {
        v.push(json!({"k":"End","len":w.len}));
    }
    if let Some(bad) = &w.bad {
        v.push(json!({"k":"Bad","at":w.len,"why":bad}));
    }
    (v, w)
}

// ------------------------------------------------------------------------------------------ XZ
fn u32le(b: &[u8], p: usize) -> Option<u32> {
    let s = b.get(p..p + 4)?;
    Some(u32::from_le_bytes([s[0], s[1], s[2], s[3]]))
}

#[derive(Default, Debug, Clone)]
pub struct XzParse {
    pub recs: Vec<Value>,
    /// offset after the last complete stream (incl. following stream padding that was followed by a stream or EOF)
    pub consumed: usize,
    /// end offsets of each complete stream (footer end)
    pub stream_ends: Vec<usize>,
    /// uncompressed sizes of the blocks of each stream
    pub block_usizes: Vec<Vec<usize>>,
    pub bad: bool,
}

/// Parses a whole file: streams, stream padding, trailing bytes. `content`: the expected uncompressed
/// content of the whole file (used only to evaluate the `Check` fields; None -> "ok" is null).
pub fn parse_xz(b: &[u8], content: Option<&[u8]>) -> XzParse {
    let mut out = XzParse::default();
    let mut p = 0usize;
    let mut cpos = 0usize; // position in content
    loop {
        if p >= b.len() {
            break;
        }
        // stream padding / trailing data
        if b[p] == 0 {
            let mut q = p;
            while q < b.len() && b[q] == 0 {
                q += 1;
            }
            out.recs.push(json!({"k":"StreamPad","n":q - p}));
            p = q;
            continue;
        }
        if b.len() - p < 12 || b[p..p + 6] != XZ_HEADER_MAGIC {
            out.recs.push(json!({"k":"Trailing","n":b.len() - p,"first":b[p]}));
            break;
        }
        match parse_xz_stream(b, p, content, &mut cpos, &mut out.recs) {
            Some((end, us)) => {
                p = end;
                out.consumed = end;
                out.stream_ends.push(end);
                out.block_usizes.push(us);
            }
            None => {
                out.bad = true;
                break;
            }
        }
    }
    out
}

fn bad(recs: &mut Vec<Value>, at: usize, why: &str) -> Option<(usize, Vec<usize>)> {
    recs.push(json!({"k":"Bad","at":at,"why":why}));
    None
}

fn parse_xz_stream(b: &[u8], start: usize, content: Option<&[u8]>, cpos: &mut usize, recs: &mut Vec<Value>) -> Option<(usize, Vec<usize>)> {
    let mut p = start;
    // ---- stream header (12 bytes)
    let flags = [b[p + 6], b[p + 7]];
    let crc_ok = u32le(b, p + 8) == Some(CRC32.checksum(&flags));
    let check_id = flags[1] & 0x0F;
    let flags_ok = flags[0] == 0 && flags[1] & 0xF0 == 0;
    recs.push(json!({"k":"SH","check":check_id,"crc_ok":crc_ok,"flags_ok":flags_ok,"at":p}));
    let csz = check_size(check_id).unwrap_or(0);
    p += 12;
    let mut usizes = Vec::new();
    // ---- blocks
    loop {
        let Some(&hb) = b.get(p) else {
            return bad(recs, p, "truncated where a block header or the index is expected");
        };
        if hb == 0 {
            break;
        }
        let hsize = (hb as usize + 1) * 4;
        if p + hsize > b.len() {
            return bad(recs, p, "truncated block header");
        }
        let h = &b[p..p + hsize];
        let hcrc_ok = u32le(h, hsize - 4) == Some(CRC32.checksum(&h[..hsize - 4]));
        let bf = h[1];
        let nf = (bf & 3) as usize + 1;
        let reserved_ok = bf & 0x3C == 0;
        let mut q = 2usize;
        let lim = hsize - 4;
        let mut dc: i64 = -1;
        let mut du: i64 = -1;
        if bf & 0x40 != 0 {
            match vli(&h[q..lim]) {
                Some((v, l)) => {
                    dc = v as i64;
                    q += l;
                }
                None => return bad(recs, p + q, "bad compressed-size field"),
            }
        }
        if bf & 0x80 != 0 {
            match vli(&h[q..lim]) {
                Some((v, l)) => {
                    du = v as i64;
                    q += l;
                }
                None => return bad(recs, p + q, "bad uncompressed-size field"),
            }
        }
        let mut filters = Vec::new();
        let mut fprops = Vec::new();
        let mut dictprop: i64 = -1;
        for _ in 0..nf {
            let Some((id, l)) = vli(&h[q..lim]) else { return bad(recs, p + q, "bad filter id") };
            q += l;
            let Some((ps, l)) = vli(&h[q..lim]) else { return bad(recs, p + q, "bad filter properties size") };
            q += l;
            if q + ps as usize > lim {
                return bad(recs, p + q, "filter properties exceed the header");
            }
            let pr = &h[q..q + ps as usize];
            q += ps as usize;
            if id == 0x21 && pr.len() == 1 {
                dictprop = pr[0] as i64;
            }
            filters.push(id);
            fprops.push(crate::gen::hex(pr));
        }
        let pad_ok = h[q..lim].iter().all(|&x| x == 0);
        recs.push(json!({"k":"BH","hsize":hsize,"nf":nf,"filters":filters,"fprops":fprops,"dc":dc,"du":du,"dict":dictprop,
                         "reserved_ok":reserved_ok,"pad_ok":pad_ok,"crc_ok":hcrc_ok,"at":p}));
        p += hsize;
        // ---- compressed data: the last filter must be LZMA2 (0x21) for the chunk walk
        if filters.last() != Some(&0x21) {
            return bad(recs, p, "last filter is not LZMA2; cannot delimit the compressed data");
        }
        let w = walk_lzma2(&b[p..]);
        if !w.terminated {
            return bad(recs, p + w.len, &format!("LZMA2 data of the block not terminated: {:?}", w.bad));
        }
        let first_ctrl = w.chunks.first().map(|c| c.ctrl as i64).unwrap_or(0);
        let ctrls: Vec<u8> = w.chunks.iter().map(|c| c.ctrl).take(256).collect();
        recs.push(json!({"k":"Data","csize":w.len,"usize":w.usize_total,"chunks":w.chunks.len(),"first_ctrl":first_ctrl,"ctrls":ctrls,"at":p}));
        p += w.len;
        // ---- block padding: 0..3 bytes up to the next multiple of four of the compressed size
        let want = (4 - w.len % 4) % 4;
        if p + want > b.len() {
            return bad(recs, p, "truncated block padding");
        }
        let zero = b[p..p + want].iter().all(|&x| x == 0);
        recs.push(json!({"k":"Pad","n":want,"zero":zero,"at":p}));
        p += want;
        // ---- check
        if p + csz > b.len() {
            return bad(recs, p, "truncated check field");
        }
        let ok: Value = match content {
            Some(c) => {
                let lo = (*cpos).min(c.len());
                let hi = (*cpos + w.usize_total).min(c.len());
                let full = *cpos + w.usize_total <= c.len();
                match check_value(check_id, &c[lo..hi]) {
                    Some(v) => json!(full && v == b[p..p + csz]),
                    None => Value::Null,
                }
            }
            None => Value::Null,
        };
        *cpos += w.usize_total;
        recs.push(json!({"k":"Check","n":csz,"ok":ok,"at":p}));
        p += csz;
        usizes.push(w.usize_total);
    }
    // ---- index
    let istart = p;
    p += 1;
    let Some((n, l)) = vli(b.get(p..).unwrap_or(&[])) else { return bad(recs, p, "bad number of records in the index") };
    p += l;
    let mut rs = Vec::new();
    if n > 1_000_000 {
        return bad(recs, p, "absurd number of index records");
    }
    for _ in 0..n {
        let Some((u, l)) = vli(b.get(p..).unwrap_or(&[])) else { return bad(recs, p, "bad unpadded size in the index") };
        p += l;
        let Some((c, l)) = vli(b.get(p..).unwrap_or(&[])) else { return bad(recs, p, "bad uncompressed size in the index") };
        p += l;
        rs.push(json!([u, c]));
    }
    let ipad = (4 - (p - istart) % 4) % 4;
    if p + ipad + 4 > b.len() {
        return bad(recs, p, "truncated index");
    }
    let ipad_zero = b[p..p + ipad].iter().all(|&x| x == 0);
    p += ipad;
    let icrc_ok = u32le(b, p) == Some(CRC32.checksum(&b[istart..p]));
    p += 4;
    recs.push(json!({"k":"Index","n":n,"recs":rs,"pad":ipad,"pad_zero":ipad_zero,"crc_ok":icrc_ok,"size":p - istart,"at":istart}));
    // ---- footer (12 bytes)
    if p + 12 > b.len() {
        return bad(recs, p, "truncated stream footer");
    }
    let f = &b[p..p + 12];
    let fcrc_ok = u32le(f, 0) == Some(CRC32.checksum(&f[4..10]));
    let backward = (u32le(f, 4).unwrap() as u64 + 1) * 4;
    let flags_eq = f[8..10] == flags;
    let magic_ok = f[10..12] == XZ_FOOTER_MAGIC;
    recs.push(json!({"k":"Footer","backward":backward,"flags_eq":flags_eq,"crc_ok":fcrc_ok,"magic_ok":magic_ok,"at":p}));
    p += 12;
    if !magic_ok {
        return bad(recs, p, "footer magic missing");
    }
    Some((p, usizes))
}

// ------------------------------------------------------------------------------------------ LZIP
/// lzip dictionary-size byte: bits 4-0 = log2 of the base size (12..29), bits 7-5 = numerator of the
/// sixteenths of the base size to subtract (lzip manual, "File format").
pub fn lzip_dict(byte: u8) -> Option<u64> {
    let lg = (byte & 0x1F) as u32;
    if !(12..=29).contains(&lg) {
        return None;
    }
    let base = 1u64 << lg;
    let d = base - (base / 16) * ((byte >> 5) as u64);
    if d < 4096 {
        return None;
    }
    Some(d)
}

#[derive(Default, Debug, Clone)]
pub struct LzParse {
    pub recs: Vec<Value>,
    pub members: Vec<(usize, usize)>, // (start, len)
    pub data_sizes: Vec<u64>,
    pub bad: bool,
}

/// Parses a multi-member lzip file without trailing data by walking the trailers backwards (member_size),
/// then reports the members in file order. `content`: expected uncompressed content of the whole file.
pub fn parse_lz(b: &[u8], content: Option<&[u8]>) -> LzParse {
    let mut out = LzParse::default();
    let mut end = b.len();
    let mut mem = Vec::new();
    while end > 0 {
        if end < 26 {
            out.recs.push(json!({"k":"Bad","at":0,"why":"fewer than 26 bytes before a member end"}));
            out.bad = true;
            return out;
        }
        let ms = u64::from_le_bytes(b[end - 8..end].try_into().unwrap());
        if ms < 26 || ms as usize > end {
            out.recs.push(json!({"k":"Bad","at":end - 8,"why":format!("member_size {ms} does not fit before offset {end}")}));
            out.bad = true;
            return out;
        }
        mem.push((end - ms as usize, ms as usize));
        end -= ms as usize;
    }
    mem.reverse();
    let mut cpos = 0usize;
    for &(s, l) in &mem {
        let m = &b[s..s + l];
        let magic_ok = &m[0..4] == b"LZIP";
        let dict = lzip_dict(m[5]).map(|d| d as i64).unwrap_or(-1);
        out.recs.push(json!({"k":"Hdr","magic_ok":magic_ok,"version":m[4],"dictbyte":m[5],"dict":dict,"at":s}));
        let t = &m[l - 20..];
        let crc = u32::from_le_bytes(t[0..4].try_into().unwrap());
        let ds = u64::from_le_bytes(t[4..12].try_into().unwrap());
        out.recs.push(json!({"k":"Body","csize":l - 26,"first_zero":m.get(6) == Some(&0)}));
        let crc_ok: Value = match content {
            Some(c) => {
                let lo = cpos.min(c.len());
                let hi = (cpos + ds as usize).min(c.len());
                json!(cpos + ds as usize <= c.len() && CRC32.checksum(&c[lo..hi]) == crc)
            }
            None => Value::Null,
        };
        cpos += ds as usize;
        out.recs.push(json!({"k":"Trailer","crc_ok":crc_ok,"data_size":ds,"member_size":l}));
        out.members.push((s, l));
        out.data_sizes.push(ds);
    }
    out
}

// ------------------------------------------------------------------------------------------ .lzma
/// LZMA_Alone header: properties byte, dictionary size (u32 LE), uncompressed size (u64 LE, all ones = unknown),
/// then the range-coder stream whose first byte is 0.
pub fn parse_lzma_header(b: &[u8]) -> Value {
    if b.len() < 13 + 5 {
        return json!({"k":"Bad","at":0,"why":"shorter than header + range coder initialisation"});
    }
    let props = b[0];
    let dict = u32::from_le_bytes(b[1..5].try_into().unwrap());
    let size = u64::from_le_bytes(b[5..13].try_into().unwrap());
    let (lc, lp, pb) = ((props % 9) as u32, ((props / 9) % 5) as u32, (props / 45) as u32);
    json!({"k":"LzmaHdr","props":props,"props_ok":props < 225,"lc":lc,"lp":lp,"pb":pb,"dict":dict,
           "size": if size == u64::MAX { -1i64 } else { size.min(i64::MAX as u64) as i64 },"rc0": b[13] == 0})
}
