//! Deterministic input generators (no external RNG so that every scenario is replayable from its seed).

#[derive(Clone)]
pub struct Rng(pub u64);

impl Rng {
    pub fn new(seed: u64) -> Self {
        Rng(seed.wrapping_mul(0x9E37_79B9_7F4A_7C15) ^ 0xD1B5_4A32_D192_ED03)
    }
    pub fn next(&mut self) -> u64 {
        // splitmix64
        self.0 = self.0.wrapping_add(0x9E37_79B9_7F4A_7C15);
        let mut z = self.0;
        z = (z ^ (z >> 30)).wrapping_mul(0xBF58_476D_1CE4_E5B9);
        z = (z ^ (z >> 27)).wrapping_mul(0x94D0_49BB_1331_11EB);
        z ^ (z >> 31)
    }
    pub fn below(&mut self, n: u64) -> u64 {
        if n == 0 { 0 } else { self.next() % n }
    }
    pub fn range(&mut self, lo: u64, hi: u64) -> u64 {
        lo + self.below(hi - lo + 1)
    }
    pub fn byte(&mut self) -> u8 {
        (self.next() >> 24) as u8
    }
    pub fn chance(&mut self, num: u64, den: u64) -> bool {
        self.below(den) < num
    }
}

/// Data classes with different compressibility.
pub fn data(class: &str, len: usize, seed: u64) -> Vec<u8> {
    let mut r = Rng::new(seed ^ 0xABCD);
    let mut v = Vec::with_capacity(len);
    match class {
        "zeros" => v.resize(len, 0),
        "const" => v.resize(len, (seed as u8) | 1),
        "random" => {
            while v.len() < len {
                v.push(r.byte());
            }
        }
        "periodic" => {
            let p = 1 + (seed as usize % 97);
            let pat: Vec<u8> = (0..p).map(|_| r.byte()).collect();
            for i in 0..len {
                v.push(pat[i % p]);
            }
        }
        "text" => {
            const WORDS: [&str; 16] = [
                "the ", "quick ", "brown ", "fox ", "jumps ", "over ", "lazy ", "dog ", "lorem ", "ipsum ",
                "dolor ", "sit ", "amet ", "compress ", "stream ", "\n",
            ];
            while v.len() < len {
                let w = WORDS[r.below(16) as usize].as_bytes();
                v.extend_from_slice(w);
            }
            v.truncate(len);
        }
        "mixed" => {
            // alternating compressible / incompressible segments
            while v.len() < len {
                let seg = 1 + r.below(3000) as usize;
                let kind = r.below(3);
                for i in 0..seg {
                    if v.len() >= len {
                        break;
                    }
                    v.push(match kind {
                        0 => r.byte(),
                        1 => (i % 7) as u8,
                        _ => b'a' + (r.below(4) as u8),
                    });
                }
            }
        }
        "lowent" => {
            while v.len() < len {
                v.push(b'a' + (r.below(3) as u8));
            }
        }
        "repeat_far" => {
            // random block repeated at a long distance
            let blk = (len / 3).max(1);
            let pat: Vec<u8> = (0..blk).map(|_| r.byte()).collect();
            while v.len() < len {
                let n = (len - v.len()).min(blk);
                v.extend_from_slice(&pat[..n]);
            }
        }
        _ => {
            // "seq": easily compressible but not constant
            for i in 0..len {
                v.push(((i * 7 + (seed as usize) * 13) % 251) as u8);
            }
        }
    }
    v
}

pub const CLASSES: [&str; 10] = [
    "zeros", "const", "random", "periodic", "text", "mixed", "lowent", "repeat_far", "seq", "seq",
];

pub fn hex(b: &[u8]) -> String {
    let mut s = String::with_capacity(b.len() * 2);
    for x in b {
        s.push_str(&format!("{:02x}", x));
    }
    s
}

pub fn unhex(s: &str) -> Vec<u8> {
    (0..s.len() / 2).map(|i| u8::from_str_radix(&s[2 * i..2 * i + 2], 16).unwrap()).collect()
}

/// FNV-1a 64 digest used in transcripts.
pub fn digest(b: &[u8]) -> String {
    let mut h: u64 = 0xcbf29ce484222325;
    for x in b {
        h ^= *x as u64;
        h = h.wrapping_mul(0x100000001b3);
    }
    format!("{:016x}", h)
}
