//! Scenario runner of group A (containers: C02 C03 C12 C16 C18): concretises abstract scenarios exported
//! by TLC from spec/XzContainer.tla, LzipContainer.tla, Lzma2Chunks.tla, LzmaAlone.tla into real calls on
//! XZWriter / XZReader / LZIPWriter / LZIPReader(MT) / LZMAWriter / LZMAReader / LZMA2Writer / LZMA2Reader,
//! and reports what the real code did together with the strict-parser records of every produced file
//! and the verdict of the reference implementation (liblzma).
use std::io::{Cursor, Read, Write};
use std::num::NonZeroU64;
use std::panic::{catch_unwind, AssertUnwindSafe};

use lzma_rust2::{
    CheckType, EncodeMode, FilterConfig, LZIPOptions, LZIPReader, LZIPReaderMT, LZIPWriter, LZMA2Options, LZMA2Reader, LZMA2ReaderMT,
    LZMA2Writer, LZMAOptions, LZMAReader, LZMAWriter, MFType, XZOptions, XZReader, XZWriter,
};
use serde::Deserialize;
use serde_json::{json, Value};

use crate::gen;
use crate::refb::{self, RefCfg};
use crate::strict;

// ------------------------------------------------------------------------------------------ scenario
#[derive(Deserialize, Clone, Debug, Default)]
pub struct Opt {
    #[serde(default)]
    pub preset: u32,
    /// reference encoder only: LZMA_PRESET_EXTREME
    #[serde(default)]
    pub extreme: bool,
    pub dict: Option<u32>,
    pub lc: Option<u32>,
    pub lp: Option<u32>,
    pub pb: Option<u32>,
    pub nice: Option<u32>,
    pub mf: Option<String>,
    pub mode: Option<String>,
    pub depth: Option<i32>,
    /// xz: none crc32 crc64 sha256
    #[serde(default)]
    pub check: String,
    /// xz block size / lzip member size / lzma2 chunk size
    pub limit: Option<u64>,
    #[serde(default)]
    pub filters: Vec<refb::RefFilter>,
    /// .lzma: expected uncompressed size given to the writer (None = end marker)
    pub expected: Option<u64>,
    /// .lzma: LZMAWriter::new(use_header, use_end_marker) given explicitly (default: new_use_header's choice)
    pub header: Option<bool>,
    pub marker: Option<bool>,
    /// raw LZMA2 (ours): length of a preset dictionary given to the writer and to the reader (C16 / C01)
    pub pdict: Option<usize>,
}

/// The preset dictionary of a raw LZMA2 part (deterministic text that the data classes resemble).
pub fn preset_dict_bytes(o: &Opt) -> Option<Vec<u8>> {
    o.pdict.map(|n| gen::data("text", n, 0x9D1C))
}

#[derive(Deserialize, Clone, Debug)]
pub struct Call {
    pub op: String, // write | flush | finish
    #[serde(default)]
    pub n: usize,
    /// per-call data class (lzma2 chunk recipes); default: slice of the scenario's data
    pub class: Option<String>,
    /// per-call data: same bytes as the earlier write with this index (among calls)
    pub copy_of: Option<usize>,
}

#[derive(Deserialize, Clone, Debug)]
pub struct Part {
    /// xz | lz | lzma | lzma2 | zeros | random | bytes
    pub k: String,
    /// ours | ref | forge (stream kinds)
    #[serde(default)]
    pub src: String,
    #[serde(default)]
    pub opt: Opt,
    #[serde(default)]
    pub n: usize,
    #[serde(default)]
    pub class: String,
    #[serde(default)]
    pub seed: u64,
    #[serde(default)]
    pub hex: String,
    /// ref / forge: block boundaries (input offsets)
    #[serde(default)]
    pub cuts: Vec<usize>,
    /// forge: write compressed / uncompressed size fields into the block headers
    #[serde(default)]
    pub hc: bool,
    #[serde(default)]
    pub hu: bool,
    /// ours: write call sizes (default one write)
    #[serde(default)]
    pub writes: Vec<usize>,
    /// data made of segments of different compressibility: [[class, n], ...] (overrides class / n)
    #[serde(default)]
    pub segs: Vec<(String, usize)>,
    /// ref: input offsets at which LZMA_SYNC_FLUSH is issued (LZMA2 chunk boundaries inside a block)
    #[serde(default)]
    pub syncs: Vec<usize>,
    /// forge: LZMA2 payload made of uncompressed chunks of this many bytes (0 = reference encoder output)
    #[serde(default)]
    pub piece: usize,
    /// read scenarios: the stream built for this part is repeated this many times (0 / 1 = once): long runs of
    /// members / streams without shipping thousands of part records
    #[serde(default)]
    pub rep: usize,
}

#[derive(Deserialize, Clone, Debug)]
pub struct Scn {
    pub id: String,
    pub fam: String, // xz_write lz_write lzma_write lzma2_write read dictbyte
    #[serde(default)]
    pub seed: u64,
    #[serde(default)]
    pub opt: Opt,
    #[serde(default)]
    pub class: String,
    #[serde(default)]
    pub calls: Vec<Call>,
    /// read-size cycle of the crate's reader
    #[serde(default)]
    pub reads: Vec<usize>,
    // ---- family read
    #[serde(default)]
    pub parts: Vec<Part>,
    #[serde(default)]
    pub fmt: String,
    #[serde(default)]
    pub multi: bool,
    #[serde(default)]
    pub mt: bool,
    /// the byte source of the crate's (single-threaded) reader hands out at most this many bytes per read call (cycle)
    #[serde(default)]
    pub src_chunks: Vec<usize>,
    /// writer families: the sink accepts at most this many bytes per write call (cycle); the output must equal the output
    /// into an unlimited sink
    #[serde(default)]
    pub sink_chunks: Vec<usize>,
    /// writer families: the scenario's data is a random block of this many bytes repeated cyclically
    /// (matches at exactly this distance)
    #[serde(default)]
    pub period: usize,
    /// family read: do not run the crate's reader, only assemble the input and ask the reference (used to confirm that an
    /// input on which the crate panicked is valid)
    #[serde(default)]
    pub ref_only: bool,
    /// include the strict records of the input in the result (family read)
    #[serde(default)]
    pub want_recs: bool,
    // ---- family dictbyte
    #[serde(default)]
    pub sizes: Vec<u32>,
}

// ------------------------------------------------------------------------------------------ helpers
thread_local! {
    /// position of the last CountSrc read on this thread, and what `drain` observed at / after end of stream:
    /// (source position when read() first returned 0, results of two further read() calls, source position after them)
    static SRC_POS: std::cell::Cell<usize> = const { std::cell::Cell::new(0) };
    static EOS: std::cell::RefCell<Option<(usize, Vec<String>, usize)>> = const { std::cell::RefCell::new(None) };
}

/// A sink that accepts at most `chunks[i]` bytes per write call (cycle; empty = everything): short writes are legal for io::Write.
pub struct ChunkSink {
    pub data: Vec<u8>,
    pub chunks: Vec<usize>,
    pub calls: usize,
}

impl ChunkSink {
    pub fn new(chunks: &[usize]) -> Self {
        ChunkSink { data: Vec::new(), chunks: chunks.to_vec(), calls: 0 }
    }
}

impl Write for ChunkSink {
    fn write(&mut self, buf: &[u8]) -> std::io::Result<usize> {
        let mut n = buf.len();
        if !self.chunks.is_empty() {
            n = n.min(self.chunks[self.calls % self.chunks.len()].max(1));
        }
        self.calls += 1;
        self.data.extend_from_slice(&buf[..n]);
        Ok(n)
    }
    fn flush(&mut self) -> std::io::Result<()> {
        Ok(())
    }
}

fn take_eos(fallback: usize) -> (usize, Value, usize) {
    match EOS.with(|e| e.borrow_mut().take()) {
        Some((p0, again, p1)) => (p0, json!(again), p1),
        None => (fallback, Value::Null, fallback),
    }
}

pub struct CountSrc {
    pub data: Vec<u8>,
    pub pos: usize,
    pub calls: usize,
    /// cycle of maximal read sizes (empty = no limit): a source that delivers its bytes in pieces
    pub chunks: Vec<usize>,
}

impl CountSrc {
    pub fn new(data: Vec<u8>, chunks: &[usize]) -> Self {
        CountSrc { data, pos: 0, calls: 0, chunks: chunks.to_vec() }
    }
}

impl Read for CountSrc {
    fn read(&mut self, buf: &mut [u8]) -> std::io::Result<usize> {
        let mut n = buf.len().min(self.data.len() - self.pos);
        if !self.chunks.is_empty() {
            n = n.min(self.chunks[self.calls % self.chunks.len()].max(1));
        }
        buf[..n].copy_from_slice(&self.data[self.pos..self.pos + n]);
        self.pos += n;
        SRC_POS.with(|p| p.set(self.pos));
        self.calls += 1;
        Ok(n)
    }
}

fn lzma_opts(o: &Opt) -> LZMAOptions {
    let mut l = LZMAOptions::with_preset(o.preset);
    if let Some(d) = o.dict {
        l.dict_size = d;
    }
    if let Some(v) = o.lc {
        l.lc = v;
    }
    if let Some(v) = o.lp {
        l.lp = v;
    }
    if let Some(v) = o.pb {
        l.pb = v;
    }
    if let Some(v) = o.nice {
        l.nice_len = v;
    }
    if let Some(v) = o.depth {
        l.depth_limit = v;
    }
    if let Some(m) = &o.mf {
        l.mf = if m == "hc4" { MFType::HC4 } else { MFType::BT4 };
    }
    if let Some(m) = &o.mode {
        l.mode = if m == "fast" { EncodeMode::Fast } else { EncodeMode::Normal };
    }
    l
}

fn check_type(s: &str) -> CheckType {
    match s {
        "none" => CheckType::None,
        "crc32" => CheckType::Crc32,
        "sha256" => CheckType::Sha256,
        _ => CheckType::Crc64,
    }
}

fn filter_cfg(f: &refb::RefFilter) -> Option<FilterConfig> {
    Some(match f.t.as_str() {
        "delta" => FilterConfig::new_delta(f.p),
        "x86" => FilterConfig::new_bcj_x86(f.p),
        "powerpc" => FilterConfig::new_bcj_ppc(f.p),
        "ia64" => FilterConfig::new_bcj_ia64(f.p),
        "arm" => FilterConfig::new_bcj_arm(f.p),
        "armthumb" => FilterConfig::new_bcj_arm_thumb(f.p),
        "sparc" => FilterConfig::new_bcj_sparc(f.p),
        "arm64" => FilterConfig::new_bcj_arm64(f.p),
        "riscv" => FilterConfig::new_bcj_risc_v(f.p),
        _ => return None,
    })
}

fn xz_opts(o: &Opt) -> XZOptions {
    let mut x = XZOptions::default();
    x.lzma_options = lzma_opts(o);
    x.check_type = check_type(&o.check);
    x.block_size = o.limit.and_then(NonZeroU64::new);
    x.filters = o.filters.iter().filter_map(filter_cfg).collect();
    x
}

fn ref_cfg(o: &Opt) -> RefCfg {
    RefCfg {
        preset: o.preset,
        extreme: o.extreme,
        dict: o.dict,
        lc: o.lc,
        lp: o.lp,
        pb: o.pb,
        nice: o.nice,
        mf: o.mf.clone(),
        mode: o.mode.clone(),
        depth: o.depth.map(|d| d.max(0) as u32),
        filters: o.filters.clone(),
        check: o.check.clone(),
        ..Default::default()
    }
}

fn errs(e: &std::io::Error) -> String {
    format!("{:?}: {}", e.kind(), e)
}

/// Drains `r` with the read-size cycle `reads` (default 4096). Returns (bytes, error).
fn drain<R: Read>(r: &mut R, reads: &[usize]) -> (Vec<u8>, Option<String>) {
    EOS.with(|e| *e.borrow_mut() = None);
    let mut out = Vec::new();
    let mut i = 0usize;
    let mut buf = vec![0u8; reads.iter().copied().max().unwrap_or(4096).max(1)];
    loop {
        let k = if reads.is_empty() { 4096 } else { reads[i % reads.len()].max(1) };
        i += 1;
        match r.read(&mut buf[..k]) {
            Ok(0) => {
                // end of stream: a caller may well call read() again (read_to_end, buffered readers): it must get Ok(0)
                // again and the source must not move
                let p0 = SRC_POS.with(|p| p.get());
                let again: Vec<String> = (0..2)
                    .map(|_| match r.read(&mut buf[..k]) {
                        Ok(n) => format!("ok{n}"),
                        Err(e) => format!("err:{}", errs(&e)),
                    })
                    .collect();
                EOS.with(|e| *e.borrow_mut() = Some((p0, again, SRC_POS.with(|p| p.get()))));
                return (out, None);
            }
            Ok(n) => out.extend_from_slice(&buf[..n]),
            Err(e) => return (out, Some(errs(&e))),
        }
        if out.len() > (1 << 30) {
            return (out, Some("runaway output".into()));
        }
    }
}

fn cmp(out: &[u8], want: &[u8]) -> Value {
    json!({"len": out.len(), "equal": out == want,
           "prefix": out.len() <= want.len() && out == &want[..out.len()]})
}

fn reference(kind: &str, file: &[u8], want: &[u8], dict: u32) -> Value {
    let r = match kind {
        "xz" => refb::dec_xz(file, true),
        "lz" => refb::dec_lzip(file, true),
        "lzma" => refb::dec_lzma(file),
        _ => refb::dec_raw_lzma2(file, dict),
    };
    match r {
        Ok(o) => json!({"ok": o.end, "equal": o.data == want, "len": o.data.len(), "total_in": o.total_in, "err": Value::Null}),
        Err(e) => json!({"ok": false, "equal": false, "len": 0, "total_in": 0, "err": e}),
    }
}

// ------------------------------------------------------------------------------------------ writers
struct Script<'a> {
    calls: &'a [Call],
    data: Vec<u8>,    // everything written, in order
    cuts: Vec<usize>, // data offset before each call
}

fn script(s: &Scn) -> Script<'_> {
    let total: usize = s.calls.iter().filter(|c| c.op == "write" && c.class.is_none() && c.copy_of.is_none()).map(|c| c.n).sum();
    let base = if s.period > 0 {
        let blk = gen::data("random", s.period, s.seed);
        blk.iter().copied().cycle().take(total).collect::<Vec<u8>>()
    } else {
        gen::data(if s.class.is_empty() { "text" } else { &s.class }, total, s.seed)
    };
    let mut bpos = 0usize;
    let mut data = Vec::new();
    let mut cuts = Vec::new();
    let mut segs: Vec<(usize, usize)> = Vec::new();
    for (i, c) in s.calls.iter().enumerate() {
        cuts.push(data.len());
        let st = data.len();
        if c.op == "write" {
            if let Some(k) = c.copy_of {
                let (a, b) = segs.get(k).copied().unwrap_or((0, 0));
                let seg: Vec<u8> = data[a..b].iter().copied().cycle().take(if b > a { c.n } else { 0 }).collect();
                data.extend_from_slice(&seg);
            } else if let Some(cl) = &c.class {
                data.extend_from_slice(&gen::data(cl, c.n, s.seed.wrapping_mul(31).wrapping_add(i as u64)));
            } else {
                data.extend_from_slice(&base[bpos..bpos + c.n]);
                bpos += c.n;
            }
        }
        segs.push((st, data.len()));
    }
    Script { calls: &s.calls, data, cuts }
}

/// Runs the call script against a writer given as three closures. Returns (call results, finished ok).
fn drive<W>(
    sc: &Script,
    w: W,
    mut write: impl FnMut(&mut W, &[u8]) -> std::io::Result<usize>,
    mut flush: impl FnMut(&mut W) -> std::io::Result<()>,
    finish: impl FnOnce(W) -> std::io::Result<Vec<u8>>,
) -> (Vec<Value>, Option<Vec<u8>>) {
    let mut res = Vec::new();
    let mut w = Some(w);
    let mut file = None;
    let mut finish = Some(finish);
    for (i, c) in sc.calls.iter().enumerate() {
        let end = if i + 1 < sc.cuts.len() { sc.cuts[i + 1] } else { sc.data.len() };
        let seg = &sc.data[sc.cuts[i]..end];
        match c.op.as_str() {
            "write" => {
                let Some(wr) = w.as_mut() else { break };
                // write_all semantics, recording the first return value
                let mut off = 0usize;
                let mut first: Option<usize> = None;
                let mut err = None;
                if seg.is_empty() {
                    match write(wr, seg) {
                        Ok(n) => first = Some(n),
                        Err(e) => err = Some(errs(&e)),
                    }
                }
                while off < seg.len() {
                    match write(wr, &seg[off..]) {
                        Ok(0) => {
                            err = Some("write returned 0".into());
                            break;
                        }
                        Ok(n) => {
                            first.get_or_insert(n);
                            off += n;
                        }
                        Err(e) => {
                            err = Some(errs(&e));
                            break;
                        }
                    }
                }
                res.push(json!({"op":"write","n":seg.len(),"ok":err.is_none(),"first":first,"err":err}));
            }
            "flush" => {
                let Some(wr) = w.as_mut() else { break };
                let r = flush(wr);
                res.push(json!({"op":"flush","ok":r.is_ok(),"err":r.err().map(|e| errs(&e))}));
            }
            _ => {
                let Some(wr) = w.take() else { break };
                match (finish.take().unwrap())(wr) {
                    Ok(f) => {
                        res.push(json!({"op":"finish","ok":true}));
                        file = Some(f);
                    }
                    Err(e) => res.push(json!({"op":"finish","ok":false,"err":errs(&e)})),
                }
                break;
            }
        }
    }
    (res, file)
}

/// the bytes whose writes were accepted (what a reader must reproduce)
fn accepted(sc: &Script, res: &[Value]) -> Vec<u8> {
    let mut v = Vec::new();
    for (i, r) in res.iter().enumerate() {
        if r["op"] == "write" && r["ok"] == true {
            let end = if i + 1 < sc.cuts.len() { sc.cuts[i + 1] } else { sc.data.len() };
            v.extend_from_slice(&sc.data[sc.cuts[i]..end]);
        }
    }
    v
}

fn run_xz_write(s: &Scn) -> Value {
    let sc = script(s);
    let produce = |chunks: &[usize]| -> Result<(Vec<Value>, Option<Vec<u8>>), String> {
        let w = XZWriter::new(ChunkSink::new(chunks), xz_opts(&s.opt)).map_err(|e| errs(&e))?;
        Ok(drive(&sc, w, |w, b| w.write(b), |w| w.flush(), |w| w.finish().map(|k| k.data)))
    };
    let (res, file) = match produce(&s.sink_chunks) {
        Ok(x) => x,
        Err(e) => return json!({"outcome":"new_err","err":e}),
    };
    let want = accepted(&sc, &res);
    let Some(file) = file else { return json!({"outcome":"no_file","calls":res}) };
    let sink_equal = if s.sink_chunks.is_empty() { Value::Null } else { json!(produce(&[]).ok().and_then(|x| x.1).as_deref() == Some(&file[..])) };
    let p = strict::parse_xz(&file, Some(&want));
    let mut src = CountSrc::new(file.clone(), &s.src_chunks);
    let mut rd = XZReader::new(&mut src, false);
    let (out, err) = drain(&mut rd, &s.reads);
    drop(rd);
    let (c0, again, c1) = take_eos(src.pos);
    json!({"outcome":"ok","calls":res,"file_len":file.len(),"recs":p.recs,"block_usizes":p.block_usizes,"strict_bad":p.bad,
           "rt":{"ok":err.is_none(),"err":err,"cmp":cmp(&out,&want)},"consumed":c0,"again":again,"consumed_after":c1,
           "ref":reference("xz",&file,&want,0),"input_len":want.len(),"digest":gen::digest(&file),"sink_equal":sink_equal,
           "head": gen::hex(&file[..file.len().min(96)])})
}

fn run_lz_write(s: &Scn) -> Value {
    let sc = script(s);
    let produce = |chunks: &[usize], opt: &Opt| -> (Vec<Value>, Option<Vec<u8>>) {
        let mut o = LZIPOptions { lzma_options: lzma_opts(opt), member_size: None };
        o.member_size = opt.limit.and_then(NonZeroU64::new);
        let w = LZIPWriter::new(ChunkSink::new(chunks), o);
        drive(&sc, w, |w, b| w.write(b), |w| w.flush(), |w| w.finish().map(|k| k.data))
    };
    let (res, file) = produce(&s.sink_chunks, &s.opt);
    let want = accepted(&sc, &res);
    let Some(file) = file else { return json!({"outcome":"no_file","calls":res}) };
    let sink_equal = if s.sink_chunks.is_empty() { Value::Null } else { json!(produce(&[], &s.opt).1.as_deref() == Some(&file[..])) };
    // lc / lp / pb are not LZIP options (the format fixes 3 / 0 / 2): the writer must ignore them
    let lclppb_ignored = if s.opt.lc.is_some() || s.opt.lp.is_some() || s.opt.pb.is_some() {
        let mut d = s.opt.clone();
        d.lc = None;
        d.lp = None;
        d.pb = None;
        json!(produce(&s.sink_chunks, &d).1.as_deref() == Some(&file[..]))
    } else {
        Value::Null
    };
    let p = strict::parse_lz(&file, Some(&want));
    let mut src = CountSrc::new(file.clone(), &s.src_chunks);
    let (out, err) = match LZIPReader::new(&mut src) {
        Ok(mut rd) => drain(&mut rd, &s.reads),
        Err(e) => (vec![], Some(errs(&e))),
    };
    let (c0, again, c1) = take_eos(src.pos);
    // multi-threaded reader: member order and count
    let mt = match LZIPReaderMT::new(Cursor::new(file.clone()), 2) {
        Ok(mut rd) => {
            let (o2, e2) = drain(&mut rd, &s.reads);
            json!({"ok":e2.is_none(),"err":e2,"cmp":cmp(&o2,&want),"member_count":rd.member_count()})
        }
        Err(e) => json!({"ok":false,"err":errs(&e)}),
    };
    json!({"outcome":"ok","calls":res,"file_len":file.len(),"recs":p.recs,"data_sizes":p.data_sizes,"strict_bad":p.bad,
           "rt":{"ok":err.is_none(),"err":err,"cmp":cmp(&out,&want)},"consumed":c0,"again":again,"consumed_after":c1,"mt":mt,
           "ref":reference("lz",&file,&want,0),"input_len":want.len(),"digest":gen::digest(&file),"sink_equal":sink_equal,
           "lclppb_ignored":lclppb_ignored})
}

fn run_lzma_write(s: &Scn) -> Value {
    let sc = script(s);
    let lo = lzma_opts(&s.opt);
    let use_header = s.opt.header.unwrap_or(true);
    let marker = s.opt.marker.unwrap_or(s.opt.expected.is_none());
    let w = match LZMAWriter::new(ChunkSink::new(&s.sink_chunks), &lo, use_header, marker, s.opt.expected) {
        Ok(w) => w,
        Err(e) => return json!({"outcome":"new_err","err":errs(&e)}),
    };
    let (res, file) = drive(&sc, w, |w, b| w.write(b), |w| w.flush(), |w| w.finish().map(|k| k.data));
    let want = accepted(&sc, &res);
    let Some(file) = file else { return json!({"outcome":"no_file","calls":res,"input_len":want.len()}) };
    let hdr = if use_header { strict::parse_lzma_header(&file) } else { json!({"k":"NoHdr","size":-2,"rc0": file.first() == Some(&0)}) };
    let mut src = CountSrc::new(file.clone(), &s.src_chunks);
    let (out, err) = if use_header {
        match LZMAReader::new_mem_limit(&mut src, u32::MAX, None) {
            Ok(mut rd) => drain(&mut rd, &s.reads),
            Err(e) => (vec![], Some(errs(&e))),
        }
    } else {
        // raw stream: the caller has to know the parameters; without an end marker also the size
        let size = if marker { u64::MAX } else { want.len() as u64 };
        match LZMAReader::new(&mut src, size, lo.lc, lo.lp, lo.pb, lo.dict_size, None) {
            Ok(mut rd) => drain(&mut rd, &s.reads),
            Err(e) => (vec![], Some(errs(&e))),
        }
    };
    let (c0, again, c1) = take_eos(src.pos);
    let rf = if use_header { reference("lzma", &file, &want, 0) } else { json!({"ok":true,"equal":true,"skipped":true,"err":Value::Null,"len":want.len(),"total_in":file.len()}) };
    json!({"outcome":"ok","calls":res,"file_len":file.len(),"recs":[hdr],"header":use_header,"marker":marker,
           "rt":{"ok":err.is_none(),"err":err,"cmp":cmp(&out,&want)},"consumed":c0,"again":again,"consumed_after":c1,
           "ref":rf,"input_len":want.len(),"digest":gen::digest(&file)})
}

fn run_lzma2_write(s: &Scn) -> Value {
    let sc = script(s);
    let lo = lzma_opts(&s.opt);
    let dict = lo.dict_size;
    let o = LZMA2Options { lzma_options: lo, chunk_size: s.opt.limit.and_then(NonZeroU64::new) };
    let w = LZMA2Writer::new(ChunkSink::new(&s.sink_chunks), o);
    let (res, file) = drive(&sc, w, |w, b| w.write(b), |w| w.flush(), |w| w.finish().map(|k| k.data));
    let want = accepted(&sc, &res);
    let Some(file) = file else { return json!({"outcome":"no_file","calls":res}) };
    let (recs, walk) = strict::lzma2_records(&file);
    let mut src = CountSrc::new(file.clone(), &s.src_chunks);
    let mut rd = LZMA2Reader::new(&mut src, dict, None);
    let (out, err) = drain(&mut rd, &s.reads);
    drop(rd);
    let (c0, again, c1) = take_eos(src.pos);
    // multi-threaded reader: same bytes, and the number of units it cut
    let mt = {
        let mut rd = LZMA2ReaderMT::new(Cursor::new(file.clone()), dict, None, 2);
        let (o2, e2) = drain(&mut rd, &s.reads);
        json!({"ok":e2.is_none(),"err":e2,"cmp":cmp(&o2,&want),"chunk_count":rd.chunk_count()})
    };
    json!({"outcome":"ok","calls":res,"file_len":file.len(),"recs":recs,"walk_len":walk.len,"walk_usize":walk.usize_total,"mt":mt,
           "rt":{"ok":err.is_none(),"err":err,"cmp":cmp(&out,&want)},"consumed":c0,"again":again,"consumed_after":c1,
           "ref":reference("lzma2",&file,&want,dict),"input_len":want.len(),"digest":gen::digest(&file)})
}

// ------------------------------------------------------------------------------------------ reading assembled inputs
fn ours_stream(kind: &str, p: &Part, data: &[u8]) -> Result<Vec<u8>, String> {
    let writes: Vec<usize> = if p.writes.is_empty() { vec![data.len()] } else { p.writes.clone() };
    let mut cuts = Vec::new();
    let mut pos = 0usize;
    for w in writes {
        let e = (pos + w).min(data.len());
        cuts.push((pos, e));
        pos = e;
    }
    if pos < data.len() {
        cuts.push((pos, data.len()));
    }
    let io = |e: std::io::Error| errs(&e);
    match kind {
        "xz" => {
            let mut w = XZWriter::new(Vec::new(), xz_opts(&p.opt)).map_err(io)?;
            for (a, b) in cuts {
                w.write_all(&data[a..b]).map_err(io)?;
            }
            w.finish().map_err(io)
        }
        "lz" => {
            let mut o = LZIPOptions { lzma_options: lzma_opts(&p.opt), member_size: None };
            o.member_size = p.opt.limit.and_then(NonZeroU64::new);
            let mut w = LZIPWriter::new(Vec::new(), o);
            for (a, b) in cuts {
                w.write_all(&data[a..b]).map_err(io)?;
            }
            w.finish().map_err(io)
        }
        "lzma" => {
            let mut w = LZMAWriter::new_use_header(Vec::new(), &lzma_opts(&p.opt), p.opt.expected).map_err(io)?;
            for (a, b) in cuts {
                w.write_all(&data[a..b]).map_err(io)?;
            }
            w.finish().map_err(io)
        }
        _ => {
            let mut o = LZMA2Options { lzma_options: lzma_opts(&p.opt), chunk_size: p.opt.limit.and_then(NonZeroU64::new) };
            o.lzma_options.preset_dict = preset_dict_bytes(&p.opt);
            let mut w = LZMA2Writer::new(Vec::new(), o);
            for (a, b) in cuts {
                w.write_all(&data[a..b]).map_err(io)?;
            }
            w.finish().map_err(io)
        }
    }
}

fn ref_stream(kind: &str, p: &Part, data: &[u8]) -> Result<Vec<u8>, String> {
    let mut c = ref_cfg(&p.opt);
    c.flush_at = p.cuts.clone();
    c.sync_at = p.syncs.clone();
    match kind {
        "xz" => refb::enc_xz(data, &c),
        "lzma" => refb::enc_lzma(data, &c),
        "lzma2" => {
            c.sync_at.extend(p.cuts.iter().copied());
            refb::enc_raw_lzma2(data, &c)
        }
        _ => Err("the reference has no lzip encoder".into()),
    }
}

fn run_read(s: &Scn) -> Value {
    let mut input = Vec::new();
    let mut ends = Vec::new();
    let mut contents: Vec<Vec<u8>> = Vec::new();
    let mut kinds = Vec::new();
    for (i, p) in s.parts.iter().enumerate() {
        let mut content = Vec::new();
        match p.k.as_str() {
            "zeros" => input.extend(std::iter::repeat(0u8).take(p.n)),
            "random" => {
                let mut v = gen::data("random", p.n, p.seed ^ s.seed ^ (i as u64) << 8);
                // never start with a zero byte or a format magic byte by accident
                if let Some(x) = v.first_mut() {
                    if *x == 0 || *x == 0xFD || *x == b'L' {
                        *x = 0x55;
                    }
                }
                input.extend(v);
            }
            "bytes" => input.extend(gen::unhex(&p.hex)),
            k => {
                let data = if p.segs.is_empty() {
                    gen::data(if p.class.is_empty() { "text" } else { &p.class }, p.n, p.seed ^ s.seed.rotate_left(7))
                } else {
                    let mut d = Vec::new();
                    for (si, (cl, n)) in p.segs.iter().enumerate() {
                        d.extend(gen::data(cl, *n, p.seed ^ (si as u64) << 20));
                    }
                    d
                };
                let r = match p.src.as_str() {
                    "ref" => ref_stream(k, p, &data),
                    "forge" if k == "lzma2" => Ok(crate::forge::lzma2_unc(&data, if p.piece == 0 { 65536 } else { p.piece })),
                    "forge" => crate::forge::xz_stream(&data, &p.cuts, &ref_cfg(&p.opt), p.hc, p.hu, p.piece),
                    _ => ours_stream(k, p, &data),
                };
                match r {
                    Ok(f) => {
                        for _ in 0..p.rep.max(1) {
                            input.extend_from_slice(&f);
                        }
                    }
                    Err(e) => return json!({"outcome":"build_err","part":i,"err":e}),
                }
                for _ in 0..p.rep.max(1) {
                    content.extend_from_slice(&data);
                }
            }
        }
        ends.push(input.len());
        kinds.push(p.k.clone());
        contents.push(content);
    }
    // expected outputs: concatenation of the first j stream parts
    let mut src = CountSrc::new(input.clone(), &s.src_chunks);
    let dict = s.parts.iter().find(|p| p.k == "lzma2").and_then(|p| p.opt.dict).unwrap_or(LZMAOptions::with_preset(s.parts.first().map(|p| p.opt.preset).unwrap_or(6)).dict_size);
    let mut member_count: i64 = -1;
    let (out, err): (Vec<u8>, Option<String>) = match s.fmt.as_str() {
        _ if s.ref_only => (vec![], Some("ref_only".into())),
        "xz" => {
            let mut rd = XZReader::new(&mut src, s.multi);
            drain(&mut rd, &s.reads)
        }
        "lz" if s.mt => match LZIPReaderMT::new(Cursor::new(input.clone()), 2) {
            Ok(mut rd) => {
                let r = drain(&mut rd, &s.reads);
                member_count = rd.member_count() as i64;
                r
            }
            Err(e) => (vec![], Some(errs(&e))),
        },
        "lz" => match LZIPReader::new(&mut src) {
            Ok(mut rd) => drain(&mut rd, &s.reads),
            Err(e) => (vec![], Some(errs(&e))),
        },
        "lzma" => match LZMAReader::new_mem_limit(&mut src, u32::MAX, None) {
            Ok(mut rd) => drain(&mut rd, &s.reads),
            Err(e) => (vec![], Some(errs(&e))),
        },
        _ => {
            let pd = s.parts.iter().find(|p| p.k == "lzma2").and_then(|p| preset_dict_bytes(&p.opt));
            let mut rd = LZMA2Reader::new(&mut src, dict, pd.as_deref());
            drain(&mut rd, &s.reads)
        }
    };
    let (c0, again, c1) = if s.mt { (src.pos, Value::Null, src.pos) } else { take_eos(src.pos) };
    let mut matched: i64 = -1;
    let mut acc: Vec<u8> = Vec::new();
    if out.is_empty() {
        matched = 0;
    }
    let mut nstreams = 0;
    for (i, c) in contents.iter().enumerate() {
        if matches!(kinds[i].as_str(), "zeros" | "random" | "bytes") {
            continue;
        }
        nstreams += 1;
        acc.extend_from_slice(c);
        if acc == out {
            matched = nstreams; // the largest j with out == concat(first j streams)
        }
    }
    // reference verdict on the same input
    let rf = match s.fmt.as_str() {
        "xz" => refb::dec_xz(&input, s.multi),
        "lz" => refb::dec_lzip(&input, true),
        "lzma" => refb::dec_lzma(&input),
        _ => refb::dec_raw_lzma2(&input, dict),
    };
    let rfv = match rf {
        Ok(o) => json!({"ok":o.end,"len":o.data.len(),"total_in":o.total_in,"digest":gen::digest(&o.data),"err":Value::Null}),
        Err(e) => json!({"ok":false,"err":e,"len":0,"total_in":0}),
    };
    let recs: Value = if s.want_recs {
        match s.fmt.as_str() {
            "xz" => {
                let all: Vec<u8> = contents.concat();
                json!(strict::parse_xz(&input, Some(&all)).recs)
            }
            "lz" => {
                let all: Vec<u8> = contents.concat();
                json!(strict::parse_lz(&input, Some(&all)).recs)
            }
            "lzma" => json!([strict::parse_lzma_header(&input)]),
            _ => json!(strict::lzma2_records(&input).0),
        }
    } else {
        Value::Null
    };
    json!({"outcome": if err.is_none() {"eof"} else {"err"}, "err": err, "out_len": out.len(), "out_digest": gen::digest(&out),
           "matched": matched, "consumed": c0, "again": again, "consumed_after": c1, "ends": ends, "input_len": input.len(), "ref": rfv, "recs": recs,
           "member_count": member_count, "content_lens": contents.iter().map(|c| c.len()).collect::<Vec<_>>(),
           "src_calls": src.calls})
}

/// LZIP dictionary-size byte. For every requested size: what the crate's `encode_dict_size` returns (hook H6)
/// and what `decode_dict_size` makes of that byte; for sizes up to 1 MiB also the header byte the real
/// LZIPWriter emits (empty member). `bytes`: decode of every listed byte value.
fn run_dictbyte(s: &Scn) -> Value {
    let mut rows = Vec::new();
    for &d in &s.sizes {
        let enc = lzma_rust2::verif_lzip_dict::encode(d);
        let dec = enc.and_then(lzma_rust2::verif_lzip_dict::decode);
        let mut row = json!({"d":d,"enc":enc.map(|x| x as i64).unwrap_or(-1),"dec":dec.map(|x| x as i64).unwrap_or(-1),"hdr":-2});
        if d <= (1 << 20) {
            let mut lo = LZMAOptions::with_preset(0);
            lo.dict_size = d;
            let w = LZIPWriter::new(Vec::new(), LZIPOptions { lzma_options: lo, member_size: None });
            row["hdr"] = match w.finish() {
                Ok(f) if f.len() >= 6 => json!(f[5]),
                _ => json!(-1),
            };
        }
        rows.push(row);
    }
    let bytes: Vec<Value> = (0u32..256).map(|b| json!(lzma_rust2::verif_lzip_dict::decode(b as u8).map(|x| x as i64).unwrap_or(0))).collect();
    json!({"outcome":"ok","rows":rows,"bytes":bytes})
}

pub fn run_scenario(s: &Scn) -> Value {
    let r = catch_unwind(AssertUnwindSafe(|| match s.fam.as_str() {
        "xz_write" => run_xz_write(s),
        "lz_write" => run_lz_write(s),
        "lzma_write" => run_lzma_write(s),
        "lzma2_write" => run_lzma2_write(s),
        "read" => run_read(s),
        "dictbyte" => run_dictbyte(s),
        other => json!({"outcome":"bad_family","err":other}),
    }));
    let mut v = match r {
        Ok(v) => v,
        Err(p) => {
            let msg = p.downcast_ref::<String>().cloned().or_else(|| p.downcast_ref::<&str>().map(|x| x.to_string())).unwrap_or_default();
            json!({"outcome":"panic","err":msg})
        }
    };
    v["id"] = json!(s.id);
    v["fam"] = json!(s.fam);
    v
}
