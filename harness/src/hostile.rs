//! Case runner of group B (C04 corrupted input, C05 I/O faults, C06 hostile input): every public decoder over
//! a fault-injecting source, every public writer over a fault-injecting sink, with panic containment, a
//! watchdog, structural non-termination detection and a counting allocator. One JSON job per line in, one
//! JSON result per line out (binary `vh_hostile`). The verdicts are taken by tools/checks/c04.py, c05.py,
//! c06.py; this file only reports what the real code did.
use std::collections::HashMap;
use std::io::{self, ErrorKind, Read, Write};
use std::num::NonZeroU64;
use std::sync::atomic::{AtomicBool, AtomicUsize, Ordering};
use std::sync::{mpsc, Arc, Mutex};
use std::time::{Duration, Instant};

use lzma_rust2::filter::bcj::{BCJReader, BCJWriter};
use lzma_rust2::filter::bcj2::BCJ2Reader;
use lzma_rust2::filter::delta::{DeltaReader, DeltaWriter};
use lzma_rust2::*;
use serde::Deserialize;
use serde_json::{json, Value};

use crate::faultio::{self, kind_name, FaultSink, FaultSource, Script, Sh};
use crate::corrupt::{apply_mutation, Mutn};
use crate::gen;

// ------------------------------------------------------------------ counting allocator
pub mod alloc {
    use std::alloc::{GlobalAlloc, Layout, System};
    use std::sync::atomic::{AtomicUsize, Ordering};

    pub static CUR: AtomicUsize = AtomicUsize::new(0);
    pub static PEAK: AtomicUsize = AtomicUsize::new(0);
    pub static LARGEST: AtomicUsize = AtomicUsize::new(0);
    /// requests above this size fail (returns null): keeps a hostile 2^63-byte request from being attempted;
    /// the crate's reaction (capacity overflow panic / alloc error abort) is then data
    pub static CAP: AtomicUsize = AtomicUsize::new(usize::MAX);

    pub struct CountingAlloc;

    #[inline]
    fn add(n: usize) {
        let c = CUR.fetch_add(n, Ordering::Relaxed) + n;
        PEAK.fetch_max(c, Ordering::Relaxed);
        LARGEST.fetch_max(n, Ordering::Relaxed);
    }

    unsafe impl GlobalAlloc for CountingAlloc {
        unsafe fn alloc(&self, l: Layout) -> *mut u8 {
            if l.size() > CAP.load(Ordering::Relaxed) {
                return std::ptr::null_mut();
            }
            let p = System.alloc(l);
            if !p.is_null() {
                add(l.size());
            }
            p
        }
        unsafe fn alloc_zeroed(&self, l: Layout) -> *mut u8 {
            if l.size() > CAP.load(Ordering::Relaxed) {
                return std::ptr::null_mut();
            }
            let p = System.alloc_zeroed(l);
            if !p.is_null() {
                add(l.size());
            }
            p
        }
        unsafe fn dealloc(&self, p: *mut u8, l: Layout) {
            System.dealloc(p, l);
            CUR.fetch_sub(l.size(), Ordering::Relaxed);
        }
        unsafe fn realloc(&self, p: *mut u8, l: Layout, new: usize) -> *mut u8 {
            if new > CAP.load(Ordering::Relaxed) {
                return std::ptr::null_mut();
            }
            let q = System.realloc(p, l, new);
            if !q.is_null() {
                if new >= l.size() {
                    add(new - l.size());
                } else {
                    CUR.fetch_sub(l.size() - new, Ordering::Relaxed);
                }
            }
            q
        }
    }

    pub fn begin() -> usize {
        let c = CUR.load(Ordering::Relaxed);
        PEAK.store(c, Ordering::Relaxed);
        LARGEST.store(0, Ordering::Relaxed);
        c
    }
    pub fn peak_since(base: usize) -> usize {
        PEAK.load(Ordering::Relaxed).saturating_sub(base)
    }
}

// ------------------------------------------------------------------ job format
fn d_buf() -> Vec<usize> {
    vec![4096]
}
fn d_stack() -> usize {
    2048
}
fn d_timeout() -> u64 {
    120
}
fn d_workers() -> u32 {
    2
}

#[derive(Deserialize, Clone, Debug, Default)]
pub struct DecSpec {
    pub kind: String,
    #[serde(default)]
    pub dict: u32,
    #[serde(default)]
    pub props: u8,
    #[serde(default)]
    pub usize: Option<u64>,
    #[serde(default)]
    pub lclppb: Option<(u32, u32, u32)>,
    #[serde(default)]
    pub mem_limit_kb: Option<u32>,
    #[serde(default = "d_workers")]
    pub workers: u32,
    #[serde(default)]
    pub distance: usize,
    #[serde(default)]
    pub start_pos: usize,
    #[serde(default)]
    pub arch: String,
    #[serde(default)]
    pub multi: bool,
    #[serde(default)]
    pub bcj2_size: u64,
    /// bcj2: which of the four inputs gets the fault script
    #[serde(default)]
    pub script_on: usize,
}

#[derive(Deserialize, Clone, Debug, Default)]
pub struct EncSpec {
    pub kind: String,
    #[serde(default)]
    pub preset: u32,
    #[serde(default)]
    pub dict: Option<u32>,
    #[serde(default)]
    pub check: String,
    #[serde(default)]
    pub block_size: Option<u64>,
    #[serde(default)]
    pub member_size: Option<u64>,
    #[serde(default)]
    pub chunk_size: Option<u64>,
    #[serde(default)]
    pub arch: String,
    #[serde(default)]
    pub distance: usize,
    #[serde(default)]
    pub start_pos: usize,
    #[serde(default = "d_workers")]
    pub workers: u32,
    /// xz pre-filters: ("delta", distance) | ("x86", start) | ...
    #[serde(default)]
    pub filters: Vec<(String, u32)>,
    /// lzma: "header_known" | "header_eos" | "raw_eos" | "raw"
    #[serde(default)]
    pub lzma_mode: String,
}

#[derive(Deserialize, Clone, Debug, Default)]
pub struct Job {
    #[serde(default)]
    pub id: String,
    /// "def" | "decode" | "encode"
    pub op: String,
    #[serde(default)]
    pub name: String,
    #[serde(default)]
    pub base: Option<String>,
    #[serde(default)]
    pub input: Option<String>,
    /// bcj2: the three further inputs (call, jump, rc) as base names or hex
    #[serde(default)]
    pub inputs: Vec<String>,
    #[serde(default)]
    pub expect: Option<String>,
    #[serde(default)]
    pub dec: DecSpec,
    #[serde(default)]
    pub enc: EncSpec,
    #[serde(default)]
    pub script: Script,
    #[serde(default)]
    pub mutn: Option<Mutn>,
    #[serde(default = "d_buf")]
    pub bufs: Vec<usize>,
    #[serde(default)]
    pub out_limit: Option<u64>,
    #[serde(default)]
    pub log: bool,
    #[serde(default = "d_stack")]
    pub stack_kb: usize,
    #[serde(default = "d_timeout")]
    pub timeout_s: u64,
    #[serde(default)]
    pub keep_out: bool,
    #[serde(default)]
    pub keep_input: bool,
    /// encode: write partition (cycled), flush after every k-th write
    #[serde(default)]
    pub writes: Vec<usize>,
    #[serde(default)]
    pub flush_every: Option<usize>,
    #[serde(default)]
    pub alloc_cap: Option<usize>,
    /// decode: call read() again after end of stream / after an error and report what happens
    #[serde(default)]
    pub probe: bool,
    /// decode: number of further read() calls (7-byte buffer) after the first error whose data is checked against `expect`
    #[serde(default)]
    pub probe_more: u32,
}

#[derive(Clone, Default)]
pub struct Base {
    pub input: Arc<Vec<u8>>,
    pub expect: Option<Arc<Vec<u8>>>,
}

pub type Bases = HashMap<String, Base>;

// ------------------------------------------------------------------ panic bookkeeping
pub static PANIC_SEEN: AtomicBool = AtomicBool::new(false);
pub static PANICS: AtomicUsize = AtomicUsize::new(0);
static PANIC_MSG: Mutex<Option<(String, String)>> = Mutex::new(None);

pub fn install_panic_hook() {
    std::panic::set_hook(Box::new(|info| {
        let th = std::thread::current().name().unwrap_or("?").to_string();
        let loc = info.location().map(|l| format!("{}:{}", l.file(), l.line())).unwrap_or_default();
        let msg = if let Some(s) = info.payload().downcast_ref::<&str>() {
            s.to_string()
        } else if let Some(s) = info.payload().downcast_ref::<String>() {
            s.clone()
        } else {
            "?".to_string()
        };
        let mut g = PANIC_MSG.lock().unwrap_or_else(|e| e.into_inner());
        if g.is_none() {
            *g = Some((format!("{} at {}", msg, loc), th));
        }
        PANICS.fetch_add(1, Ordering::SeqCst);
        PANIC_SEEN.store(true, Ordering::SeqCst);
    }));
}

fn take_panic() -> Option<(String, String)> {
    PANIC_SEEN.store(false, Ordering::SeqCst);
    PANIC_MSG.lock().unwrap_or_else(|e| e.into_inner()).take()
}

// ------------------------------------------------------------------ output accumulator
struct OutAcc {
    len: u64,
    h: u64,
    expect: Option<Arc<Vec<u8>>>,
    is_prefix: bool,
    first_diff: Option<u64>,
    keep: Option<Vec<u8>>,
}

impl OutAcc {
    fn new(expect: Option<Arc<Vec<u8>>>, keep: bool) -> Self {
        OutAcc { len: 0, h: 0xcbf29ce484222325, expect, is_prefix: true, first_diff: None, keep: if keep { Some(Vec::new()) } else { None } }
    }
    fn push(&mut self, b: &[u8]) {
        for x in b {
            self.h ^= *x as u64;
            self.h = self.h.wrapping_mul(0x100000001b3);
        }
        if let Some(e) = &self.expect {
            if self.is_prefix {
                let a = self.len as usize;
                for (i, x) in b.iter().enumerate() {
                    if a + i >= e.len() || e[a + i] != *x {
                        self.is_prefix = false;
                        self.first_diff = Some((a + i) as u64);
                        break;
                    }
                }
            }
        }
        if let Some(k) = self.keep.as_mut() {
            if k.len() < (1 << 20) {
                k.extend_from_slice(b);
            }
        }
        self.len += b.len() as u64;
    }
    fn equal(&self) -> Option<bool> {
        self.expect.as_ref().map(|e| self.is_prefix && self.len == e.len() as u64)
    }
}

// ------------------------------------------------------------------ decode
struct DecOut {
    outcome: &'static str,
    err: Option<(String, String)>,
    stage: &'static str,
    api_reads: u64,
    intr_returns: u64,
    reads_after_err: u64,
    ok_after_err: bool,
    eof_then_data: bool,
    unit_count: Option<u64>,
    bytes_after_err: u64,
}

/// Set while the driver calls a reader again after it returned an error (value: that error).
static AFTER_ERR: Mutex<Option<String>> = Mutex::new(None);

/// Consecutive `Interrupted` results of the reader under test before the case is reported as stuck.
const INTR_STUCK: u64 = 10_000;

fn drive<R: Read>(r: &mut R, bufs: &[usize], limit: u64, acc: &mut OutAcc, buf: &mut [u8], probe: bool, probe_more: u32) -> DecOut {
    let mut o = DecOut { outcome: "ok", err: None, stage: "read", api_reads: 0, intr_returns: 0, reads_after_err: 0,
                         ok_after_err: false, eof_then_data: false, unit_count: None, bytes_after_err: 0 };
    let mut i = 0usize;
    let mut consecutive_intr = 0u64;
    loop {
        let n = bufs[i % bufs.len()].max(1).min(buf.len());
        i += 1;
        o.api_reads += 1;
        match r.read(&mut buf[..n]) {
            Ok(0) => {
                // a reader that reported end of stream must stay there (probe only when asked: the extra
                // call would otherwise consume a scripted fault)
                if probe {
                    if let Ok(k) = r.read(&mut buf[..n]) {
                        if k > 0 {
                            o.eof_then_data = true;
                        }
                    }
                }
                return o;
            }
            Ok(k) => {
                consecutive_intr = 0;
                faultio::progress();
                acc.push(&buf[..k]);
                if acc.len > limit {
                    o.outcome = "unbounded";
                    return o;
                }
            }
            Err(e) if e.kind() == ErrorKind::Interrupted => {
                o.intr_returns += 1;
                consecutive_intr += 1;
                if consecutive_intr >= INTR_STUCK {
                    o.outcome = "intr_stuck";
                    o.err = Some((kind_name(e.kind()), e.to_string()));
                    return o;
                }
            }
            Err(e) => {
                o.outcome = "err";
                o.err = Some((kind_name(e.kind()), e.to_string()));
                if probe_more > 0 {
                    // C05: keep reading with a small buffer after the error; data returned now is compared with the
                    // original like any other (a reader that is not resumable must not hand out bytes)
                    faultio::PROBING.store(true, Ordering::SeqCst);
                    let before = acc.len;
                    for _ in 0..probe_more {
                        o.reads_after_err += 1;
                        let small = 7.min(buf.len());
                        match r.read(&mut buf[..small]) {
                            Ok(k) if k > 0 => {
                                o.ok_after_err = true;
                                acc.push(&buf[..k]);
                            }
                            _ => {}
                        }
                    }
                    o.bytes_after_err = acc.len - before;
                    faultio::PROBING.store(false, Ordering::SeqCst);
                }
                if probe {
                    // callers do call again after an error (retry loops, read_to_end wrappers, BufReader): one call with a
                    // small and one with a large buffer, under the same containment; a panic here is reported with
                    // `after_err` = the error that preceded it
                    *AFTER_ERR.lock().unwrap_or_else(|e| e.into_inner()) = o.err.as_ref().map(|(k, m)| format!("{k}: {m}"));
                    let full = buf.len();
                    for size in [1usize, full] {
                        o.reads_after_err += 1;
                        if let Ok(k) = r.read(&mut buf[..size]) {
                            if k > 0 {
                                o.ok_after_err = true;
                            }
                        }
                    }
                    *AFTER_ERR.lock().unwrap_or_else(|e| e.into_inner()) = None;
                }
                return o;
            }
        }
    }
}

fn ctor_err(e: io::Error) -> DecOut {
    DecOut { outcome: "err", err: Some((kind_name(e.kind()), e.to_string())), stage: "new", api_reads: 0, intr_returns: 0,
             reads_after_err: 0, ok_after_err: false, eof_then_data: false, unit_count: None, bytes_after_err: 0 }
}

fn run_decoder(d: &DecSpec, srcs: Vec<FaultSource>, bufs: &[usize], limit: u64, acc: &mut OutAcc, buf: &mut [u8], probe: bool, probe_more: u32) -> DecOut {
    let mut srcs = srcs;
    let src = srcs.remove(0);
    match d.kind.as_str() {
        "lzma" => match LZMAReader::new_mem_limit(src, d.mem_limit_kb.unwrap_or(u32::MAX), None) {
            Ok(mut r) => drive(&mut r, bufs, limit, acc, buf, probe, probe_more),
            Err(e) => ctor_err(e),
        },
        "lzma_raw" => {
            let r = match d.lclppb {
                Some((lc, lp, pb)) => LZMAReader::new(src, d.usize.unwrap_or(u64::MAX), lc, lp, pb, d.dict, None),
                None => LZMAReader::new_with_props(src, d.usize.unwrap_or(u64::MAX), d.props, d.dict, None),
            };
            match r {
                Ok(mut r) => drive(&mut r, bufs, limit, acc, buf, probe, probe_more),
                Err(e) => ctor_err(e),
            }
        }
        "lzma2" => {
            let mut r = LZMA2Reader::new(src, d.dict, None);
            drive(&mut r, bufs, limit, acc, buf, probe, probe_more)
        }
        "lzma2_mt" => {
            let mut r = LZMA2ReaderMT::new(src, d.dict, None, d.workers);
            let mut o = drive(&mut r, bufs, limit, acc, buf, probe, probe_more);
            o.unit_count = Some(r.chunk_count());
            o
        }
        "xz" => {
            let mut r = XZReader::new(src, d.multi);
            drive(&mut r, bufs, limit, acc, buf, probe, probe_more)
        }
        "lzip" => match LZIPReader::new(src) {
            Ok(mut r) => drive(&mut r, bufs, limit, acc, buf, probe, probe_more),
            Err(e) => ctor_err(e),
        },
        "lzip_mt" => match LZIPReaderMT::new(src, d.workers) {
            Ok(mut r) => {
                let mut o = drive(&mut r, bufs, limit, acc, buf, probe, probe_more);
                o.unit_count = Some(r.member_count() as u64);
                o
            }
            Err(e) => ctor_err(e),
        },
        "delta" => {
            let mut r = DeltaReader::new(src, d.distance);
            drive(&mut r, bufs, limit, acc, buf, probe, probe_more)
        }
        "bcj" => {
            let s = d.start_pos;
            let mut r = match d.arch.as_str() {
                "x86" => BCJReader::new_x86(src, s),
                "arm" => BCJReader::new_arm(src, s),
                "arm64" => BCJReader::new_arm64(src, s),
                "armthumb" => BCJReader::new_arm_thumb(src, s),
                "ppc" => BCJReader::new_ppc(src, s),
                "sparc" => BCJReader::new_sparc(src, s),
                "ia64" => BCJReader::new_ia64(src, s),
                _ => BCJReader::new_riscv(src, s),
            };
            drive(&mut r, bufs, limit, acc, buf, probe, probe_more)
        }
        "bcj2" => {
            let mut v = vec![src];
            v.extend(srcs);
            let mut r = BCJ2Reader::new(v, d.bcj2_size);
            drive(&mut r, bufs, limit, acc, buf, probe, probe_more)
        }
        _ => DecOut { outcome: "badjob", err: Some(("?".into(), format!("unknown decoder {}", d.kind))), stage: "new",
                      api_reads: 0, intr_returns: 0, reads_after_err: 0, ok_after_err: false, eof_then_data: false, unit_count: None, bytes_after_err: 0 },
    }
}

fn resolve(bases: &Bases, name_or_hex: &str) -> Arc<Vec<u8>> {
    match bases.get(name_or_hex) {
        Some(b) => b.input.clone(),
        None => Arc::new(gen::unhex(name_or_hex)),
    }
}

fn io_log_json(sh: &Sh) -> Value {
    let s = sh.lock().unwrap();
    Value::Array(s.log.iter().map(|e| json!({"d": e.d.to_string(), "req": e.req, "ret": e.ret, "k": e.k, "off": e.off, "inj": e.inj})).collect())
}

struct CaseResult {
    v: Value,
}

fn decode_case(job: &Job, bases: &Bases) -> Value {
    let base = job.base.as_ref().and_then(|b| bases.get(b)).cloned();
    let mut input: Arc<Vec<u8>> = match (&job.input, &base) {
        (Some(h), _) => Arc::new(gen::unhex(h)),
        (None, Some(b)) => b.input.clone(),
        _ => Arc::new(Vec::new()),
    };
    if let Some(m) = &job.mutn {
        input = Arc::new(apply_mutation(&input, m));
    }
    let expect: Option<Arc<Vec<u8>>> = match (&job.expect, &base) {
        (Some(h), _) => Some(Arc::new(gen::unhex(h))),
        (None, Some(b)) => b.expect.clone(),
        _ => None,
    };
    let limit = job.out_limit.unwrap_or(u64::MAX);
    let log_cap = if job.log { 20_000 } else { 0 };
    let mut shs: Vec<Sh> = vec![faultio::shared(log_cap)];
    let mut srcs = Vec::new();
    if job.dec.kind == "bcj2" {
        let mut all = vec![input.clone()];
        for x in &job.inputs {
            all.push(resolve(bases, x));
        }
        while all.len() < 4 {
            all.push(Arc::new(Vec::new()));
        }
        shs = (0..4).map(|_| faultio::shared(log_cap)).collect();
        for (i, d) in all.into_iter().enumerate() {
            let sc = if i == job.dec.script_on { job.script.clone() } else { Script::default() };
            srcs.push(FaultSource::new(d, sc, shs[i].clone()));
        }
    } else {
        srcs.push(FaultSource::new(input.clone(), job.script.clone(), shs[0].clone()));
    }
    let main_sh = shs[if job.dec.kind == "bcj2" { job.dec.script_on } else { 0 }].clone();
    let mut acc = OutAcc::new(expect.clone(), job.keep_out);
    let maxbuf = job.bufs.iter().copied().max().unwrap_or(4096).max(1);
    let mut buf = vec![0u8; maxbuf];
    if let Some(c) = job.alloc_cap {
        alloc::CAP.store(c, Ordering::Relaxed);
    }
    faultio::PROBING.store(false, Ordering::SeqCst);
    let a0 = alloc::begin();
    let t0 = Instant::now();
    let r = std::panic::catch_unwind(std::panic::AssertUnwindSafe(|| run_decoder(&job.dec, srcs, &job.bufs, limit, &mut acc, &mut buf, job.probe, job.probe_more)));
    let wall = t0.elapsed().as_secs_f64();
    let peak = alloc::peak_since(a0);
    let largest = alloc::LARGEST.load(Ordering::Relaxed);
    alloc::CAP.store(usize::MAX, Ordering::Relaxed);
    let s = main_sh.lock().unwrap_or_else(|e| e.into_inner());
    let mut v = json!({
        "id": job.id, "op": "decode", "dec": job.dec.kind, "in_len": input.len(),
        "n": acc.len, "d": format!("{:016x}", acc.h), "eq": acc.equal(), "pre": acc.is_prefix, "first_diff": acc.first_diff,
        "expect_len": expect.as_ref().map(|e| e.len()),
        "peak": peak, "largest": largest, "wall": wall,
        "src_calls": s.calls, "src_bytes": s.bytes, "src_max_off": s.max_off, "eof_hits": s.eof_hits,
        "injected": s.injected, "err_delivered": s.err_delivered, "calls_after_err": s.calls_after_err,
    });
    drop(s);
    let m = v.as_object_mut().unwrap();
    match r {
        Ok(o) => {
            m.insert("o".into(), json!(o.outcome));
            m.insert("stage".into(), json!(o.stage));
            m.insert("api_reads".into(), json!(o.api_reads));
            m.insert("intr_returns".into(), json!(o.intr_returns));
            m.insert("ok_after_err".into(), json!(o.ok_after_err));
            m.insert("bytes_after_err".into(), json!(o.bytes_after_err));
            m.insert("eof_then_data".into(), json!(o.eof_then_data));
            m.insert("units".into(), json!(o.unit_count));
            if let Some((k, msg)) = o.err {
                m.insert("k".into(), json!(k));
                m.insert("m".into(), json!(msg));
            }
            // a panic on another thread (MT worker) while the caller got a result
            if let Some((pm, th)) = take_panic() {
                m.insert("worker_panic".into(), json!(pm));
                m.insert("panic_thread".into(), json!(th));
            }
        }
        Err(_) => {
            let (pm, th) = take_panic().unwrap_or(("?".into(), "?".into()));
            if let Some(e) = AFTER_ERR.lock().unwrap_or_else(|e| e.into_inner()).take() {
                m.insert("after_err".into(), json!(e));
            }
            if pm.contains(faultio::SPIN_MARK) || pm.contains(faultio::OPS_MARK) {
                m.insert("o".into(), json!("spin"));
            } else {
                m.insert("o".into(), json!("panic"));
            }
            m.insert("m".into(), json!(pm));
            m.insert("panic_thread".into(), json!(th));
        }
    }
    if job.log {
        m.insert("io".into(), io_log_json(&main_sh));
    }
    if let Some(k) = acc.keep {
        m.insert("out".into(), json!(gen::hex(&k)));
    }
    if job.keep_input {
        m.insert("input".into(), json!(gen::hex(&input)));
    }
    v
}

// ------------------------------------------------------------------ encode
fn lzma_opts(e: &EncSpec) -> LZMAOptions {
    let mut o = LZMAOptions::with_preset(e.preset);
    if let Some(d) = e.dict {
        o.dict_size = d;
    }
    o
}

struct EncOut {
    outcome: &'static str,
    err: Option<(String, String)>,
    stage: String,
    api_calls: u64,
    ok_after_err: bool,
}

/// write_all-like driver: honours short counts, retries `Interrupted`, treats Ok(0) as WriteZero.
fn drive_write<W: Write>(w: &mut W, data: &[u8], writes: &[usize], flush_every: Option<usize>, eo: &mut EncOut) -> bool {
    let mut off = 0usize;
    let mut i = 0usize;
    let mut nw = 0usize;
    let mut intr = 0u64;
    while off < data.len() {
        let n = if writes.is_empty() { data.len() - off } else { writes[i % writes.len()].max(1).min(data.len() - off) };
        i += 1;
        let mut done = 0usize;
        while done < n {
            eo.api_calls += 1;
            match w.write(&data[off + done..off + n]) {
                Ok(0) => {
                    eo.outcome = "err";
                    eo.err = Some(("WriteZero".into(), "writer accepted 0 bytes".into()));
                    eo.stage = format!("write#{}", nw);
                    return false;
                }
                Ok(k) => {
                    intr = 0;
                    done += k.min(n - done);
                }
                Err(e) if e.kind() == ErrorKind::Interrupted => {
                    intr += 1;
                    if intr > INTR_STUCK {
                        eo.outcome = "intr_stuck";
                        eo.stage = format!("write#{}", nw);
                        return false;
                    }
                }
                Err(e) => {
                    eo.outcome = "err";
                    eo.err = Some((kind_name(e.kind()), e.to_string()));
                    eo.stage = format!("write#{}", nw);
                    return false;
                }
            }
        }
        off += n;
        nw += 1;
        if let Some(k) = flush_every {
            if k > 0 && nw % k == 0 {
                eo.api_calls += 1;
                loop {
                    match w.flush() {
                        Ok(()) => break,
                        Err(e) if e.kind() == ErrorKind::Interrupted => {
                            intr += 1;
                            if intr > INTR_STUCK {
                                eo.outcome = "intr_stuck";
                                eo.stage = format!("flush#{}", nw);
                                return false;
                            }
                        }
                        Err(e) => {
                            eo.outcome = "err";
                            eo.err = Some((kind_name(e.kind()), e.to_string()));
                            eo.stage = format!("flush#{}", nw);
                            return false;
                        }
                    }
                }
            }
        }
    }
    true
}

fn fin<T>(r: io::Result<T>, eo: &mut EncOut) {
    eo.api_calls += 1;
    if let Err(e) = r {
        eo.outcome = "err";
        eo.err = Some((kind_name(e.kind()), e.to_string()));
        eo.stage = "finish".into();
    }
}

fn nz(x: Option<u64>) -> Option<NonZeroU64> {
    x.and_then(NonZeroU64::new)
}

fn run_encoder(e: &EncSpec, sink: FaultSink, data: &[u8], writes: &[usize], flush_every: Option<usize>) -> EncOut {
    let mut eo = EncOut { outcome: "ok", err: None, stage: String::new(), api_calls: 0, ok_after_err: false };
    match e.kind.as_str() {
        "lzma" => {
            let o = lzma_opts(e);
            let w = match e.lzma_mode.as_str() {
                "header_known" => LZMAWriter::new_use_header(sink, &o, Some(data.len() as u64)),
                "header_eos" => LZMAWriter::new_use_header(sink, &o, None),
                "raw" => LZMAWriter::new_no_header(sink, &o, false),
                _ => LZMAWriter::new_no_header(sink, &o, true),
            };
            match w {
                Ok(mut w) => {
                    if drive_write(&mut w, data, writes, flush_every, &mut eo) {
                        fin(w.finish(), &mut eo);
                    }
                }
                Err(er) => {
                    eo.outcome = "err";
                    eo.err = Some((kind_name(er.kind()), er.to_string()));
                    eo.stage = "new".into();
                }
            }
        }
        "lzma2" => {
            let mut o = LZMA2Options::with_preset(e.preset);
            if let Some(d) = e.dict {
                o.lzma_options.dict_size = d;
            }
            o.set_chunk_size(nz(e.chunk_size));
            let mut w = LZMA2Writer::new(sink, o);
            if drive_write(&mut w, data, writes, flush_every, &mut eo) {
                fin(w.finish(), &mut eo);
            }
        }
        "lzma2_mt" => {
            let mut o = LZMA2Options::with_preset(e.preset);
            if let Some(d) = e.dict {
                o.lzma_options.dict_size = d;
            }
            o.set_chunk_size(nz(e.chunk_size));
            match LZMA2WriterMT::new(sink, o, e.workers) {
                Ok(mut w) => {
                    if drive_write(&mut w, data, writes, flush_every, &mut eo) {
                        fin(w.finish(), &mut eo);
                    }
                }
                Err(er) => {
                    eo.outcome = "err";
                    eo.err = Some((kind_name(er.kind()), er.to_string()));
                    eo.stage = "new".into();
                }
            }
        }
        "xz" => {
            let mut o = XZOptions::with_preset(e.preset);
            if let Some(d) = e.dict {
                o.lzma_options.dict_size = d;
            }
            o.set_check_sum_type(match e.check.as_str() {
                "none" => CheckType::None,
                "crc32" => CheckType::Crc32,
                "sha256" => CheckType::Sha256,
                _ => CheckType::Crc64,
            });
            o.set_block_size(nz(e.block_size));
            for (name, prop) in e.filters.iter().rev() {
                let ft = match name.as_str() {
                    "delta" => FilterType::Delta,
                    "x86" => FilterType::BcjX86,
                    "arm" => FilterType::BcjARM,
                    "arm64" => FilterType::BcjARM64,
                    "armthumb" => FilterType::BcjARMThumb,
                    "ppc" => FilterType::BcjPPC,
                    "sparc" => FilterType::BcjSPARC,
                    "ia64" => FilterType::BcjIA64,
                    _ => FilterType::BcjRISCV,
                };
                o.prepend_pre_filter(ft, *prop);
            }
            match XZWriter::new(sink, o) {
                Ok(mut w) => {
                    if drive_write(&mut w, data, writes, flush_every, &mut eo) {
                        fin(w.finish(), &mut eo);
                    }
                }
                Err(er) => {
                    eo.outcome = "err";
                    eo.err = Some((kind_name(er.kind()), er.to_string()));
                    eo.stage = "new".into();
                }
            }
        }
        "lzip" => {
            let mut o = LZIPOptions::with_preset(e.preset);
            if let Some(d) = e.dict {
                o.lzma_options.dict_size = d;
            }
            o.set_member_size(nz(e.member_size));
            let mut w = LZIPWriter::new(sink, o);
            if drive_write(&mut w, data, writes, flush_every, &mut eo) {
                fin(w.finish(), &mut eo);
            }
        }
        "lzip_mt" => {
            let mut o = LZIPOptions::with_preset(e.preset);
            if let Some(d) = e.dict {
                o.lzma_options.dict_size = d;
            }
            o.set_member_size(nz(e.member_size));
            match LZIPWriterMT::new(sink, o, e.workers) {
                Ok(mut w) => {
                    if drive_write(&mut w, data, writes, flush_every, &mut eo) {
                        fin(w.finish(), &mut eo);
                    }
                }
                Err(er) => {
                    eo.outcome = "err";
                    eo.err = Some((kind_name(er.kind()), er.to_string()));
                    eo.stage = "new".into();
                }
            }
        }
        "delta" => {
            let mut w = DeltaWriter::new(sink, e.distance.max(1));
            if drive_write(&mut w, data, writes, flush_every, &mut eo) {
                fin(w.flush(), &mut eo);
            }
        }
        "bcj" => {
            let s = e.start_pos;
            let mut w = match e.arch.as_str() {
                "x86" => BCJWriter::new_x86(sink, s),
                "arm" => BCJWriter::new_arm(sink, s),
                "arm64" => BCJWriter::new_arm64(sink, s),
                "armthumb" => BCJWriter::new_arm_thumb(sink, s),
                "ppc" => BCJWriter::new_ppc(sink, s),
                "sparc" => BCJWriter::new_sparc(sink, s),
                "ia64" => BCJWriter::new_ia64(sink, s),
                _ => BCJWriter::new_riscv(sink, s),
            };
            if drive_write(&mut w, data, writes, flush_every, &mut eo) {
                fin(w.flush(), &mut eo);
            }
        }
        _ => {
            eo.outcome = "badjob";
        }
    }
    eo
}

fn encode_case(job: &Job, bases: &Bases) -> Value {
    let data: Arc<Vec<u8>> = match (&job.input, job.base.as_ref().and_then(|b| bases.get(b))) {
        (Some(h), _) => Arc::new(gen::unhex(h)),
        (None, Some(b)) => b.input.clone(),
        _ => Arc::new(Vec::new()),
    };
    // fault-free reference run with the same call history
    let clean_sh = faultio::shared(if job.log { 20_000 } else { 0 });
    let clean = std::panic::catch_unwind(std::panic::AssertUnwindSafe(|| {
        run_encoder(&job.enc, FaultSink::new(Script::default(), clean_sh.clone()), &data, &job.writes, job.flush_every)
    }));
    let _ = take_panic();
    let clean_ok = matches!(&clean, Ok(e) if e.outcome == "ok");
    let clean_bytes = clean_sh.lock().unwrap_or_else(|e| e.into_inner()).sink.clone();
    let clean_calls = clean_sh.lock().unwrap_or_else(|e| e.into_inner()).calls;
    let sh = faultio::shared(if job.log { 20_000 } else { 0 });
    let a0 = alloc::begin();
    let r = std::panic::catch_unwind(std::panic::AssertUnwindSafe(|| {
        run_encoder(&job.enc, FaultSink::new(job.script.clone(), sh.clone()), &data, &job.writes, job.flush_every)
    }));
    let peak = alloc::peak_since(a0);
    let s = sh.lock().unwrap_or_else(|e| e.into_inner());
    let same = s.sink == clean_bytes;
    let is_prefix = s.sink.len() <= clean_bytes.len() && clean_bytes[..s.sink.len()] == s.sink[..];
    let mut v = json!({
        "id": job.id, "op": "encode", "enc": job.enc.kind, "in_len": data.len(),
        "clean_ok": clean_ok, "clean_len": clean_bytes.len(), "clean_calls": clean_calls,
        "sink_len": s.sink.len(), "same_as_clean": same, "sink_is_prefix_of_clean": is_prefix,
        "sink_calls": s.calls, "injected": s.injected, "err_delivered": s.err_delivered, "calls_after_err": s.calls_after_err,
        "peak": peak, "d": gen::digest(&s.sink), "clean_d": gen::digest(&clean_bytes),
    });
    let keep = if job.keep_out { Some(gen::hex(&s.sink)) } else { None };
    drop(s);
    let m = v.as_object_mut().unwrap();
    match r {
        Ok(eo) => {
            m.insert("o".into(), json!(eo.outcome));
            m.insert("stage".into(), json!(eo.stage));
            m.insert("api_calls".into(), json!(eo.api_calls));
            if let Some((k, msg)) = eo.err {
                m.insert("k".into(), json!(k));
                m.insert("m".into(), json!(msg));
            }
            if let Some((pm, th)) = take_panic() {
                m.insert("worker_panic".into(), json!(pm));
                m.insert("panic_thread".into(), json!(th));
            }
        }
        Err(_) => {
            let (pm, th) = take_panic().unwrap_or(("?".into(), "?".into()));
            m.insert("o".into(), json!("panic"));
            m.insert("m".into(), json!(pm));
            m.insert("panic_thread".into(), json!(th));
        }
    }
    if job.log {
        m.insert("io".into(), io_log_json(&sh));
    }
    if let Some(k) = keep {
        m.insert("out".into(), json!(k));
    }
    v
}

// ------------------------------------------------------------------ containment: thread + watchdog
/// CPU seconds (user + system) this process has used, from /proc/self/stat (clock ticks of 1/100 s).
fn process_cpu_secs() -> f64 {
    let s = std::fs::read_to_string("/proc/self/stat").unwrap_or_default();
    let rest = s.rsplit(')').next().unwrap_or("");
    let f: Vec<&str> = rest.split_whitespace().collect();
    // after the command name: state(0) ppid pgrp session tty tpgid flags minflt cminflt majflt cmajflt utime(11) stime(12)
    let u: f64 = f.get(11).and_then(|x| x.parse().ok()).unwrap_or(0.0);
    let k: f64 = f.get(12).and_then(|x| x.parse().ok()).unwrap_or(0.0);
    (u + k) / 100.0
}

/// CPU seconds the code under test may burn without a single source / sink operation and without a single call
/// returning data before the case is reported as spinning (structural: measured in consumed CPU, not in elapsed time).
const SPIN_CPU_SECS: f64 = 20.0;

fn thread_count() -> usize {
    std::fs::read_to_string("/proc/self/status")
        .ok()
        .and_then(|s| s.lines().find(|l| l.starts_with("Threads:")).and_then(|l| l[8..].trim().parse().ok()))
        .unwrap_or(1)
}

pub enum Done {
    Result(Value),
    /// result complete, but threads of the code under test are still alive: continue in a fresh process
    Restart(Value),
    /// the case did not return: the process must be replaced (the stuck thread cannot be killed)
    Stuck(Value),
}

pub fn run_job(job: &Job, bases: &Arc<Bases>) -> Done {
    let (tx, rx) = mpsc::channel::<CaseResult>();
    let j = job.clone();
    let b = bases.clone();
    let _ = take_panic();
    let th = std::thread::Builder::new().name("case".into()).stack_size(job.stack_kb.max(64) * 1024).spawn(move || {
        let v = match j.op.as_str() {
            "decode" => decode_case(&j, &b),
            "encode" => encode_case(&j, &b),
            _ => json!({"id": j.id, "o": "badjob"}),
        };
        let _ = tx.send(CaseResult { v });
    });
    let th = match th {
        Ok(t) => t,
        Err(e) => return Done::Result(json!({"id": job.id, "o": "toolerror", "m": format!("spawn failed: {e}")})),
    };
    let t0 = Instant::now();
    let mut panic_at: Option<Instant> = None;
    let mut last_progress = faultio::PROGRESS.load(Ordering::Relaxed);
    let mut cpu_at_progress = process_cpu_secs();
    loop {
        match rx.recv_timeout(Duration::from_millis(200)) {
            Ok(c) => {
                let _ = th.join();
                // Threads the case left behind (workers of a dropped MT reader / writer) still allocate: the next case's
                // measurements are only meaningful once this process is back to its main thread. If they do not go
                // away the process is replaced (the result of THIS case is complete either way).
                let t1 = Instant::now();
                while thread_count() > 1 {
                    if t1.elapsed() > Duration::from_secs(10) {
                        return Done::Restart(c.v);
                    }
                    std::thread::sleep(Duration::from_millis(2));
                }
                return Done::Result(c.v);
            }
            Err(mpsc::RecvTimeoutError::Disconnected) => {
                // the case thread died without a result (panic outside catch_unwind)
                let (pm, thn) = take_panic().unwrap_or(("?".into(), "?".into()));
                return Done::Result(json!({"id": job.id, "o": "panic", "m": pm, "panic_thread": thn, "stage": "harness"}));
            }
            Err(mpsc::RecvTimeoutError::Timeout) => {
                if PANIC_SEEN.load(Ordering::SeqCst) && panic_at.is_none() {
                    panic_at = Some(Instant::now());
                }
                // a thread of the code under test panicked and the caller never returned: the panic is the datum
                if let Some(p) = panic_at {
                    if p.elapsed() > Duration::from_secs(5) {
                        let (pm, thn) = take_panic().unwrap_or(("?".into(), "?".into()));
                        return Done::Stuck(json!({"id": job.id, "o": "panic", "m": pm, "panic_thread": thn, "hung": true,
                                                  "op": job.op, "dec": job.dec.kind}));
                    }
                }
                // no operation on the source / sink and no data returned while the process keeps burning CPU: a loop
                // inside the code under test that can never end (it has nothing new to look at)
                let p = faultio::PROGRESS.load(Ordering::Relaxed);
                let cpu = process_cpu_secs();
                if p != last_progress {
                    last_progress = p;
                    cpu_at_progress = cpu;
                } else if cpu - cpu_at_progress > SPIN_CPU_SECS {
                    return Done::Stuck(json!({"id": job.id, "o": "spin", "op": job.op, "dec": job.dec.kind, "hung": true,
                                              "m": format!("{:.0} CPU seconds without any source / sink operation or returned data", cpu - cpu_at_progress)}));
                }
                if t0.elapsed() > Duration::from_secs(job.timeout_s) {
                    return Done::Stuck(json!({"id": job.id, "o": "timeout", "op": job.op, "dec": job.dec.kind,
                                              "m": format!("no result after {} s", job.timeout_s)}));
                }
            }
        }
    }
}

/// Main loop of `vh_hostile`.
pub fn main_loop() {
    install_panic_hook();
    let stdin = io::stdin();
    let out = io::stdout();
    let mut out = io::BufWriter::new(out.lock());
    let mut bases: Bases = HashMap::new();
    let mut shared: Arc<Bases> = Arc::new(HashMap::new());
    let mut dirty = false;
    use std::io::BufRead;
    for line in stdin.lock().lines() {
        let line = line.unwrap();
        if line.trim().is_empty() {
            continue;
        }
        let job: Job = match serde_json::from_str(&line) {
            Ok(j) => j,
            Err(e) => {
                eprintln!("bad job: {e}: {}", &line[..line.len().min(300)]);
                std::process::exit(2);
            }
        };
        if job.op == "def" {
            bases.insert(job.name.clone(), Base {
                input: Arc::new(gen::unhex(job.input.as_deref().unwrap_or(""))),
                expect: job.expect.as_ref().map(|h| Arc::new(gen::unhex(h))),
            });
            dirty = true;
            continue;
        }
        if dirty {
            shared = Arc::new(bases.clone());
            dirty = false;
        }
        match run_job(&job, &shared) {
            Done::Result(v) => {
                writeln!(out, "{}", v).unwrap();
                out.flush().unwrap();
            }
            Done::Stuck(v) | Done::Restart(v) => {
                writeln!(out, "{}", v).unwrap();
                out.flush().unwrap();
                drop(out);
                std::process::exit(3);
            }
        }
    }
}
