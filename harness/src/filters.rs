//! Filter conformance (group D; C11, filter half of C07): BCJ x 8 architectures, Delta, BCJ2.
//!
//! * synthetic code generators per architecture: `dense` (token-dense, arbitrary overlaps, extreme operands) and
//!   `known` (non-overlapping branch instructions on inert filler, head positions returned, so that the
//!   FilterStream trace specification can predict the reader's buffer arithmetic);
//! * reference filtering through liblzma raw chains: encode with `[filter, lzma2]`, decode with `[lzma2]` only;
//! * a minimal BCJ2 *encoder* written from the 7-Zip format description (four streams, range-coded branch
//!   flags), because no reference BCJ2 encoder exists in the sandbox (recorded as an assumption);
//! * the case runner behind `vh_filter`.
use std::io::{Read, Write};

use liblzma::stream::{Action, Filters, LzmaOptions, Status, Stream};
use lzma_rust2::filter::bcj::{BCJReader, BCJWriter};
use lzma_rust2::filter::bcj2::BCJ2Reader;
use lzma_rust2::filter::delta::{DeltaReader, DeltaWriter};
use serde::Deserialize;
use serde_json::{json, Value};

use crate::gen::{self, Rng};
use crate::tio::{self, contain, Log, Sink, Src};

pub const ARCHS: [&str; 8] = ["x86", "arm", "armthumb", "arm64", "ppc", "sparc", "ia64", "riscv"];

/// (alignment A = scan step on a non-branch, window K = bytes that must be available to examine a position)
pub fn arch_params(arch: &str) -> (usize, usize) {
    match arch {
        "x86" => (1, 5),
        "arm" | "arm64" | "ppc" | "sparc" => (4, 4),
        "armthumb" => (2, 4),
        "ia64" => (16, 16),
        "riscv" => (2, 8),
        _ => panic!("unknown arch {arch}"),
    }
}

pub fn bcj_writer<W: Write>(arch: &str, w: W, start: usize) -> BCJWriter<W> {
    match arch {
        "x86" => BCJWriter::new_x86(w, start),
        "arm" => BCJWriter::new_arm(w, start),
        "armthumb" => BCJWriter::new_arm_thumb(w, start),
        "arm64" => BCJWriter::new_arm64(w, start),
        "ppc" => BCJWriter::new_ppc(w, start),
        "sparc" => BCJWriter::new_sparc(w, start),
        "ia64" => BCJWriter::new_ia64(w, start),
        "riscv" => BCJWriter::new_riscv(w, start),
        _ => panic!("unknown arch {arch}"),
    }
}

pub fn bcj_reader<R: Read>(arch: &str, r: R, start: usize) -> BCJReader<R> {
    match arch {
        "x86" => BCJReader::new_x86(r, start),
        "arm" => BCJReader::new_arm(r, start),
        "armthumb" => BCJReader::new_arm_thumb(r, start),
        "arm64" => BCJReader::new_arm64(r, start),
        "ppc" => BCJReader::new_ppc(r, start),
        "sparc" => BCJReader::new_sparc(r, start),
        "ia64" => BCJReader::new_ia64(r, start),
        "riscv" => BCJReader::new_riscv(r, start),
        _ => panic!("unknown arch {arch}"),
    }
}

// ------------------------------------------------------------------------------------------ generators
fn operand(r: &mut Rng) -> u32 {
    match r.below(10) {
        0 => 0,
        1 => 0xFFFF_FFFF,
        2 => 0x7FFF_FFFF,
        3 => 0x8000_0000,
        4 => r.below(64) as u32,
        5 => (r.below(64) as u32).wrapping_neg(),
        _ => r.next() as u32,
    }
}

/// One convertible branch instruction of `arch` with operand bits taken from `v`.
fn token(arch: &str, v: u32, r: &mut Rng) -> Vec<u8> {
    let b = v.to_le_bytes();
    match arch {
        "x86" => vec![if r.chance(1, 2) { 0xE8 } else { 0xE9 }, b[0], b[1], b[2], if v & 0x8000_0000 != 0 { 0xFF } else { 0x00 }],
        "arm" => vec![b[0], b[1], b[2], 0xEB],
        "armthumb" => vec![b[0], 0xF0 | (b[1] & 7), b[2], 0xF8 | (b[3] & 7)],
        "arm64" => {
            if r.chance(1, 2) {
                // BL
                ((v & 0x03FF_FFFF) | 0x9400_0000).to_le_bytes().to_vec()
            } else {
                // ADRP with an immediate inside +-128 KiB pages (the only range the filter converts)
                let imm = (v & 0x3FFFF) as i32 - 0x20000; // -0x20000 .. 0x1FFFF
                let imm = imm as u32 & 0x1F_FFFF;
                let w = 0x9000_0000 | ((imm & 3) << 29) | ((imm >> 2) << 5) | (v >> 27);
                w.to_le_bytes().to_vec()
            }
        }
        "ppc" => vec![0x48 | (b[3] & 3), b[2], b[1], (b[0] & 0xFC) | 1],
        "sparc" => {
            if r.chance(1, 2) {
                vec![0x40, b[2] & 0x3F, b[1], b[0]]
            } else {
                vec![0x7F, 0xC0 | (b[2] & 0x3F), b[1], b[0]]
            }
        }
        "ia64" => {
            // one bundle: template with branch slots, each branch slot gets opcode 4-bit field = 5 and btype = 0
            const T: [u8; 10] = [16, 17, 18, 19, 22, 23, 24, 25, 28, 29];
            const MASKS: [u32; 32] = [0, 0, 0, 0, 0, 0, 0, 0, 0, 0, 0, 0, 0, 0, 0, 0, 4, 4, 6, 6, 0, 0, 7, 7, 4, 4, 0, 0, 4, 4, 0, 0];
            let t = T[r.below(10) as usize];
            let mut bits: u128 = (r.next() as u128) << 64 | r.next() as u128;
            bits = (bits & !0x1Fu128) | t as u128;
            for slot in 0..3 {
                if (MASKS[t as usize] >> slot) & 1 == 0 {
                    continue;
                }
                let bp = 5 + 41 * slot;
                if r.chance(4, 5) {
                    // opcode (bits 37..40 of the slot) = 5, bits 9..11 = 0
                    bits &= !(0xFu128 << (bp + 37));
                    bits |= 5u128 << (bp + 37);
                    bits &= !(7u128 << (bp + 9));
                }
            }
            let _ = v;
            bits.to_le_bytes().to_vec()
        }
        "riscv" => {
            match r.below(4) {
                0 | 1 => {
                    // JAL rd = x1 / x5
                    vec![0xEF, (b[0] & 0xF0) | if r.chance(1, 2) { 0 } else { 2 }, b[1], b[2]]
                }
                2 => {
                    // AUIPC rd (not x0 / x2) + a pair instruction using rd as rs1 (JALR / ADDI / LW)
                    let rd = [1u32, 5, 6, 7, 10, 28, 31][r.below(7) as usize];
                    let inst = 0x17 | (rd << 7) | (v & 0xFFFF_F000);
                    let opc = [0x67u32, 0x13, 0x03][r.below(3) as usize];
                    let inst2 = opc | ((r.below(32) as u32) << 7) | ((r.below(8) as u32) << 12) | (rd << 15) | ((v & 0xFFF) << 20);
                    let mut o = inst.to_le_bytes().to_vec();
                    o.extend_from_slice(&inst2.to_le_bytes());
                    o
                }
                _ => {
                    // AUIPC with rd = x0 / x2 (the forms that collide with the encoded representation)
                    let rd = if r.chance(1, 2) { 0u32 } else { 2 };
                    let inst = 0x17 | (rd << 7) | (v & 0xFFFF_F000);
                    let mut o = inst.to_le_bytes().to_vec();
                    o.extend_from_slice(&(r.next() as u32).to_le_bytes());
                    o
                }
            }
        }
        _ => panic!("unknown arch {arch}"),
    }
}

/// Token-dense code: about half of the units are branch instructions; fillers include the architecture's
/// marker bytes in non-instruction positions, and occasionally a single byte that shifts the alignment.
pub fn gen_dense(arch: &str, len: usize, seed: u64) -> Vec<u8> {
    let (a, _) = arch_params(arch);
    let mut r = Rng::new(seed ^ 0xD00D);
    let mut v = Vec::with_capacity(len + 32);
    let markers: &[u8] = match arch {
        "x86" => &[0xE8, 0xE9, 0x0F, 0x80, 0x00, 0xFF],
        "arm" => &[0xEB, 0x00],
        "armthumb" => &[0xF0, 0xF8, 0xFF, 0x00],
        "arm64" => &[0x94, 0x97, 0x90, 0xB0, 0x00],
        "ppc" => &[0x48, 0x4B, 0x01, 0x00],
        "sparc" => &[0x40, 0x7F, 0xC0, 0x00],
        "ia64" => &[0x10, 0x11, 0x16, 0x00],
        _ => &[0xEF, 0x17, 0x97, 0x00, 0x67],
    };
    while v.len() < len {
        match r.below(20) {
            0..=9 => {
                let op = operand(&mut r);
                v.extend(token(arch, op, &mut r));
            }
            10 if arch == "x86" => {
                // runs of opcodes exercise prev_mask
                for _ in 0..(1 + r.below(4)) {
                    v.push(if r.chance(1, 2) { 0xE8 } else { 0xE9 });
                }
            }
            10 | 11 => v.push(markers[r.below(markers.len() as u64) as usize]),
            12..=15 => {
                for _ in 0..a {
                    v.push(markers[r.below(markers.len() as u64) as usize]);
                }
            }
            _ => {
                for _ in 0..a {
                    v.push(r.byte());
                }
            }
        }
    }
    v.truncate(len);
    v
}

/// Opcode-dense code: branch opcodes 1..4 bytes apart with every kind of byte where the coder looks for a
/// high byte (0x00, 0xFF, other), so that coder state carried from one `code()` call to the next (the x86
/// prev_mask, an instruction split by the call boundary) matters at every offset relative to an opcode pair.
/// Architectures other than x86 use the token-dense generator with unit-sized fillers.
pub fn gen_opdense(arch: &str, len: usize, seed: u64) -> Vec<u8> {
    if arch != "x86" {
        return gen_dense(arch, len, seed ^ 0x0D);
    }
    let mut r = Rng::new(seed ^ 0x0DE5);
    let mut v = Vec::with_capacity(len + 8);
    let pick = |r: &mut Rng| -> u8 {
        match r.below(8) {
            0 | 1 => 0x00,
            2 | 3 => 0xFF,
            4 => 0xE8,
            5 => 0xE9,
            _ => r.byte(),
        }
    };
    while v.len() < len {
        v.push(if r.chance(1, 2) { 0xE8 } else { 0xE9 });
        // gap of 0..4 bytes before the next opcode; now and then a complete convertible operand
        if r.chance(1, 4) {
            let op = operand(&mut r).to_le_bytes();
            v.extend_from_slice(&[op[0], op[1], op[2], if r.chance(1, 2) { 0x00 } else { 0xFF }]);
        } else {
            for _ in 0..r.below(5) {
                let b = pick(&mut r);
                v.push(b);
            }
        }
    }
    v.truncate(len);
    v
}

/// A branch instruction whose operand bytes cannot be mistaken for an opcode by a scan that is shifted against
/// the instruction grid (needed after an odd-sized write on the writer as built).
fn known_token(arch: &str, r: &mut Rng) -> Vec<u8> {
    let mut o = |mask: u8, avoid: &[u8]| -> u8 {
        loop {
            let b = r.byte() & mask;
            if !avoid.contains(&b) {
                return b;
            }
        }
    };
    match arch {
        "x86" => {
            let av = [0xE8u8, 0xE9, 0x0F];
            let op = if o(1, &[]) == 0 { 0xE8 } else { 0xE9 };
            let top = if o(1, &[]) == 0 { 0x00 } else { 0xFF };
            vec![op, o(0xFF, &av), o(0xFF, &av), o(0xFF, &av), top]
        }
        "arm" => vec![o(0xFF, &[0xEB]), o(0xFF, &[0xEB]), o(0xFF, &[0xEB]), 0xEB],
        "armthumb" => vec![o(0x7F, &[]), 0xF0 | o(7, &[]), o(0x7F, &[]), 0xF8 | o(7, &[])],
        "arm64" => vec![o(0x7F, &[]), o(0x7F, &[]), o(0x7F, &[]), 0x94 | o(3, &[])],
        "ppc" => vec![0x48 | o(3, &[]), o(0x3F, &[]), o(0x3F, &[]), (o(0x3F, &[]) & 0xFC) | 1],
        "sparc" => vec![0x40, o(0x3F, &[]), o(0xFF, &[0x40, 0x7F]), o(0xFF, &[0x40, 0x7F])],
        "riscv" => {
            if o(1, &[]) == 0 {
                vec![0xEF, o(0xF0, &[]) | if o(1, &[]) == 0 { 0 } else { 2 }, o(0xF0, &[]), o(0xF0, &[])]
            } else {
                let rd: u32 = if o(1, &[]) == 0 { 1 } else { 5 };
                let v: u32 = ((o(0xF0, &[]) as u32) << 8) | ((o(0xF0, &[]) as u32) << 16) | ((o(0xF0, &[]) as u32) << 24);
                let inst = 0x17 | (rd << 7) | (v & 0xFFFF_F000);
                let opc = [0x67u32, 0x13, 0x03][(o(3, &[3])) as usize];
                let rd2 = o(7, &[]) as u32;
                let f3 = o(7, &[]) as u32;
                let imm = ((o(0xF0, &[]) as u32) << 4) | (o(0x0F, &[]) as u32);
                let inst2 = opc | (rd2 << 7) | (f3 << 12) | (rd << 15) | (imm << 20);
                let mut t = inst.to_le_bytes().to_vec();
                t.extend_from_slice(&inst2.to_le_bytes());
                t
            }
        }
        _ => {
            let mut rr = Rng::new(r.next());
            token(arch, 0, &mut rr)
        }
    }
}

/// Known-head code: inert filler, branch instructions at aligned positions, never overlapping, operand bytes
/// that no shifted scan can take for an opcode. Returns (bytes, heads) with heads = (position, scan step when
/// converted). `force` lists positions (rounded down to the alignment) at which an instruction must start if
/// possible (boundary straddling). For ia64 the heads are exact only for scans on the 16-byte grid.
pub fn gen_known(arch: &str, len: usize, seed: u64, density: u64, force: &[usize]) -> (Vec<u8>, Vec<(usize, usize)>) {
    let (a, _) = arch_params(arch);
    let mut r = Rng::new(seed ^ 0xBEEF);
    let filler: u8 = if arch == "x86" { 0x11 } else { 0x00 };
    let mut v = vec![filler; len];
    let mut heads = Vec::new();
    let mut forced: Vec<usize> = force.iter().map(|p| p / a * a).collect();
    forced.sort();
    forced.dedup();
    let mut i = 0usize;
    let mut fi = 0usize;
    while i < len {
        while fi < forced.len() && forced[fi] < i {
            fi += 1;
        }
        let at_forced = fi < forced.len() && forced[fi] == i;
        let next_forced = if at_forced {
            if fi + 1 < forced.len() { forced[fi + 1] } else { usize::MAX }
        } else if fi < forced.len() {
            forced[fi]
        } else {
            usize::MAX
        };
        if at_forced || r.below(1000) < density {
            let t = known_token(arch, &mut r);
            let step = t.len();
            if i + step <= len && i + step <= next_forced {
                v[i..i + step].copy_from_slice(&t);
                heads.push((i, step));
                i += step;
                continue;
            } else if at_forced {
                // instruction cut by the end of the stream (or by the next forced one): opcode bytes without a
                // complete instruction; never convertible, the scan treats it as filler
                let n = (len - i).min(step).min(next_forced.saturating_sub(i));
                if arch != "x86" && arch != "riscv" {
                    v[i..i + n].copy_from_slice(&t[..n]);
                }
                i += a.max(1);
                continue;
            }
        }
        i += a;
    }
    (v, heads)
}

// ------------------------------------------------------------------------------------------ reference (liblzma)
fn lz_run(mut s: Stream, input: &[u8]) -> Result<Vec<u8>, String> {
    let mut out = Vec::with_capacity(input.len() + input.len() / 2 + 4096);
    let mut consumed = 0usize;
    loop {
        if out.capacity() - out.len() < 4096 {
            out.reserve(65536);
        }
        let before_in = s.total_in();
        let before_out = out.len();
        let st = s.process_vec(&input[consumed..], &mut out, Action::Finish).map_err(|e| format!("{e:?}"))?;
        consumed += (s.total_in() - before_in) as usize;
        match st {
            Status::StreamEnd => return Ok(out),
            _ => {
                if consumed >= input.len() && out.len() == before_out && out.capacity() - out.len() >= 4096 {
                    return Err("reference made no progress".into());
                }
            }
        }
    }
}

fn ref_lzma2_opts() -> LzmaOptions {
    let mut o = LzmaOptions::new_preset(0).unwrap();
    o.dict_size(1 << 16);
    o
}

fn add_ref_filter(f: &mut Filters, kind: &str, prop: u32) -> Result<(), String> {
    let p = prop.to_le_bytes();
    let e = |r: Result<&mut Filters, liblzma::stream::Error>| r.map(|_| ()).map_err(|e| format!("{e:?}"));
    if kind == "delta" {
        return e(f.delta_properties(&[(prop - 1) as u8]));
    }
    if prop == 0 {
        match kind {
            "x86" => f.x86(),
            "arm" => f.arm(),
            "armthumb" => f.arm_thumb(),
            "arm64" => f.arm64(),
            "ppc" => f.powerpc(),
            "sparc" => f.sparc(),
            "ia64" => f.ia64(),
            "riscv" => f.riscv(),
            _ => return Err("unknown filter".into()),
        };
        return Ok(());
    }
    match kind {
        "x86" => e(f.x86_properties(&p)),
        "arm" => e(f.arm_properties(&p)),
        "armthumb" => e(f.arm_thumb_properties(&p)),
        "arm64" => e(f.arm64_properties(&p)),
        "ppc" => e(f.powerpc_properties(&p)),
        "sparc" => e(f.sparc_properties(&p)),
        "ia64" => e(f.ia64_properties(&p)),
        "riscv" => e(f.riscv_properties(&p)),
        _ => Err("unknown filter".into()),
    }
}

/// Reference-filtered bytes: liblzma raw encoder with `[filter, lzma2]`, then liblzma raw decoder with `[lzma2]`.
pub fn ref_filter(kind: &str, prop: u32, data: &[u8]) -> Result<Vec<u8>, String> {
    let opts = ref_lzma2_opts();
    let mut f = Filters::new();
    add_ref_filter(&mut f, kind, prop)?;
    f.lzma2(&opts);
    let enc = Stream::new_raw_encoder(&f).map_err(|e| format!("raw encoder: {e:?}"))?;
    let packed = lz_run(enc, data)?;
    let mut g = Filters::new();
    g.lzma2(&opts);
    let dec = Stream::new_raw_decoder(&g).map_err(|e| format!("raw decoder: {e:?}"))?;
    lz_run(dec, &packed)
}

/// Reference-unfiltered bytes: liblzma raw encoder `[lzma2]` over the filtered bytes, raw decoder `[filter, lzma2]`.
pub fn ref_unfilter(kind: &str, prop: u32, filtered: &[u8]) -> Result<Vec<u8>, String> {
    let opts = ref_lzma2_opts();
    let mut g = Filters::new();
    g.lzma2(&opts);
    let enc = Stream::new_raw_encoder(&g).map_err(|e| format!("raw encoder: {e:?}"))?;
    let packed = lz_run(enc, filtered)?;
    let mut f = Filters::new();
    add_ref_filter(&mut f, kind, prop)?;
    f.lzma2(&opts);
    let dec = Stream::new_raw_decoder(&f).map_err(|e| format!("raw decoder: {e:?}"))?;
    lz_run(dec, &packed)
}

// ------------------------------------------------------------------------------------------ BCJ2 encoder
/// Range encoder of the BCJ2 flag stream (identical to the LZMA range coder: 11-bit probabilities, shift 5).
struct Rc2 {
    low: u64,
    range: u32,
    cache: u8,
    cache_size: u64,
    out: Vec<u8>,
}

impl Rc2 {
    fn new() -> Self {
        Rc2 { low: 0, range: 0xFFFF_FFFF, cache: 0, cache_size: 1, out: Vec::new() }
    }
    fn shift_low(&mut self) {
        if (self.low as u32) < 0xFF00_0000 || (self.low >> 32) != 0 {
            let carry = (self.low >> 32) as u8;
            let mut temp = self.cache;
            loop {
                self.out.push(temp.wrapping_add(carry));
                temp = 0xFF;
                self.cache_size -= 1;
                if self.cache_size == 0 {
                    break;
                }
            }
            self.cache = (self.low >> 24) as u8;
        }
        self.cache_size += 1;
        self.low = (self.low & 0x00FF_FFFF) << 8;
    }
    /// Returns true if the range had to be normalised after this bit.
    fn encode(&mut self, prob: &mut u16, bit: bool) -> bool {
        let bound = (self.range >> 11) * (*prob as u32);
        if !bit {
            self.range = bound;
            *prob += (2048 - *prob) >> 5;
        } else {
            self.low += bound as u64;
            self.range -= bound;
            *prob -= *prob >> 5;
        }
        let mut norm = false;
        while self.range < (1 << 24) {
            self.range <<= 8;
            self.shift_low();
            norm = true;
        }
        norm
    }
    fn finish(mut self) -> Vec<u8> {
        for _ in 0..5 {
            self.shift_low();
        }
        self.out
    }
}

pub struct Bcj2Streams {
    pub main: Vec<u8>,
    pub call: Vec<u8>,
    pub jump: Vec<u8>,
    pub rc: Vec<u8>,
    pub markers: usize,
    pub converted: usize,
}

/// policy: 0 = never convert, 100 = convert every eligible branch, otherwise percentage (seeded).
/// A branch is a marker byte E8 / E9 or the second byte of 0F 8x; it is eligible when four more bytes follow.
/// Converted: the four little-endian relative-offset bytes are removed from the main stream and
/// (rel + ip_after) is appended big-endian to the CALL (E8) or JUMP (E9, Jcc) stream.
pub fn bcj2_encode(data: &[u8], policy: u32, seed: u64) -> Bcj2Streams {
    let mut r = Rng::new(seed ^ 0xBC12);
    bcj2_encode_with(data, |_, eligible| eligible && (policy >= 100 || (policy > 0 && r.below(100) < policy as u64))).0
}

/// The same encoder with the conversion decision supplied per marker (index in scan order, eligible?).
/// Second result: for every marker, whether the range fell below 2^24 when its flag was coded (the decoder
/// must then normalise, i.e. consume one byte of the RC stream, before the next flag).
pub fn bcj2_encode_with(data: &[u8], mut decide: impl FnMut(usize, bool) -> bool) -> (Bcj2Streams, Vec<bool>) {
    let mut norms = Vec::new();
    let mut probs = [1024u16; 2 + 256];
    let mut rc = Rc2::new();
    let mut s = Bcj2Streams { main: Vec::new(), call: Vec::new(), jump: Vec::new(), rc: Vec::new(), markers: 0, converted: 0 };
    let n = data.len();
    let mut i = 0usize;
    let mut prev: u8 = 0;
    while i < n {
        let b = data[i];
        let marker = (b & 0xFE) == 0xE8 || (prev == 0x0F && (b & 0xF0) == 0x80);
        s.main.push(b);
        i += 1;
        if !marker {
            prev = b;
            continue;
        }
        s.markers += 1;
        let idx = if b == 0xE8 {
            2 + prev as usize
        } else if b == 0xE9 {
            1
        } else {
            0
        };
        let eligible = i + 4 <= n;
        let conv = eligible && decide(s.markers - 1, eligible);
        norms.push(rc.encode(&mut probs[idx], conv));
        if conv {
            let rel = u32::from_le_bytes([data[i], data[i + 1], data[i + 2], data[i + 3]]);
            let abs = rel.wrapping_add((i + 4) as u32);
            if b == 0xE8 {
                s.call.extend_from_slice(&abs.to_be_bytes());
            } else {
                s.jump.extend_from_slice(&abs.to_be_bytes());
            }
            i += 4;
            prev = data[i - 1];
            s.converted += 1;
        } else {
            prev = b;
        }
    }
    s.rc = rc.finish();
    (s, norms)
}

// ------------------------------------------------------------------------------------------ cases
#[derive(Deserialize, Clone, Debug, Default)]
pub struct DataSpec {
    /// dense | known | file | random | hex | zeros
    pub gen: String,
    #[serde(default)]
    pub len: usize,
    #[serde(default)]
    pub seed: u64,
    #[serde(default)]
    pub file: String,
    #[serde(default)]
    pub off: usize,
    #[serde(default)]
    pub hex: String,
    #[serde(default)]
    pub density: Option<u64>,
    #[serde(default)]
    pub force: Vec<usize>,
    /// architecture whose code generator is used (defaults to the case's arch)
    #[serde(default)]
    pub arch: Option<String>,
}

pub fn make_data(d: &DataSpec, arch: &str) -> Result<(Vec<u8>, Vec<(usize, usize)>), String> {
    let arch = d.arch.as_deref().unwrap_or(arch);
    Ok(match d.gen.as_str() {
        "dense" => (gen_dense(arch, d.len, d.seed), vec![]),
        "opdense" => (gen_opdense(arch, d.len, d.seed), vec![]),
        "known" => gen_known(arch, d.len, d.seed, d.density.unwrap_or(10), &d.force),
        "file" => {
            let b = std::fs::read(&d.file).map_err(|e| format!("{}: {e}", d.file))?;
            let lo = d.off.min(b.len());
            let hi = if d.len == 0 { b.len() } else { (lo + d.len).min(b.len()) };
            (b[lo..hi].to_vec(), vec![])
        }
        "hex" => (gen::unhex(&d.hex), vec![]),
        "zeros" => (vec![0; d.len], vec![]),
        other => (gen::data(other, d.len, d.seed), vec![]),
    })
}

#[derive(Deserialize, Clone, Debug)]
pub struct Case {
    pub id: String,
    /// bcj | delta | bcj2
    pub kind: String,
    #[serde(default)]
    pub arch: String,
    #[serde(default)]
    pub start: u64,
    #[serde(default)]
    pub dist: usize,
    pub data: DataSpec,
    /// write partition of the filter writer: sizes of successive slices (the rest goes in one final write);
    /// 0 = empty write, -1 = flush
    #[serde(default)]
    pub writes: Vec<i64>,
    #[serde(default)]
    pub sink_caps: Vec<usize>,
    /// read-size pattern (cyclic) of the filter reader; empty = one large buffer
    #[serde(default)]
    pub reads: Vec<usize>,
    #[serde(default)]
    pub src_chunks: Vec<usize>,
    /// the reader's source fails every n-th call with ErrorKind::Interrupted (0 = never); the driver retries
    #[serde(default)]
    pub src_interrupt: usize,
    #[serde(default)]
    pub reference: bool,
    #[serde(default)]
    pub trace: bool,
    /// bcj2: conversion policy in percent
    #[serde(default)]
    pub policy: u32,
    /// use `write` + manual continuation (true, default) i.e. the write_all loop, logging each call
    #[serde(default)]
    pub want_bytes: bool,
}

fn drive_writes<W: Write>(w: &mut W, data: &[u8], writes: &[i64], log: Option<&Log>) -> Result<(), String> {
    let mut off = 0usize;
    let mut script: Vec<i64> = writes.to_vec();
    script.push(i64::MAX);
    for s in script {
        if s == -1 {
            let r = w.flush();
            if let Some(l) = log {
                l.push(json!({"op": "Flush", "n": 0, "ret": if r.is_ok() { 0 } else { -1 }}));
            }
            r.map_err(|e| format!("flush: {e}"))?;
            continue;
        }
        let n = (s as u128).min((data.len() - off) as u128) as usize;
        if s == i64::MAX && n == 0 {
            break;
        }
        let mut done = 0usize;
        loop {
            if let Some(l) = log {
                l.push(json!({"op": "WriteCall", "n": n - done, "ret": 0}));
            }
            let r = w.write(&data[off + done..off + n]);
            if let Some(l) = log {
                l.push(json!({"op": "Write", "n": n - done, "ret": match &r { Ok(k) => *k as i64, Err(_) => -1 }}));
            }
            match r {
                Ok(k) => {
                    if k > n - done {
                        return Err(format!("write returned {k} > {}", n - done));
                    }
                    done += k;
                    if done >= n {
                        break;
                    }
                    if k == 0 {
                        return Err("write returned 0 for a non-empty slice".into());
                    }
                }
                Err(e) => return Err(format!("write: {e}")),
            }
        }
        off += n;
    }
    Ok(())
}

pub fn run_case(c: &Case) -> Value {
    let mut res = json!({"id": c.id, "kind": c.kind, "arch": c.arch});
    let r = contain(|| run_case_inner(c));
    match r {
        Ok(Ok(v)) => {
            for (k, x) in v.as_object().unwrap() {
                res[k] = x.clone();
            }
            res["panic"] = Value::Null;
        }
        Ok(Err(e)) => {
            res["tool_error"] = json!(e);
        }
        Err(p) => {
            res["panic"] = json!(format!("{p} @ {}", tio::last_panic_loc()));
        }
    }
    res
}

fn run_case_inner(c: &Case) -> Result<Value, String> {
    match c.kind.as_str() {
        "bcj" | "delta" => run_filter(c),
        "bcj2" => run_bcj2(c),
        _ => Err(format!("unknown kind {}", c.kind)),
    }
}

fn run_filter(c: &Case) -> Result<Value, String> {
    let (data, heads) = make_data(&c.data, &c.arch)?;
    let is_delta = c.kind == "delta";
    let prop: u32 = if is_delta { c.dist as u32 } else { c.start as u32 };
    let log = if c.trace { Some(Log::new()) } else { None };
    let mut out = json!({"n": data.len(), "heads": heads.iter().map(|(p, s)| json!([p, s])).collect::<Vec<_>>()});

    // ---- writer under the case's write partition and sink acceptance pattern
    let sink = Sink::new(&c.sink_caps, log.clone());
    let wres = contain(|| {
        if is_delta {
            let mut w = DeltaWriter::new(sink.clone(), c.dist);
            drive_writes(&mut w, &data, &c.writes, log.as_ref())
        } else {
            let mut w = bcj_writer(&c.arch, sink.clone(), c.start as usize);
            drive_writes(&mut w, &data, &c.writes, log.as_ref())
        }
    });
    let wloc = tio::last_panic_loc();
    let enc = sink.bytes();
    let wevents = log.as_ref().map(|l| l.take()).unwrap_or_default();
    match &wres {
        Ok(Ok(())) => out["write"] = json!("ok"),
        Ok(Err(e)) => out["write"] = json!(format!("err: {e}")),
        Err(p) => out["write"] = json!(format!("panic: {p} @ {wloc}")),
    }
    // ---- one-shot writer (single write of everything, unlimited sink): the canonical filtered bytes
    let one = contain(|| {
        let s2 = Sink::new(&[], None);
        if is_delta {
            let mut w = DeltaWriter::new(s2.clone(), c.dist);
            w.write_all(&data).map_err(|e| e.to_string())?;
        } else {
            let mut w = bcj_writer(&c.arch, s2.clone(), c.start as usize);
            w.write_all(&data).map_err(|e| e.to_string())?;
        }
        Ok::<Vec<u8>, String>(s2.bytes())
    });
    let oneloc = tio::last_panic_loc();
    let oneshot = match one {
        Ok(Ok(b)) => Some(b),
        Ok(Err(e)) => {
            out["oneshot"] = json!(format!("err: {e}"));
            None
        }
        Err(p) => {
            out["oneshot"] = json!(format!("panic: {p} @ {oneloc}"));
            None
        }
    };
    if let Some(o) = &oneshot {
        out["oneshot"] = json!("ok");
        out["enc_eq_oneshot"] = json!(*o == enc);
        out["enc_len"] = json!(enc.len());
        out["changed"] = json!(o.iter().zip(data.iter()).filter(|(a, b)| a != b).count());
        out["enc_digest"] = json!(gen::digest(o));
    }
    // ---- reader over the partitioned writer's output (what the property demands: still decodes)
    let rd = |input: &[u8], reads: &[usize], chunks: &[usize], lg: Option<Log>| {
        contain(|| {
            let mut src = Src::new(input.to_vec(), chunks, lg.clone());
            src.interrupt_every = c.src_interrupt;
            let big = [1usize << 16];
            let sizes: &[usize] = if reads.is_empty() { &big } else { reads };
            if is_delta {
                let mut r = DeltaReader::new(src, c.dist);
                tio::read_pattern(&mut r, sizes, lg.as_ref(), 4_000_000)
            } else {
                let mut r = bcj_reader(&c.arch, src, c.start as usize);
                tio::read_pattern(&mut r, sizes, lg.as_ref(), 4_000_000)
            }
        })
    };
    match rd(&enc, &[], &[], None) {
        Ok(o) => {
            out["dec_of_partitioned_ok"] = json!(o.err.is_none() && o.bytes == data);
            if o.bytes != data {
                let first = o.bytes.iter().zip(data.iter()).position(|(a, b)| a != b).unwrap_or(o.bytes.len().min(data.len()));
                out["dec_first_diff"] = json!(first);
                out["dec_len"] = json!(o.bytes.len());
            }
        }
        Err(p) => out["dec_of_partitioned_ok"] = json!(format!("panic: {p} @ {}", tio::last_panic_loc())),
    }
    // ---- reader under the case's read sizes / source chunking over the ONE-SHOT filtered bytes
    let mut revents = Vec::new();
    if let Some(o) = &oneshot {
        match rd(o, &c.reads, &c.src_chunks, log.clone()) {
            Ok(ro) => {
                out["rt_ok"] = json!(ro.err.is_none() && ro.bytes == data);
                out["rt_err"] = json!(ro.err);
                out["zero_ok"] = json!(ro.zero_ok);
                out["after_eof_ok"] = json!(ro.after_eof_ok);
                out["read_calls"] = json!(ro.calls);
                if ro.bytes != data {
                    let first = ro.bytes.iter().zip(data.iter()).position(|(a, b)| a != b).unwrap_or(ro.bytes.len().min(data.len()));
                    out["rt_first_diff"] = json!(first);
                    out["rt_len"] = json!(ro.bytes.len());
                }
            }
            Err(p) => out["rt_ok"] = json!(format!("panic: {p} @ {}", tio::last_panic_loc())),
        }
        revents = log.as_ref().map(|l| l.take()).unwrap_or_default();
        // ---- reference
        if c.reference {
            match ref_filter(if is_delta { "delta" } else { &c.arch }, prop, &data) {
                Ok(rf) => {
                    out["ref"] = json!(if rf == *o { "equal" } else { "differ" });
                    if rf != *o {
                        let first = rf.iter().zip(o.iter()).position(|(a, b)| a != b).unwrap_or(rf.len().min(o.len()));
                        out["ref_first_diff"] = json!(first);
                        out["ref_len"] = json!(rf.len());
                    }
                    // our reader on the reference's bytes
                    match rd(&rf, &c.reads, &c.src_chunks, None) {
                        Ok(ro) => out["dec_of_ref_ok"] = json!(ro.err.is_none() && ro.bytes == data),
                        Err(p) => out["dec_of_ref_ok"] = json!(format!("panic: {p}")),
                    }
                    match ref_unfilter(if is_delta { "delta" } else { &c.arch }, prop, o) {
                        Ok(back) => out["ref_dec_of_ours_ok"] = json!(back == data),
                        Err(e) => out["ref_dec_of_ours_ok"] = json!(format!("unavailable: {e}")),
                    }
                }
                Err(e) => out["ref"] = json!(format!("unavailable: {e}")),
            }
        }
    }
    if c.trace {
        out["wevents"] = json!(wevents);
        out["revents"] = json!(revents);
    }
    if c.want_bytes {
        out["enc_hex"] = json!(gen::hex(&enc));
    }
    Ok(out)
}

fn run_bcj2(c: &Case) -> Result<Value, String> {
    let (data, _) = make_data(&c.data, "x86")?;
    let s = bcj2_encode(&data, c.policy, c.data.seed);
    let mut out = json!({"n": data.len(), "markers": s.markers, "converted": s.converted,
        "main": s.main.len(), "call": s.call.len(), "jump": s.jump.len(), "rc": s.rc.len()});
    let log = if c.trace { Some(Log::new()) } else { None };
    let mk = |chunks: &[usize]| -> Vec<Src> {
        let mut v = vec![
            Src::new(s.main.clone(), chunks, None),
            Src::new(s.call.clone(), chunks, None),
            Src::new(s.jump.clone(), chunks, None),
            Src::new(s.rc.clone(), chunks, None),
        ];
        for x in v.iter_mut() {
            x.interrupt_every = c.src_interrupt;
        }
        v
    };
    let r = contain(|| {
        let mut rd = BCJ2Reader::new(mk(&c.src_chunks), data.len() as u64);
        let big = [1usize << 16];
        let sizes: &[usize] = if c.reads.is_empty() { &big } else { &c.reads };
        tio::read_pattern(&mut rd, sizes, log.as_ref(), 8_000_000)
    });
    match r {
        Ok(ro) => {
            out["rt_ok"] = json!(ro.err.is_none() && ro.bytes == data);
            out["rt_err"] = json!(ro.err);
            out["zero_ok"] = json!(ro.zero_ok);
            out["after_eof_ok"] = json!(ro.after_eof_ok);
            out["read_calls"] = json!(ro.calls);
            if ro.bytes != data {
                let first = ro.bytes.iter().zip(data.iter()).position(|(a, b)| a != b).unwrap_or(ro.bytes.len().min(data.len()));
                out["rt_first_diff"] = json!(first);
                out["rt_len"] = json!(ro.bytes.len());
            }
        }
        Err(p) => out["rt_ok"] = json!(format!("panic: {p} @ {}", tio::last_panic_loc())),
    }
    if c.trace {
        out["revents"] = json!(log.map(|l| l.take()).unwrap_or_default());
    }
    Ok(out)
}
