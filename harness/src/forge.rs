//! StreamForge, container part (group A): assembles .xz streams from the format rules around raw
//! filter-chain payloads produced by the reference encoder, including shapes the crate's own writer
//! never produces (block headers with the optional compressed / uncompressed size fields, several
//! blocks, every check type). The forge is itself checked against liblzma's stream decoder by the
//! checks that use it, so that a forge bug cannot masquerade as a crate bug.
use crate::refb::{self, RefCfg};
use crate::strict::{self, vli_encode, CRC32};

const PRESET_DICT: [u32; 10] = [1 << 18, 1 << 20, 1 << 21, 1 << 22, 1 << 22, 1 << 23, 1 << 23, 1 << 24, 1 << 25, 1 << 26];

pub fn check_id(s: &str) -> u8 {
    match s {
        "none" => 0,
        "crc32" => 1,
        "sha256" => 10,
        _ => 4,
    }
}

pub fn filter_flags(c: &RefCfg) -> Result<Vec<u8>, String> {
    let mut v = Vec::new();
    for f in &c.filters {
        let id: u64 = match f.t.as_str() {
            "delta" => 3,
            "x86" => 4,
            "powerpc" => 5,
            "ia64" => 6,
            "arm" => 7,
            "armthumb" => 8,
            "sparc" => 9,
            "arm64" => 10,
            "riscv" => 11,
            o => return Err(format!("unknown filter {o}")),
        };
        vli_encode(id, &mut v);
        if id == 3 {
            vli_encode(1, &mut v);
            v.push((f.p.max(1) - 1) as u8);
        } else if f.p == 0 {
            vli_encode(0, &mut v);
        } else {
            vli_encode(4, &mut v);
            v.extend_from_slice(&f.p.to_le_bytes());
        }
    }
    vli_encode(0x21, &mut v);
    vli_encode(1, &mut v);
    let dict = c.dict.unwrap_or(PRESET_DICT[(c.preset.min(9)) as usize]);
    v.push(refb::lzma2_dict_prop(dict));
    Ok(v)
}

/// Raw LZMA2 stream made of uncompressed chunks of `piece` bytes (1..=65536; the last one shorter): control 0x01 for the
/// first chunk (dictionary reset), 0x02 for the others, size field = size - 1 (0xFFFF for a full 64 KiB chunk), end marker.
pub fn lzma2_unc(data: &[u8], piece: usize) -> Vec<u8> {
    let piece = piece.clamp(1, 65536);
    let mut out = Vec::with_capacity(data.len() + data.len() / piece * 3 + 4);
    for (i, ch) in data.chunks(piece).enumerate() {
        out.push(if i == 0 { 0x01 } else { 0x02 });
        out.push(((ch.len() - 1) >> 8) as u8);
        out.push((ch.len() - 1) as u8);
        out.extend_from_slice(ch);
    }
    out.push(0);
    out
}

/// One .xz stream holding `data` split into blocks at `cuts`; `hc` / `hu`: write the optional compressed /
/// uncompressed size fields into every block header; `unc_piece` > 0: the LZMA2 payload consists of uncompressed chunks
/// of that many bytes (no pre-filters) instead of the reference encoder's output.
pub fn xz_stream(data: &[u8], cuts: &[usize], c: &RefCfg, hc: bool, hu: bool, unc_piece: usize) -> Result<Vec<u8>, String> {
    let cid = check_id(&c.check);
    let mut out = Vec::new();
    out.extend_from_slice(&strict::XZ_HEADER_MAGIC);
    let flags = [0u8, cid];
    out.extend_from_slice(&flags);
    out.extend_from_slice(&CRC32.checksum(&flags).to_le_bytes());
    let mut bounds: Vec<usize> = cuts.iter().copied().filter(|&x| x > 0 && x < data.len()).collect();
    bounds.sort();
    bounds.dedup();
    bounds.push(data.len());
    let mut index: Vec<(u64, u64)> = Vec::new();
    let mut pos = 0usize;
    let nf = c.filters.len() + 1;
    if nf > 4 {
        return Err("more than four filters".into());
    }
    for b in bounds {
        let blk = &data[pos..b];
        if blk.is_empty() && !data.is_empty() {
            continue;
        }
        if data.is_empty() {
            break; // an empty stream has no blocks
        }
        let mut rc = c.clone();
        rc.flush_at.clear();
        rc.sync_at.clear();
        let payload = if unc_piece > 0 && c.filters.is_empty() { lzma2_unc(blk, unc_piece) } else { refb::enc_raw_lzma2(blk, &rc)? };
        let mut h = vec![0u8, (nf as u8 - 1) | if hc { 0x40 } else { 0 } | if hu { 0x80 } else { 0 }];
        if hc {
            vli_encode(payload.len() as u64, &mut h);
        }
        if hu {
            vli_encode(blk.len() as u64, &mut h);
        }
        h.extend_from_slice(&filter_flags(c)?);
        while (h.len() + 4) % 4 != 0 {
            h.push(0);
        }
        h[0] = ((h.len() + 4) / 4 - 1) as u8;
        let crc = CRC32.checksum(&h);
        h.extend_from_slice(&crc.to_le_bytes());
        out.extend_from_slice(&h);
        out.extend_from_slice(&payload);
        while out.len() % 4 != 0 {
            out.push(0);
        }
        let chk = strict::check_value(cid, blk).ok_or("unsupported check")?;
        out.extend_from_slice(&chk);
        index.push(((h.len() + payload.len() + chk.len()) as u64, blk.len() as u64));
        pos = b;
    }
    let istart = out.len();
    out.push(0);
    vli_encode(index.len() as u64, &mut out);
    for (u, c) in &index {
        vli_encode(*u, &mut out);
        vli_encode(*c, &mut out);
    }
    while (out.len() - istart) % 4 != 0 {
        out.push(0);
    }
    let crc = CRC32.checksum(&out[istart..]);
    out.extend_from_slice(&crc.to_le_bytes());
    let isize = out.len() - istart;
    let mut f = Vec::new();
    f.extend_from_slice(&((isize / 4 - 1) as u32).to_le_bytes());
    f.extend_from_slice(&flags);
    out.extend_from_slice(&CRC32.checksum(&f).to_le_bytes());
    out.extend_from_slice(&f);
    out.extend_from_slice(&strict::XZ_FOOTER_MAGIC);
    Ok(out)
}
