//! BCJ2 model binding (spec/Bcj2Decoder.tla, Trace_Bcj2Decoder.tla): runs the real `BCJ2Reader` under an exact
//! script - destination size of every call, delivery size of every source read of each of the four streams,
//! Interrupted faults at chosen source reads - and reports, per call, the returned value and the decoder's
//! abstract state (hook H7), plus the event list for TLC trace validation.
use crate::filters::bcj2_encode_with;
use crate::tio::{contain, last_panic_loc};
use lzma_rust2::filter::bcj2::BCJ2Reader;
use serde::Deserialize;
use serde_json::{json, Value};
use std::cell::{Cell, RefCell};
use std::io::Read;
use std::rc::Rc;

#[derive(Deserialize, Clone, Debug)]
pub struct Case {
    pub id: String,
    /// original (unfiltered) bytes
    pub orig_hex: String,
    /// conversion decision per marker, in scan order (missing entries = 0)
    #[serde(default)]
    pub flags: Vec<u8>,
    /// cyclic destination sizes
    pub caps: Vec<usize>,
    /// cyclic delivery sizes per stream (main, call, jump, rc)
    pub chunks: Vec<Vec<usize>>,
    /// global indices (0-based, counted over all four sources) of source reads that fail with Interrupted
    #[serde(default)]
    pub intr: Vec<usize>,
    /// global indices of source reads that fail with another (non-retryable) error
    #[serde(default)]
    pub fail: Vec<usize>,
    /// bytes removed from the end of each source (main, call, jump, rc): truncated input
    #[serde(default)]
    pub cut: Vec<usize>,
    #[serde(default)]
    pub max_calls: usize,
    #[serde(default)]
    pub trace: bool,
}

struct Shared {
    ops: Cell<usize>,
    intr: Vec<usize>,
    fail: Vec<usize>,
    events: RefCell<Vec<Value>>,
    trace: bool,
}

struct Bsrc {
    id: usize,
    data: Vec<u8>,
    pos: usize,
    pat: Vec<usize>,
    n: usize,
    sh: Rc<Shared>,
}

impl Read for Bsrc {
    fn read(&mut self, buf: &mut [u8]) -> std::io::Result<usize> {
        let op = self.sh.ops.get();
        self.sh.ops.set(op + 1);
        if self.sh.intr.contains(&op) {
            if self.sh.trace {
                self.sh.events.borrow_mut().push(json!({"op": "Src", "s": self.id, "ret": -1}));
            }
            return Err(std::io::Error::new(std::io::ErrorKind::Interrupted, "injected"));
        }
        if self.sh.fail.contains(&op) {
            if self.sh.trace {
                self.sh.events.borrow_mut().push(json!({"op": "Src", "s": self.id, "ret": -2}));
            }
            return Err(std::io::Error::new(std::io::ErrorKind::Other, "injected-hard"));
        }
        let c = if self.pat.is_empty() { usize::MAX } else { self.pat[self.n % self.pat.len()] };
        self.n += 1;
        let k = c.min(buf.len()).min(self.data.len() - self.pos);
        buf[..k].copy_from_slice(&self.data[self.pos..self.pos + k]);
        self.pos += k;
        if self.sh.trace {
            self.sh.events.borrow_mut().push(json!({"op": "Src", "s": self.id, "ret": k}));
        }
        Ok(k)
    }
}

fn err_code(e: &std::io::Error) -> String {
    let m = e.to_string();
    if e.kind() == std::io::ErrorKind::Interrupted {
        "intr".into()
    } else if m.contains("injected-hard") {
        "hard".into()
    } else if e.kind() == std::io::ErrorKind::UnexpectedEof {
        "eof".into()
    } else if let Some(p) = m.rfind("bcj2 decode error:") {
        m[p + 18..].trim().to_string()
    } else if m.contains("bcj2 decode error") {
        "dec".into()
    } else {
        format!("other: {m}")
    }
}

pub fn run_case(c: &Case) -> Value {
    let orig = crate::gen::unhex(&c.orig_hex);
    let flags = c.flags.clone();
    let (s, norms) = bcj2_encode_with(&orig, |k, _| flags.get(k).copied().unwrap_or(0) != 0);
    let sh = Rc::new(Shared { ops: Cell::new(0), intr: c.intr.clone(), fail: c.fail.clone(), events: RefCell::new(Vec::new()), trace: c.trace });
    let mk = |id: usize, data: &Vec<u8>| Bsrc { id, data: data[..data.len() - c.cut.get(id).copied().unwrap_or(0).min(data.len())].to_vec(), pos: 0, pat: c.chunks.get(id).cloned().unwrap_or_default(), n: 0, sh: sh.clone() };
    let inputs = vec![mk(0, &s.main), mk(1, &s.call), mk(2, &s.jump), mk(3, &s.rc)];
    let mut out = json!({"id": c.id, "n": orig.len(), "markers": s.markers, "converted": s.converted,
        "lens": [s.main.len(), s.call.len(), s.jump.len(), s.rc.len()],
        "norm": norms.iter().map(|b| *b as u8).collect::<Vec<_>>()});
    let max_calls = if c.max_calls == 0 { 4 * orig.len() + 64 } else { c.max_calls };
    let r = contain(|| {
        let mut rd = BCJ2Reader::new(inputs, orig.len() as u64);
        let mut got: Vec<u8> = Vec::new();
        let mut calls: Vec<Value> = Vec::new();
        let mut i = 0usize;
        let mut buf = vec![0u8; c.caps.iter().copied().max().unwrap_or(1).max(1)];
        let mut stuck = false;
        let mut errs_in_row = 0usize;
        while got.len() < orig.len() {
            if i >= max_calls {
                stuck = true;
                break;
            }
            let cap = c.caps[i % c.caps.len()];
            i += 1;
            if c.trace {
                sh.events.borrow_mut().push(json!({"op": "Call", "cap": cap}));
            }
            let res = rd.read(&mut buf[..cap]);
            let st = rd.verif_state();
            let (ret, err) = match &res {
                Ok(k) => (*k as i64, json!("")),
                Err(e) => (-1, json!(err_code(e))),
            };
            if let Ok(k) = &res {
                got.extend_from_slice(&buf[..*k]);
            }
            calls.push(json!({"cap": cap, "ret": ret, "err": err, "st": st[0], "rem": st[3]}));
            if c.trace {
                sh.events.borrow_mut().push(json!({"op": "Ret", "ret": ret, "err": err, "st": st[0], "rem": st[3],
                    "t3": st[1], "need": (st[2] < (1 << 24)) as u8, "av": [st[4], st[5], st[6], st[7]], "ex": [st[8], st[9], st[10], st[11]]}));
            }
            match res {
                Ok(0) if cap > 0 => break,
                // a hard error may be transient (nothing decoded: returned at once, not kept) or kept for good:
                // keep calling a few times, the model predicts which
                Err(e) if e.kind() != std::io::ErrorKind::Interrupted => {
                    errs_in_row += 1;
                    if errs_in_row >= 3 || !e.to_string().contains("injected-hard") {
                        break;
                    }
                }
                Err(_) => {}
                Ok(_) => errs_in_row = 0,
            }
        }
        // one more call after everything was delivered: must be Ok(0)
        let after = if got.len() == orig.len() {
            match rd.read(&mut buf[..]) {
                Ok(0) => "ok0".to_string(),
                Ok(k) => format!("ok{k}"),
                Err(e) => format!("err:{}", err_code(&e)),
            }
        } else {
            "n/a".to_string()
        };
        (got, calls, stuck, after)
    });
    match r {
        Ok((got, calls, stuck, after)) => {
            out["rt_ok"] = json!(got == orig);
            out["prefix_ok"] = json!(got.len() <= orig.len() && got[..] == orig[..got.len()]);
            if got != orig {
                out["first_diff"] = json!(got.iter().zip(orig.iter()).position(|(a, b)| a != b).unwrap_or(got.len().min(orig.len())));
                out["got"] = json!(got.len());
            }
            out["calls"] = json!(calls);
            out["stuck"] = json!(stuck);
            out["after"] = json!(after);
            out["panic"] = Value::Null;
        }
        Err(p) => {
            out["panic"] = json!(format!("{p} @ {}", last_panic_loc()));
        }
    }
    if c.trace {
        out["events"] = json!(sh.events.borrow().clone());
    }
    out
}
